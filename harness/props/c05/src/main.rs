//! C05 — MULTI/EXEC is all-or-nothing and equals the sequential run; WATCH aborts on change.
//!
//! Tier 1 (`conn_scripts`): the production connection-level state machine
//! (`OptimizedConnectionHandler`, hook `verif_hooks::run_connection`). Client A runs a
//! generated transaction script, client B's writes are placed by the generator between A's
//! commands; both are real handlers sharing one `ShardedActorState`, driven in lock-step over
//! `tokio::io::duplex` (send one command, read exactly one reply with the strict decoder).
//! Oracle: a twin server running the same prefix and then A's body *outside* a transaction
//! (expected EXEC array and final keyspace), keyspace dumps around every queued command, and a
//! WATCH expectation computed from full typed value dumps at WATCH time and at EXEC time.
//!
//! Tier 2 (`exec_scripts`): the executor-level MULTI/EXEC/WATCH of one `CommandExecutor`
//! (`src/redis/executor/transaction_ops.rs`), same scripts single-client.

use proptest::prelude::*;
use proptest::strategy::BoxedStrategy;
use redis_sim::production::{verif_hooks, ConnectionConfig, ShardedActorState};
use redis_sim::redis::CommandExecutor;
use serde::{Deserialize, Serialize};
use serde_json::json;
use std::pin::Pin;
use std::task::Poll;
use tokio::io::{AsyncRead, AsyncWriteExt, DuplexStream, ReadBuf};
use vcore::dump::{dump_async, dump_executor, Dump, KeyDump};
use vcore::gen::GenOpts;
use vcore::resp::{decode_reply, show_argv, Argv, DecodeError, Reply};
use vcore::{CaseCtx, Level, Session};

const KF_WATCH_GET: &str = "KF-C05-01";
const KF_CONN_LEVEL: &str = "KF-C05-02";

/// scheduler turns a handler gets to answer one command (a command causes a handful of
/// messages between the handler and the shard actors; nothing waits for time or real I/O)
const REPLY_TURNS: usize = 20_000;

fn b(s: &str) -> Vec<u8> {
    s.as_bytes().to_vec()
}

fn argv(parts: &[&str]) -> Argv {
    parts.iter().map(|s| s.as_bytes().to_vec()).collect()
}

// ---------------------------------------------------------------------------------------
// script
// ---------------------------------------------------------------------------------------

/// Keys A may watch and B may touch: the first 8 keys of the shared pool (spread over shards,
/// one with a space, one tagged pair) — some exist with each of the five types, some are
/// missing, depending on the generated setup.
const NKEYS: usize = 8;

fn key_of(i: u16) -> Vec<u8> {
    vcore::gen::KEY_POOL[(i as usize * NKEYS) >> 16].to_vec()
}

#[derive(Clone, Debug, Serialize, Deserialize)]
enum BodyItem {
    /// a syntactically valid data command (may fail at run time: WRONGTYPE, overflow, …)
    Cmd(Argv),
    /// unknown command name
    Unknown(Argv),
    /// known command, wrong number of arguments
    WrongArity(Argv),
    NestedMulti,
    WatchInside(u16),
    /// commands the connection answers itself outside a transaction (PING is served by the
    /// shard path as well; ACL WHOAMI / HELLO / AUTH are connection-level)
    ConnLevel(Argv),
}

impl BodyItem {
    fn argv(&self) -> Argv {
        match self {
            BodyItem::Cmd(a) | BodyItem::Unknown(a) | BodyItem::WrongArity(a) | BodyItem::ConnLevel(a) => a.clone(),
            BodyItem::NestedMulti => argv(&["MULTI"]),
            BodyItem::WatchInside(k) => vec![b("WATCH"), key_of(*k)],
        }
    }
}

#[derive(Clone, Debug, Serialize, Deserialize)]
enum WatchStep {
    Watch(Vec<u16>),
    Unwatch,
}

#[derive(Clone, Debug, Serialize, Deserialize)]
enum BOp {
    /// a generated write command
    Write(Argv),
    /// change the key's value, then restore exactly the previous value (type-specific)
    Touch(u16),
    /// rewrite the current value with itself (SET k <same>, SADD existing member, …)
    Rewrite(u16),
    /// a change that certainly alters the value whatever the type (or creates the key)
    Change(u16),
    /// delete the key
    Del(u16),
}

#[derive(Clone, Debug, Serialize, Deserialize)]
struct BAction {
    /// fraction selecting the position "before A's step #j", j in 0..=last step (never after EXEC)
    at: u16,
    op: BOp,
}

#[derive(Clone, Debug, Serialize, Deserialize)]
struct Script {
    shards: u8,
    /// seed one key of each of the five types before anything else
    seed_types: bool,
    setup: Vec<Argv>,
    watches: Vec<WatchStep>,
    body: Vec<BodyItem>,
    /// EXEC (true) or DISCARD (false)
    exec: bool,
    b: Vec<BAction>,
    /// after the transaction: B changes a key A had watched, then A runs MULTI / RPUSH / EXEC,
    /// which must apply (EXEC, DISCARD and aborts forget the watches)
    tail: Option<u16>,
}

fn body_opts() -> GenOpts {
    GenOpts {
        binary_names: false,
        flush: true,
        scan: false,
        random: false, // SPOP/RANDOMKEY choose by hash-map order: the twin may choose differently
        two_key: true,
        multi_key: true,
        keys_cmd: true,
        expiry: false, // replies and TTLs depend on the wall clock (ProductionTimeSource)
        floats: true,
        key_pool: NKEYS,
    }
}

fn tame(mut a: Argv) -> Argv {
    let name = vcore::gen::cmd_name(&a);
    if (name == "SETRANGE" || name == "SETBIT" || name == "GETBIT") && a.len() >= 3 {
        if let Ok(n) = String::from_utf8_lossy(&a[2]).parse::<u64>() {
            if n > 4096 {
                a[2] = b("77");
            }
        }
    }
    a
}

fn is_write(a: &Argv) -> bool {
    !matches!(
        vcore::gen::cmd_name(a).as_str(),
        "GET" | "STRLEN" | "GETRANGE" | "GETBIT" | "MGET" | "EXISTS" | "TYPE" | "DBSIZE" | "KEYS" | "LLEN" | "LINDEX"
            | "LRANGE" | "SMEMBERS" | "SISMEMBER" | "SCARD" | "HGET" | "HGETALL" | "HKEYS" | "HVALS" | "HLEN"
            | "HEXISTS" | "ZRANGE" | "ZREVRANGE" | "ZSCORE" | "ZRANK" | "ZCARD" | "ZCOUNT" | "ZRANGEBYSCORE" | "PING"
            | "ECHO" | "TTL" | "PTTL"
    )
}

fn data_cmd() -> BoxedStrategy<Argv> {
    vcore::gen::data_command(&body_opts()).prop_map(tame).boxed()
}

fn write_cmd() -> BoxedStrategy<Argv> {
    // writes only, by construction: pick from the grammar's write commands
    let k = || any::<u16>().prop_map(key_of);
    let v = vcore::gen::value;
    let m = || vcore::gen::member(&body_opts());
    prop_oneof![
        4 => (k(), v()).prop_map(|(k, v)| vec![b("SET"), k, v]),
        2 => (k(), v()).prop_map(|(k, v)| vec![b("APPEND"), k, v]),
        2 => k().prop_map(|k| vec![b("INCR"), k]),
        2 => k().prop_map(|k| vec![b("DEL"), k]),
        2 => (k(), v()).prop_map(|(k, v)| vec![b("RPUSH"), k, v]),
        1 => k().prop_map(|k| vec![b("LPOP"), k]),
        2 => (k(), m()).prop_map(|(k, m)| vec![b("SADD"), k, m]),
        1 => (k(), m()).prop_map(|(k, m)| vec![b("SREM"), k, m]),
        2 => (k(), m(), v()).prop_map(|(k, f, v)| vec![b("HSET"), k, f, v]),
        1 => (k(), m()).prop_map(|(k, f)| vec![b("HDEL"), k, f]),
        2 => (k(), vcore::gen::score_arg(), m()).prop_map(|(k, s, m)| vec![b("ZADD"), k, s, m]),
        1 => (k(), m()).prop_map(|(k, m)| vec![b("ZREM"), k, m]),
        1 => (k(), k()).prop_map(|(a, c)| vec![b("RENAME"), a, c]),
        3 => data_cmd(),
    ]
    .boxed()
}

fn body_item(conn_level: bool) -> BoxedStrategy<BodyItem> {
    let mut alts: Vec<(u32, BoxedStrategy<BodyItem>)> = vec![
        (30, data_cmd().prop_map(BodyItem::Cmd).boxed()),
        (14, write_cmd().prop_map(BodyItem::Cmd).boxed()),
        (
            1,
            prop_oneof![
                Just(vec![b("NOSUCHCMD"), b("x")]),
                Just(vec![b("GETT"), b("k0")]),
                Just(vec![b("FOO\r\nBAR")]),
            ]
            .prop_map(BodyItem::Unknown)
            .boxed(),
        ),
        (
            1,
            prop_oneof![
                Just(vec![b("GET")]),
                Just(vec![b("SET"), b("k0")]),
                Just(vec![b("INCR")]),
                Just(vec![b("HSET"), b("k2"), b("f")]),
                Just(vec![b("RENAME"), b("k0")]),
            ]
            .prop_map(BodyItem::WrongArity)
            .boxed(),
        ),
        (2, Just(BodyItem::NestedMulti).boxed()),
        (2, any::<u16>().prop_map(BodyItem::WatchInside).boxed()),
        (
            2,
            prop_oneof![Just(vec![b("PING")]), Just(vec![b("ECHO"), b("hi")]), Just(vec![b("PING"), b("x")])]
                .prop_map(BodyItem::ConnLevel)
                .boxed(),
        ),
    ];
    if conn_level {
        alts.push((
            2,
            prop_oneof![
                Just(vec![b("ACL"), b("WHOAMI")]),
                Just(vec![b("HELLO")]),
                Just(vec![b("AUTH"), b("default"), b("nopass")]),
                Just(vec![b("ACL"), b("USERS")]),
            ]
            .prop_map(BodyItem::ConnLevel)
            .boxed(),
        ));
    }
    proptest::strategy::Union::new_weighted(alts).boxed()
}

fn b_action() -> BoxedStrategy<BAction> {
    (
        any::<u16>(),
        prop_oneof![
            4 => write_cmd().prop_map(BOp::Write),
            3 => any::<u16>().prop_map(BOp::Touch),
            2 => any::<u16>().prop_map(BOp::Rewrite),
            4 => any::<u16>().prop_map(BOp::Change),
            1 => any::<u16>().prop_map(BOp::Del),
        ],
    )
        .prop_map(|(at, op)| BAction { at, op })
        .boxed()
}

fn script(conn_level: bool) -> BoxedStrategy<Script> {
    (
        prop_oneof![1 => Just(1u8), 1 => Just(4u8)],
        prop_oneof![3 => Just(true), 1 => Just(false)],
        proptest::collection::vec(write_cmd(), 0..6),
        proptest::collection::vec(
            prop_oneof![
                8 => proptest::collection::vec(any::<u16>(), 1..4).prop_map(WatchStep::Watch),
                1 => Just(WatchStep::Unwatch),
            ],
            0..3,
        ),
        proptest::collection::vec(body_item(conn_level), 0..9),
        prop_oneof![5 => Just(true), 1 => Just(false)],
        proptest::collection::vec(b_action(), 0..5),
        prop_oneof![2 => Just(None), 1 => any::<u16>().prop_map(Some)],
    )
        .prop_map(|(shards, seed_types, setup, watches, body, exec, b, tail)| Script {
            shards,
            seed_types,
            setup,
            watches,
            body,
            exec,
            b,
            tail,
        })
        .boxed()
}

fn seed_commands() -> Vec<Argv> {
    vec![
        argv(&["SET", "k0", "10"]),
        argv(&["RPUSH", "k1", "a", "b"]),
        argv(&["HSET", "k2", "f", "v"]),
        argv(&["SADD", "k3", "a", "b"]),
        argv(&["ZADD", "{t}a", "1", "a", "2", "b"]),
    ]
}

// ---------------------------------------------------------------------------------------
// reply normalisation (hash-map order differs between two server instances)
// ---------------------------------------------------------------------------------------

fn normalise(cmd: &Argv, r: &Reply) -> Reply {
    match vcore::gen::cmd_name(cmd).as_str() {
        "KEYS" | "SMEMBERS" | "HKEYS" | "HVALS" => r.sorted(),
        "HGETALL" => r.sorted_pairs(),
        _ => r.clone(),
    }
}

// ---------------------------------------------------------------------------------------
// lock-step client over tokio::io::duplex
// ---------------------------------------------------------------------------------------

struct Client {
    name: &'static str,
    io: DuplexStream,
    buf: Vec<u8>,
    handler: tokio::task::JoinHandle<()>,
}

impl Client {
    fn connect(name: &'static str, state: &ShardedActorState) -> Client {
        let (client, server) = tokio::io::duplex(1 << 16);
        let handler = tokio::spawn(verif_hooks::run_connection(server, state.clone(), ConnectionConfig::default()));
        Client {
            name,
            io: client,
            buf: Vec::new(),
            handler,
        }
    }

    /// Send one command, read exactly one reply. Err = the handler did not produce a
    /// well-formed reply (closed the connection, panicked, wrote garbage, stayed silent).
    async fn call(&mut self, cmd: &Argv) -> Result<Reply, String> {
        let what_s = format!("client {} sent {}", self.name, show_argv(cmd));
        let what = || what_s.clone();
        if !self.buf.is_empty() {
            return Err(format!("{}: {} unsolicited bytes were pending: {:?}", what(), self.buf.len(), vcore::show(&self.buf)));
        }
        self.io
            .write_all(&vcore::resp::encode_command(cmd))
            .await
            .map_err(|e| format!("{}: write failed: {}", what(), e))?;
        let mut turns = 0usize;
        loop {
            match decode_reply(&self.buf) {
                Ok((r, n)) => {
                    self.buf.drain(..n);
                    // one more turn: anything the handler writes beyond one reply is a defect
                    tokio::task::yield_now().await;
                    match self.poll_some().await? {
                        Some(0) => return Err(format!("{}: the server closed the connection after replying {}", what(), r.show())),
                        Some(_) => return Err(format!("{}: more than one reply: extra bytes {:?}", what(), vcore::show(&self.buf))),
                        None => {}
                    }
                    return Ok(r);
                }
                Err(DecodeError::Incomplete) => {}
                Err(DecodeError::Malformed(m)) => {
                    return Err(format!("{}: reply is not well-formed RESP ({}): {:?}", what(), m, vcore::show(&self.buf)))
                }
            }
            match self.poll_some().await? {
                Some(0) => {
                    let p = vcore::runner::take_last_panic();
                    return Err(match p {
                        Some(p) => format!("{}: the connection handler panicked: {}", what(), p),
                        None => format!("{}: the server closed the connection without a reply", what()),
                    });
                }
                Some(_) => {}
                None => {
                    turns += 1;
                    if turns > REPLY_TURNS {
                        return Err(format!(
                            "{}: no reply after {} scheduler turns (handler finished: {}) — the client would wait forever",
                            what(),
                            turns,
                            self.handler.is_finished()
                        ));
                    }
                    tokio::task::yield_now().await;
                }
            }
        }
    }

    /// One non-blocking read: Some(n) bytes appended (0 = EOF), None = nothing available now.
    async fn poll_some(&mut self) -> Result<Option<usize>, String> {
        let mut tmp = [0u8; 8192];
        let io = &mut self.io;
        let r = std::future::poll_fn(|cx| {
            let mut rb = ReadBuf::new(&mut tmp);
            match Pin::new(&mut *io).poll_read(cx, &mut rb) {
                Poll::Ready(Ok(())) => Poll::Ready(Ok(Some(rb.filled().len()))),
                Poll::Ready(Err(e)) => Poll::Ready(Err(e.to_string())),
                Poll::Pending => Poll::Ready(Ok(None)),
            }
        })
        .await?;
        if let Some(n) = r {
            self.buf.extend_from_slice(&tmp[..n]);
        }
        Ok(r)
    }
}

async fn direct(state: &ShardedActorState, a: Argv) -> Reply {
    match vcore::resp::parse_zc(&a) {
        Ok(cmd) => Reply::from_resp(&state.execute(&cmd).await),
        Err(e) => Reply::Error(e.into_bytes()),
    }
}

/// Side channel: the visible keyspace through ordinary read commands sent straight to the
/// shared state (not through any connection).
async fn dump_state(state: &ShardedActorState) -> Dump {
    let extra: Vec<Vec<u8>> = (0..NKEYS).map(|i| vcore::gen::KEY_POOL[i].to_vec()).collect();
    dump_async(|a| direct(state, a), &extra).await
}

// ---------------------------------------------------------------------------------------
// B's dynamic operations, resolved to concrete commands from the current dump
// ---------------------------------------------------------------------------------------

fn first_elems(v: &Reply) -> Vec<Vec<u8>> {
    v.as_array()
        .map(|a| a.iter().filter_map(|e| e.as_bulk().map(|x| x.to_vec())).collect())
        .unwrap_or_default()
}

fn resolve_b(op: &BOp, d: &Dump) -> Vec<Argv> {
    let fresh = b("zz-fresh-member");
    match op {
        BOp::Write(a) => vec![a.clone()],
        BOp::Del(k) => vec![vec![b("DEL"), key_of(*k)]],
        BOp::Change(k) => {
            let key = key_of(*k);
            match d.get(&key).map(|kd| kd.ty.as_str()) {
                None | Some("string") => vec![vec![b("APPEND"), key, b("!")]],
                Some("list") => vec![vec![b("RPUSH"), key, b("!")]],
                Some("set") => vec![vec![b("SADD"), key, fresh]],
                Some("hash") => vec![vec![b("HSET"), key, fresh, b("1")]],
                _ => vec![vec![b("ZADD"), key, b("99"), fresh]],
            }
        }
        BOp::Touch(k) => {
            let key = key_of(*k);
            match d.get(&key) {
                None => vec![vec![b("SET"), key.clone(), b("tmp")], vec![b("DEL"), key]],
                Some(kd) => match kd.ty.as_str() {
                    "string" => {
                        let old = kd.value.as_bulk().unwrap_or(b"").to_vec();
                        vec![vec![b("SET"), key.clone(), b("tmp-other-value")], vec![b("SET"), key, old]]
                    }
                    "list" => vec![vec![b("RPUSH"), key.clone(), b("tmp")], vec![b("RPOP"), key]],
                    "set" => vec![vec![b("SADD"), key.clone(), fresh.clone()], vec![b("SREM"), key, fresh]],
                    "hash" => vec![vec![b("HSET"), key.clone(), fresh.clone(), b("1")], vec![b("HDEL"), key, fresh]],
                    _ => vec![vec![b("ZADD"), key.clone(), b("99"), fresh.clone()], vec![b("ZREM"), key, fresh]],
                },
            }
        }
        BOp::Rewrite(k) => {
            let key = key_of(*k);
            match d.get(&key) {
                None => vec![vec![b("DEL"), key]],
                Some(kd) => {
                    let el = first_elems(&kd.value);
                    match kd.ty.as_str() {
                        "string" => vec![vec![b("SET"), key, kd.value.as_bulk().unwrap_or(b"").to_vec()]],
                        "list" if !el.is_empty() => vec![vec![b("LSET"), key, b("0"), el[0].clone()]],
                        "set" if !el.is_empty() => vec![vec![b("SADD"), key, el[0].clone()]],
                        "hash" if el.len() >= 2 => vec![vec![b("HSET"), key, el[0].clone(), el[1].clone()]],
                        "zset" if el.len() >= 2 => vec![vec![b("ZADD"), key, el[1].clone(), el[0].clone()]],
                        _ => vec![vec![b("EXISTS"), key]],
                    }
                }
            }
        }
    }
}

// ---------------------------------------------------------------------------------------
// the oracle pieces shared by both tiers
// ---------------------------------------------------------------------------------------

/// What GET shows for a key: the connection's WATCH snapshot (finding KF-C05-01).
fn get_view(k: Option<&KeyDump>) -> Reply {
    match k {
        None => Reply::Nil,
        Some(kd) if kd.ty == "string" => kd.value.clone(),
        Some(_) => Reply::Error(b"WRONGTYPE".to_vec()),
    }
}

#[derive(Debug)]
struct WatchRec {
    key: Vec<u8>,
    at_watch: Option<KeyDump>,
}

fn diff_dumps(a: &Dump, b_: &Dump) -> String {
    let mut s = String::new();
    let keys: std::collections::BTreeSet<&Vec<u8>> = a.keys().chain(b_.keys()).collect();
    for k in keys {
        if a.get(k) != b_.get(k) {
            s.push_str(&format!(
                "    key {:?}: {} vs {}\n",
                vcore::show(k),
                a.get(k).map(|d| format!("[{}] {}", d.ty, d.value.show())).unwrap_or_else(|| "(missing)".into()),
                b_.get(k).map(|d| format!("[{}] {}", d.ty, d.value.show())).unwrap_or_else(|| "(missing)".into()),
            ));
        }
    }
    s
}

fn is_nil(r: &Reply) -> bool {
    matches!(r, Reply::Nil | Reply::NilArray)
}

fn is_queued(r: &Reply) -> bool {
    *r == Reply::Simple(b"QUEUED".to_vec())
}

struct TxObs {
    /// body commands that were answered +QUEUED, in order
    queued: Vec<Argv>,
    /// a queue-time error was reported for a command other than MULTI/WATCH
    flagged: bool,
}

/// Check one queue-time reply; update the observation.
fn on_queue_reply(item: &BodyItem, r: &Reply, obs: &mut TxObs) -> Result<(), String> {
    let a = item.argv();
    match item {
        BodyItem::NestedMulti | BodyItem::WatchInside(_) => {
            if !r.is_error() {
                return Err(format!("{} inside MULTI answered {} — expected an error reply", show_argv(&a), r.show()));
            }
        }
        BodyItem::Cmd(_) => {
            // the grammar also produces option combinations the parser rejects (SET … NX XX):
            // those are queue-time errors; what the production parser accepts must be queued
            let parses = vcore::resp::parse_zc(&a).is_ok();
            if parses {
                if !is_queued(r) {
                    return Err(format!(
                        "valid command {} inside MULTI answered {} — expected +QUEUED (no result before EXEC)",
                        show_argv(&a),
                        r.show()
                    ));
                }
                obs.queued.push(a);
            } else if r.is_error() {
                obs.flagged = true;
            } else {
                return Err(format!(
                    "{} (rejected by the command parser) inside MULTI answered {} — expected an error reply",
                    show_argv(&a),
                    r.show()
                ));
            }
        }
        BodyItem::Unknown(_) | BodyItem::WrongArity(_) | BodyItem::ConnLevel(_) => {
            if is_queued(r) {
                obs.queued.push(a);
            } else if r.is_error() {
                obs.flagged = true;
            } else {
                return Err(format!(
                    "{} inside MULTI answered {} — neither +QUEUED nor an error (a result before EXEC)",
                    show_argv(&a),
                    r.show()
                ));
            }
        }
    }
    Ok(())
}

// ---------------------------------------------------------------------------------------
// tier 1: connection handlers
// ---------------------------------------------------------------------------------------

struct ConnOutcome {
    nontrivial: bool,
    labels: Vec<&'static str>,
    /// findings tolerated (checked with ctx by the caller, which owns ctx)
    watch_get_case: bool,
}

/// What the caller must decide about known findings (ctx is not Send; the async part only
/// reports what it saw).
enum Verdict {
    Ok(ConnOutcome),
    /// watched non-string key changed unnoticed (exact matcher satisfied); `rest` = the result
    /// of checking the script as an *applied* transaction
    WatchGet(String, Result<ConnOutcome, String>),
    Fail(String),
}

async fn run_conn_script(sc: &Script) -> Verdict {
    match run_conn_script_inner(sc).await {
        Ok(v) => v,
        Err(e) => Verdict::Fail(e),
    }
}

async fn run_conn_script_inner(sc: &Script) -> Result<Verdict, String> {
    let shards = sc.shards.max(1) as usize;
    let state = ShardedActorState::with_shards(shards);
    let mut a = Client::connect("A", &state);
    let mut bc = Client::connect("B", &state);
    let mut labels: Vec<&'static str> = Vec::new();
    // every command that had an effect on the real server before EXEC, in order (for the twin)
    let mut effects: Vec<Argv> = Vec::new();

    if sc.seed_types {
        for c in seed_commands() {
            bc.call(&c).await?;
            effects.push(c);
        }
    }
    for c in &sc.setup {
        bc.call(c).await?;
        effects.push(c.clone());
    }

    // A's steps
    #[derive(Clone)]
    enum Step {
        Watch(Vec<Vec<u8>>),
        Unwatch,
        Multi,
        Body(usize),
        End,
    }
    let mut steps: Vec<Step> = Vec::new();
    for w in &sc.watches {
        match w {
            WatchStep::Watch(ks) => {
                let mut keys: Vec<Vec<u8>> = ks.iter().map(|k| key_of(*k)).collect();
                keys.dedup();
                steps.push(Step::Watch(keys));
            }
            WatchStep::Unwatch => steps.push(Step::Unwatch),
        }
    }
    steps.push(Step::Multi);
    for i in 0..sc.body.len() {
        steps.push(Step::Body(i));
    }
    steps.push(Step::End);
    // B's actions by position (stable order)
    let mut b_at: Vec<Vec<&BOp>> = vec![Vec::new(); steps.len()];
    for act in &sc.b {
        let j = (act.at as usize * steps.len()) >> 16;
        b_at[j].push(&act.op);
    }

    let mut watched: Vec<WatchRec> = Vec::new();
    let mut obs = TxObs {
        queued: Vec::new(),
        flagged: false,
    };
    let mut in_multi = false;
    let mut b_after_watch = false;
    let mut exec_reply: Option<Reply> = None;
    let mut dump_before_end: Dump = Dump::new();

    for (j, step) in steps.iter().enumerate() {
        for op in &b_at[j] {
            let d = dump_state(&state).await;
            for c in resolve_b(op, &d) {
                let r = bc.call(&c).await?;
                if in_multi && is_queued(&r) {
                    return Err(format!("client B's {} was answered +QUEUED although only A is inside MULTI", show_argv(&c)));
                }
                effects.push(c);
            }
            if !watched.is_empty() {
                b_after_watch = true;
            }
        }
        match step {
            Step::Watch(keys) => {
                let mut c = vec![b("WATCH")];
                c.extend(keys.iter().cloned());
                let r = a.call(&c).await?;
                if r != Reply::ok() {
                    return Err(format!("{} answered {}", show_argv(&c), r.show()));
                }
                let d = dump_state(&state).await;
                for k in keys {
                    watched.push(WatchRec {
                        key: k.clone(),
                        at_watch: d.get(k).cloned(),
                    });
                }
            }
            Step::Unwatch => {
                let r = a.call(&argv(&["UNWATCH"])).await?;
                if r != Reply::ok() {
                    return Err(format!("UNWATCH answered {}", r.show()));
                }
                watched.clear();
                b_after_watch = false;
            }
            Step::Multi => {
                let r = a.call(&argv(&["MULTI"])).await?;
                if r != Reply::ok() {
                    return Err(format!("MULTI answered {}", r.show()));
                }
                in_multi = true;
            }
            Step::Body(i) => {
                let item = &sc.body[*i];
                let before = dump_state(&state).await;
                let r = a.call(&item.argv()).await?;
                on_queue_reply(item, &r, &mut obs)?;
                let after = dump_state(&state).await;
                if before != after {
                    return Err(format!(
                        "{} sent inside MULTI (answered {}) changed the keyspace before EXEC:\n{}",
                        show_argv(&item.argv()),
                        r.show(),
                        diff_dumps(&before, &after)
                    ));
                }
            }
            Step::End => {
                dump_before_end = dump_state(&state).await;
                let c = if sc.exec { argv(&["EXEC"]) } else { argv(&["DISCARD"]) };
                exec_reply = Some(a.call(&c).await?);
            }
        }
    }
    let end_reply = exec_reply.expect("script has an end step");
    let dump_after = dump_state(&state).await;

    // ---- WATCH expectation from full typed values
    let changed: Vec<&WatchRec> = watched
        .iter()
        .filter(|w| w.at_watch.as_ref() != dump_before_end.get(&w.key))
        .collect();
    let must_abort_watch = !changed.is_empty();
    // exact matcher of KF-C05-01: every changed watched key looks the same through GET
    let only_get_invisible = must_abort_watch
        && changed
            .iter()
            .all(|w| get_view(w.at_watch.as_ref()) == get_view(dump_before_end.get(&w.key)));

    if !watched.is_empty() {
        labels.push("with_watch");
        if b_after_watch {
            labels.push("b_write_after_watch");
        }
        if must_abort_watch {
            labels.push("watched_value_changed");
        } else if b_after_watch {
            labels.push("watched_value_same_after_b");
        }
        if watched.iter().any(|w| w.at_watch.as_ref().map(|d| d.ty != "string").unwrap_or(false)) {
            labels.push("watch_non_string");
        }
        if watched.iter().any(|w| w.at_watch.is_none()) {
            labels.push("watch_missing_key");
        }
    }
    if obs.flagged {
        labels.push("queue_time_error");
    }
    labels.push(if sc.exec { "exec" } else { "discard" });
    labels.push(if shards > 1 { "shards:n" } else { "shards:1" });

    let writes = obs.queued.iter().filter(|c| is_write(c)).count();
    let nontrivial = (obs.queued.len() >= 2 && writes >= 1) || (!watched.is_empty() && b_after_watch);

    let unchanged = |why: &str| -> Result<(), String> {
        if dump_after != dump_before_end {
            return Err(format!(
                "{} but the keyspace changed:\n{}",
                why,
                diff_dumps(&dump_before_end, &dump_after)
            ));
        }
        Ok(())
    };

    let finish = |a: Client, bc: Client| {
        drop(a);
        drop(bc);
    };

    let outcome = |watch_get_case: bool, labels: Vec<&'static str>| ConnOutcome {
        nontrivial,
        labels,
        watch_get_case,
    };

    if !sc.exec {
        if end_reply != Reply::ok() {
            return Err(format!("DISCARD answered {}", end_reply.show()));
        }
        unchanged("DISCARD")?;
    } else if obs.flagged {
        // queue-time error => EXECABORT (a failed WATCH at the same time may answer nil)
        let ok = end_reply.error_code().as_deref() == Some("EXECABORT") || (must_abort_watch && is_nil(&end_reply));
        if !ok {
            return Err(format!(
                "a command was rejected at queue time, EXEC must answer EXECABORT; it answered {}",
                end_reply.show()
            ));
        }
        unchanged("EXEC after a queue-time error (EXECABORT)")?;
    } else {
        let applied_check = async {
            // twin: same effects, then the queued commands outside a transaction
            let twin = ShardedActorState::with_shards(shards);
            let mut tb = Client::connect("twin-B", &twin);
            for c in &effects {
                tb.call(c).await?;
            }
            let mut ta = Client::connect("twin-A", &twin);
            let mut expected: Vec<Reply> = Vec::new();
            for c in &obs.queued {
                expected.push(normalise(c, &ta.call(c).await?));
            }
            let twin_dump = dump_state(&twin).await;
            let got = match &end_reply {
                Reply::Array(v) => v,
                other => {
                    return Err(format!(
                        "EXEC answered {} — expected an array with the {} results",
                        other.show(),
                        obs.queued.len()
                    ))
                }
            };
            if got.len() != obs.queued.len() {
                return Err(format!(
                    "EXEC returned {} results for {} queued commands: {}",
                    got.len(),
                    obs.queued.len(),
                    end_reply.show()
                ));
            }
            for (i, (g, e)) in got.iter().zip(expected.iter()).enumerate() {
                let g = normalise(&obs.queued[i], g);
                if g != *e {
                    return Err(format!(
                        "EXEC result #{} for {} is {} but the same command run outside a transaction after the same prefix answers {}\n  queued: {}",
                        i,
                        show_argv(&obs.queued[i]),
                        g.show(),
                        e.show(),
                        obs.queued.iter().map(|c| show_argv(c)).collect::<Vec<_>>().join(" | ")
                    ));
                }
            }
            if dump_after != twin_dump {
                return Err(format!(
                    "keyspace after EXEC differs from running the body sequentially (left: after EXEC, right: sequential twin):\n{}",
                    diff_dumps(&dump_after, &twin_dump)
                ));
            }
            Ok::<(), String>(())
        };
        if must_abort_watch {
            if is_nil(&end_reply) {
                unchanged("EXEC answered nil (WATCH failed)")?;
            } else {
                let detail = changed
                    .iter()
                    .map(|w| {
                        format!(
                            "    watched {:?}: at WATCH {} — at EXEC {}",
                            vcore::show(&w.key),
                            w.at_watch.as_ref().map(|d| format!("[{}] {}", d.ty, d.value.show())).unwrap_or_else(|| "(missing)".into()),
                            dump_before_end.get(&w.key).map(|d| format!("[{}] {}", d.ty, d.value.show())).unwrap_or_else(|| "(missing)".into())
                        )
                    })
                    .collect::<Vec<_>>()
                    .join("\n");
                let msg = format!(
                    "the value of a watched key differs between WATCH and EXEC, EXEC must answer nil and apply nothing; it answered {}\n{}",
                    end_reply.show(),
                    detail
                );
                if only_get_invisible {
                    // KF-C05-01 candidate: check the rest as an applied transaction
                    let rest = applied_check.await.map(|()| outcome(true, labels.clone()));
                    finish(a, bc);
                    let rest = rest.map_err(|e| format!("{}\n  and, taken as an applied transaction: {}", msg, e));
                    return Ok(Verdict::WatchGet(msg, rest));
                }
                return Err(msg);
            }
        } else {
            if is_nil(&end_reply) {
                return Err(format!(
                    "no watched key changed its value between WATCH and EXEC ({} watched), EXEC must apply; it answered {}",
                    watched.len(),
                    end_reply.show()
                ));
            }
            applied_check.await?;
        }
    }

    // ---- tail: the watches are forgotten after EXEC / DISCARD / abort
    if let Some(tk) = sc.tail {
        if let Some(w) = watched.first() {
            labels.push("tail_after_transaction");
            let d = dump_state(&state).await;
            let wk = (0..NKEYS).find(|i| vcore::gen::KEY_POOL[*i] == w.key.as_slice()).unwrap_or(0);
            for c in resolve_b(&BOp::Change(key_idx(wk)), &d) {
                bc.call(&c).await?;
            }
            let tail_key = key_of(tk);
            let ty = dump_state(&state).await.get(&tail_key).map(|k| k.ty.clone());
            let cmd = match ty.as_deref() {
                None | Some("list") => vec![b("RPUSH"), tail_key.clone(), b("tail")],
                _ => vec![b("EXISTS"), tail_key.clone()],
            };
            let before = dump_state(&state).await;
            let r1 = a.call(&argv(&["MULTI"])).await?;
            let r2 = a.call(&cmd).await?;
            let r3 = a.call(&argv(&["EXEC"])).await?;
            if r1 != Reply::ok() || !is_queued(&r2) {
                return Err(format!("second transaction on the same connection: MULTI -> {}, {} -> {}", r1.show(), show_argv(&cmd), r2.show()));
            }
            match &r3 {
                Reply::Array(v) if v.len() == 1 && !v[0].is_error() => {}
                other => {
                    return Err(format!(
                        "after the first transaction ended (EXEC/DISCARD forget all watches) client B changed the previously watched key {:?}; a second MULTI / {} / EXEC without a new WATCH must apply, but EXEC answered {}",
                        vcore::show(&w.key),
                        show_argv(&cmd),
                        other.show()
                    ))
                }
            }
            let after = dump_state(&state).await;
            if cmd[0] == b("RPUSH") && before == after {
                return Err("second transaction's RPUSH was acknowledged but not applied".into());
            }
        }
    }
    finish(a, bc);
    Ok(Verdict::Ok(outcome(false, labels)))
}

fn has_conn_level(sc: &Script) -> bool {
    sc.body.iter().any(|i| match i {
        BodyItem::ConnLevel(a) => !matches!(vcore::gen::cmd_name(a).as_str(), "PING" | "ECHO"),
        _ => false,
    })
}

fn check_conn_script(sc: &Script, ctx: &mut CaseCtx<'_>) -> Result<(), String> {
    if has_conn_level(sc) {
        ctx.label("body_has_connection_level_command");
        // KF-C05-02: excluded by construction while open (the probe covers the class)
        if ctx.tolerate(KF_CONN_LEVEL) {
            return Ok(());
        }
    }
    let _ = vcore::runner::take_last_panic();
    let verdict = vcore::block_on(run_conn_script(sc));
    let out = match verdict {
        Verdict::Ok(o) => o,
        Verdict::Fail(e) => return Err(e),
        Verdict::WatchGet(msg, rest) => {
            // exact matcher satisfied: every watched key whose value changed shows the same
            // GET result at WATCH and at EXEC time (the handler snapshots with GET)
            if ctx.tolerate(KF_WATCH_GET) {
                rest?
            } else {
                return Err(msg);
            }
        }
    };
    if let Some(p) = vcore::runner::take_last_panic() {
        return Err(format!("a server task panicked during the script: {}", p));
    }
    for l in &out.labels {
        ctx.label(l);
    }
    if out.watch_get_case {
        ctx.label("kf01_watch_get_resynced");
    }
    if out.nontrivial {
        ctx.nontrivial(&serde_json::to_string(sc).unwrap_or_default());
    }
    Ok(())
}

// ---------------------------------------------------------------------------------------
// tier 2: executor-level MULTI/EXEC/WATCH
// ---------------------------------------------------------------------------------------

fn ex(e: &mut CommandExecutor, a: &Argv) -> Option<Reply> {
    // a command the parser rejects never reaches the executor
    vcore::resp::parse_zc(a).ok().map(|c| Reply::from_resp(&e.execute(&c)))
}

fn check_exec_script(sc: &Script, ctx: &mut CaseCtx<'_>) -> Result<(), String> {
    let extra: Vec<Vec<u8>> = (0..NKEYS).map(|i| vcore::gen::KEY_POOL[i].to_vec()).collect();
    let mut e = CommandExecutor::new();
    let mut twin = CommandExecutor::new();
    let both = |e: &mut CommandExecutor, twin: &mut CommandExecutor, c: &Argv| {
        let r = ex(e, c);
        let _ = ex(twin, c);
        r
    };
    if sc.seed_types {
        for c in seed_commands() {
            both(&mut e, &mut twin, &c);
        }
    }
    for c in &sc.setup {
        both(&mut e, &mut twin, c);
    }
    // WATCH steps; B's writes are all placed between the last WATCH and MULTI (any command
    // issued while the executor is in MULTI is queued, whoever sent it)
    let mut watched: Vec<WatchRec> = Vec::new();
    for w in &sc.watches {
        match w {
            WatchStep::Watch(ks) => {
                let mut keys: Vec<Vec<u8>> = ks.iter().map(|k| key_of(*k)).collect();
                keys.dedup();
                let mut c = vec![b("WATCH")];
                c.extend(keys.iter().cloned());
                let r = ex(&mut e, &c);
                if r != Some(Reply::ok()) {
                    return Err(format!("{} answered {:?}", show_argv(&c), r.map(|x| x.show())));
                }
                let d = dump_executor(&mut e, &extra);
                for k in keys {
                    watched.push(WatchRec {
                        at_watch: d.get(&k).cloned(),
                        key: k,
                    });
                }
            }
            WatchStep::Unwatch => {
                let r = ex(&mut e, &argv(&["UNWATCH"]));
                if r != Some(Reply::ok()) {
                    return Err(format!("UNWATCH answered {:?}", r.map(|x| x.show())));
                }
                watched.clear();
            }
        }
    }
    let mut b_after_watch = false;
    for act in &sc.b {
        let d = dump_executor(&mut e, &extra);
        for c in resolve_b(&act.op, &d) {
            both(&mut e, &mut twin, &c);
        }
        b_after_watch = !watched.is_empty();
    }
    // the visible keyspace right before MULTI = at EXEC time, provided nothing changes while
    // commands are queued (checked on the executor's public data map after every command:
    // inside MULTI every command, also a read, would be queued)
    let before_end = dump_executor(&mut e, &extra);
    let r = ex(&mut e, &argv(&["MULTI"]));
    if r != Some(Reply::ok()) {
        return Err(format!("MULTI answered {:?}", r.map(|x| x.show())));
    }
    let data_at_multi = e.get_data().clone();
    let mut obs = TxObs {
        queued: Vec::new(),
        flagged: false,
    };
    for item in &sc.body {
        let a = item.argv();
        let Some(r) = ex(&mut e, &a) else { continue };
        match item {
            BodyItem::NestedMulti | BodyItem::WatchInside(_) => {
                if !r.is_error() {
                    return Err(format!("{} inside MULTI answered {} — expected an error reply", show_argv(&a), r.show()));
                }
            }
            _ => {
                if !is_queued(&r) {
                    return Err(format!("{} inside MULTI answered {} — expected +QUEUED", show_argv(&a), r.show()));
                }
                obs.queued.push(a.clone());
            }
        }
        if *e.get_data() != data_at_multi {
            return Err(format!("{} sent inside MULTI (answered {}) changed the executor's data before EXEC", show_argv(&a), r.show()));
        }
    }
    let end = if sc.exec { argv(&["EXEC"]) } else { argv(&["DISCARD"]) };
    let end_reply = ex(&mut e, &end).ok_or("EXEC did not parse")?;
    let after = dump_executor(&mut e, &extra);
    let changed: Vec<&WatchRec> = watched
        .iter()
        .filter(|w| w.at_watch.as_ref() != before_end.get(&w.key))
        .collect();
    ctx.label(if sc.exec { "exec" } else { "discard" });
    if !watched.is_empty() {
        ctx.label("with_watch");
        if !changed.is_empty() {
            ctx.label("watched_value_changed");
        } else if b_after_watch {
            ctx.label("watched_value_same_after_b");
        }
    }
    if !sc.exec {
        if end_reply != Reply::ok() {
            return Err(format!("DISCARD answered {}", end_reply.show()));
        }
        if after != before_end {
            return Err(format!("DISCARD changed the data:\n{}", diff_dumps(&before_end, &after)));
        }
    } else if !changed.is_empty() {
        if !is_nil(&end_reply) {
            return Err(format!(
                "watched key {:?} changed between WATCH and EXEC; EXEC must answer nil, it answered {}",
                vcore::show(&changed[0].key),
                end_reply.show()
            ));
        }
        if after != before_end {
            return Err(format!("EXEC answered nil but the data changed:\n{}", diff_dumps(&before_end, &after)));
        }
    } else {
        if is_nil(&end_reply) {
            return Err(format!(
                "no watched key changed its value ({} watched), EXEC must apply; it answered {}",
                watched.len(),
                end_reply.show()
            ));
        }
        let got = end_reply
            .as_array()
            .ok_or_else(|| format!("EXEC answered {} — expected an array", end_reply.show()))?;
        if got.len() != obs.queued.len() {
            return Err(format!("EXEC returned {} results for {} queued commands", got.len(), obs.queued.len()));
        }
        for (i, c) in obs.queued.iter().enumerate() {
            let expect = ex(&mut twin, c).map(|r| normalise(c, &r));
            let g = normalise(c, &got[i]);
            if Some(&g) != expect.as_ref() {
                return Err(format!(
                    "EXEC result #{} for {} is {} but the same command executed outside a transaction answers {:?}",
                    i,
                    show_argv(c),
                    g.show(),
                    expect.map(|x| x.show())
                ));
            }
        }
        let td = dump_executor(&mut twin, &extra);
        if after != td {
            return Err(format!("data after EXEC differs from the sequential run:\n{}", diff_dumps(&after, &td)));
        }
    }
    // the transaction is over: a following command executes immediately
    let r = ex(&mut e, &argv(&["PING"]));
    if r != Some(Reply::Simple(b"PONG".to_vec())) {
        return Err(format!("PING after the transaction answered {:?}", r.map(|x| x.show())));
    }
    let writes = obs.queued.iter().filter(|c| is_write(c)).count();
    if (obs.queued.len() >= 2 && writes >= 1) || (!watched.is_empty() && b_after_watch) {
        ctx.nontrivial(&serde_json::to_string(sc).unwrap_or_default());
    }
    Ok(())
}

fn main() {
    let args = vcore::parse_args();
    let s = Session::new(
        "C05",
        Level::Exploration,
        "scripts: client A = optional WATCH/UNWATCH steps over 8 keys (string, list, hash, set, zset, missing), MULTI, body of 0-8 items \
         (the data-command grammar incl. run-time failures, unknown commands, wrong arity, nested MULTI, WATCH inside MULTI, PING/ECHO), EXEC or DISCARD, \
         optional second transaction; client B = 0-4 actions (generated writes, change-then-restore, same-value rewrite, certain change, delete) placed before any of A's steps \
         up to EXEC; 1 or 4 shards. Tier 2 runs the same scripts single-client against one CommandExecutor. \
         non-trivial = (>= 2 queued commands with >= 1 write) or (a WATCH with >= 1 B action placed after it); distinct by the whole script",
        &args,
    );
    s.assume("the twin server (fresh state, same shard count) fed the same effective commands and then A's body outside a transaction defines 'executing them consecutively in order'");
    s.assume("keyspace dumps through ordinary read commands sent straight to the shared ShardedActorState (KEYS/TYPE/GET/LRANGE/SMEMBERS/HGETALL/ZRANGE/PTTL) observe the keyspace");
    s.assume("WATCH expectation = full typed value comparison WATCH-time vs EXEC-time (the code documents value comparison, not Redis' dirty flag, as intentional); nil bulk and nil array both count as EXEC's nil");
    s.assume("nested MULTI and WATCH inside MULTI answer an error and leave the transaction open and unflagged (Redis behaviour, documented in the handler)");
    s.assume("no expiry commands, SPOP/RANDOMKEY, SCAN: replies depend on the wall clock or on hash-map order");

    s.probe(
        KF_WATCH_GET,
        json!({"A": ["WATCH k1", "MULTI", "SET k0 x", "EXEC"], "B": "RPUSH k1 c between WATCH and MULTI", "setup": "RPUSH k1 a b"}),
        || {
            let sc = Script {
                shards: 1,
                seed_types: true,
                setup: vec![],
                watches: vec![WatchStep::Watch(vec![key_idx(1)])],
                body: vec![BodyItem::Cmd(argv(&["SET", "k0", "x"]))],
                exec: true,
                b: vec![BAction {
                    at: 0x8000,
                    op: BOp::Write(argv(&["RPUSH", "k1", "c"])),
                }],
                tail: None,
            };
            s.strict_eval(|ctx| check_conn_script(&sc, ctx)).err()
        },
    );
    s.probe(
        KF_CONN_LEVEL,
        json!({"A": ["MULTI", "ACL WHOAMI", "EXEC"]}),
        || {
            let sc = Script {
                shards: 1,
                seed_types: false,
                setup: vec![],
                watches: vec![],
                body: vec![BodyItem::ConnLevel(argv(&["ACL", "WHOAMI"]))],
                exec: true,
                b: vec![],
                tail: None,
            };
            s.strict_eval(|ctx| check_conn_script(&sc, ctx)).err()
        },
    );

    s.describe_check("conn_scripts", "two real connection handlers on one ShardedActorState in lock-step; twin server for the sequential run");
    s.run_cases("conn_scripts", s.scale(40_000, 750_000), || script(false), check_conn_script);
    s.describe_check(
        "conn_level_scripts",
        "the same with connection-level commands (ACL WHOAMI/USERS, AUTH, HELLO) allowed in the body: scripts containing one are excluded (counted) while KF-C05-02 is open",
    );
    s.run_cases("conn_level_scripts", s.scale(2_000, 30_000), || script(true), check_conn_script);
    s.describe_check("exec_scripts", "executor-level MULTI/EXEC/WATCH on one CommandExecutor; twin executor for the sequential run");
    s.run_cases("exec_scripts", s.scale(60_000, 1_000_000), || script(false), check_exec_script);
    s.finish();
}

fn key_idx(i: usize) -> u16 {
    (((i << 16) / NKEYS) + 1) as u16
}
