//! C05 — MULTI/EXEC is all-or-nothing and equals the sequential run; WATCH aborts on change.
//!
//! Tier 1 (`conn_scripts`): the production connection-level state machine
//! (`OptimizedConnectionHandler`, hook `verif_hooks::run_connection`). Client A runs a
//! generated transaction script, client B's writes are placed by the generator between A's
//! commands; both are real handlers sharing one `ShardedActorState`, driven in lock-step over
//! `tokio::io::duplex` (send one command, read exactly one reply with the strict decoder).
//! Oracle: a twin server running the same prefix and then A's body *outside* a transaction
//! (expected EXEC array and final keyspace), keyspace dumps around every queued command, and a
//! WATCH expectation computed from full typed value dumps at WATCH time and at EXEC time.
//!
//! Tier 2 (`exec_scripts`): the executor-level MULTI/EXEC/WATCH of one `CommandExecutor`
//! (`src/redis/executor/transaction_ops.rs`), same scripts single-client.

use proptest::prelude::*;
use proptest::strategy::BoxedStrategy;
use redis_sim::production::{verif_hooks, ConnectionConfig, ShardedActorState};
use redis_sim::redis::CommandExecutor;
use serde::{Deserialize, Serialize};
use serde_json::json;
use std::pin::Pin;
use std::task::Poll;
use tokio::io::{AsyncRead, AsyncWriteExt, DuplexStream, ReadBuf};
use vcore::dump::{dump_async, dump_executor, Dump, KeyDump};
use vcore::gen::GenOpts;
use vcore::resp::{decode_reply, show_argv, Argv, DecodeError, Reply};
use vcore::{CaseCtx, Level, Session};

const KF_WATCH_GET: &str = "KF-C05-01";
const KF_CONN_LEVEL: &str = "KF-C05-02";
const KF_REARM: &str = "KF-C05-03";

/// scheduler turns a handler gets to answer one command (a command causes a handful of
/// messages between the handler and the shard actors; nothing waits for time or real I/O)
const REPLY_TURNS: usize = 20_000;

fn b(s: &str) -> Vec<u8> {
    s.as_bytes().to_vec()
}

fn argv(parts: &[&str]) -> Argv {
    parts.iter().map(|s| s.as_bytes().to_vec()).collect()
}

// ---------------------------------------------------------------------------------------
// script
// ---------------------------------------------------------------------------------------

/// Keys A may watch and B may touch: the first 8 keys of the shared pool (spread over shards,
/// one with a space, one tagged pair) — some exist with each of the five types, some are
/// missing, depending on the generated setup.
const NKEYS: usize = 8;

fn key_of(i: u16) -> Vec<u8> {
    vcore::gen::KEY_POOL[(i as usize * NKEYS) >> 16].to_vec()
}

#[derive(Clone, Debug, Serialize, Deserialize)]
enum BodyItem {
    /// a syntactically valid data command (may fail at run time: WRONGTYPE, overflow, …)
    Cmd(Argv),
    /// unknown command name
    Unknown(Argv),
    /// known command, wrong number of arguments
    WrongArity(Argv),
    NestedMulti,
    WatchInside(u16),
    /// UNWATCH inside the body (queued like any command; must not touch the WATCH decision)
    Unwatch,
    /// DISCARD in the middle of the body: the transaction ends, what follows runs immediately
    Discard,
    /// EXEC in the middle of the body: what follows runs immediately, the final EXEC/DISCARD
    /// is then "without MULTI"
    Exec,
    /// commands the connection answers itself outside a transaction (PING is served by the
    /// shard path as well; ACL WHOAMI / HELLO / AUTH are connection-level)
    ConnLevel(Argv),
}

impl BodyItem {
    fn argv(&self) -> Argv {
        match self {
            BodyItem::Cmd(a) | BodyItem::Unknown(a) | BodyItem::WrongArity(a) | BodyItem::ConnLevel(a) => a.clone(),
            BodyItem::NestedMulti => argv(&["MULTI"]),
            BodyItem::WatchInside(k) => vec![b("WATCH"), key_of(*k)],
            BodyItem::Unwatch => argv(&["UNWATCH"]),
            BodyItem::Discard => argv(&["DISCARD"]),
            BodyItem::Exec => argv(&["EXEC"]),
        }
    }
}

#[derive(Clone, Debug, Serialize, Deserialize)]
enum WatchStep {
    Watch(Vec<u16>),
    Unwatch,
}

#[derive(Clone, Debug, Serialize, Deserialize)]
enum BOp {
    /// a generated write command
    Write(Argv),
    /// change the key's value, then restore exactly the previous value (type-specific)
    Touch(u16),
    /// rewrite the current value with itself (SET k <same>, SADD existing member, …)
    Rewrite(u16),
    /// a change that certainly alters the value whatever the type (or creates the key)
    Change(u16),
    /// delete the key
    Del(u16),
    /// take back what `Change` did (drop the trailing "!" / the fresh member; delete a key that
    /// holds exactly "!"): Change … Undo brings a key back to an earlier value (A -> B -> A)
    Undo(u16),
    /// a change that keeps every coarse abstraction of the value (type, number of elements, the
    /// multiset of all strings it contains, total length) and alters only the arrangement: two
    /// hash fields swap their values (or the single field and its value change places), two
    /// sorted-set members swap their scores, a list is reversed, a string is reversed (or one
    /// byte of it replaced). A WATCH snapshot that compares anything less than the value itself
    /// (a sorted flat list, a length, a digest of the members) does not see it.
    Permute(u16),
}

#[derive(Clone, Debug, Serialize, Deserialize)]
struct BAction {
    /// fraction selecting the position "before A's step #j", j in 0..=last step (never after EXEC)
    at: u16,
    op: BOp,
}

#[derive(Clone, Debug, Serialize, Deserialize)]
struct Script {
    shards: u8,
    /// seed one key of each of the five types before anything else
    seed_types: bool,
    setup: Vec<Argv>,
    watches: Vec<WatchStep>,
    body: Vec<BodyItem>,
    /// EXEC (true) or DISCARD (false)
    exec: bool,
    b: Vec<BAction>,
    /// after the transaction: B changes a key A had watched, then A runs MULTI / RPUSH / EXEC,
    /// which must apply (EXEC, DISCARD and aborts forget the watches)
    tail: Option<u16>,
}

fn body_opts() -> GenOpts {
    GenOpts {
        binary_names: false,
        flush: true,
        scan: false,
        random: false, // SPOP/RANDOMKEY choose by hash-map order: the twin may choose differently
        two_key: true,
        multi_key: true,
        keys_cmd: true,
        expiry: false, // replies and TTLs depend on the wall clock (ProductionTimeSource)
        floats: true,
        key_pool: NKEYS,
    }
}

fn tame(mut a: Argv) -> Argv {
    let name = vcore::gen::cmd_name(&a);
    if (name == "SETRANGE" || name == "SETBIT" || name == "GETBIT") && a.len() >= 3 {
        if let Ok(n) = String::from_utf8_lossy(&a[2]).parse::<u64>() {
            if n > 4096 {
                a[2] = b("77");
            }
        }
    }
    a
}

fn is_write(a: &Argv) -> bool {
    !matches!(
        vcore::gen::cmd_name(a).as_str(),
        "GET" | "STRLEN" | "GETRANGE" | "GETBIT" | "MGET" | "EXISTS" | "TYPE" | "DBSIZE" | "KEYS" | "LLEN" | "LINDEX"
            | "LRANGE" | "SMEMBERS" | "SISMEMBER" | "SCARD" | "HGET" | "HGETALL" | "HKEYS" | "HVALS" | "HLEN"
            | "HEXISTS" | "ZRANGE" | "ZREVRANGE" | "ZSCORE" | "ZRANK" | "ZCARD" | "ZCOUNT" | "ZRANGEBYSCORE" | "PING"
            | "ECHO" | "TTL" | "PTTL"
    )
}

fn data_cmd() -> BoxedStrategy<Argv> {
    vcore::gen::data_command(&body_opts()).prop_map(tame).boxed()
}

fn write_cmd() -> BoxedStrategy<Argv> {
    // writes only, by construction: pick from the grammar's write commands
    let k = || any::<u16>().prop_map(key_of);
    let v = vcore::gen::value;
    let m = || vcore::gen::member(&body_opts());
    prop_oneof![
        4 => (k(), v()).prop_map(|(k, v)| vec![b("SET"), k, v]),
        2 => (k(), v()).prop_map(|(k, v)| vec![b("APPEND"), k, v]),
        2 => k().prop_map(|k| vec![b("INCR"), k]),
        2 => k().prop_map(|k| vec![b("DEL"), k]),
        2 => (k(), v()).prop_map(|(k, v)| vec![b("RPUSH"), k, v]),
        1 => k().prop_map(|k| vec![b("LPOP"), k]),
        2 => (k(), m()).prop_map(|(k, m)| vec![b("SADD"), k, m]),
        1 => (k(), m()).prop_map(|(k, m)| vec![b("SREM"), k, m]),
        2 => (k(), m(), v()).prop_map(|(k, f, v)| vec![b("HSET"), k, f, v]),
        1 => (k(), m()).prop_map(|(k, f)| vec![b("HDEL"), k, f]),
        2 => (k(), vcore::gen::score_arg(), m()).prop_map(|(k, s, m)| vec![b("ZADD"), k, s, m]),
        1 => (k(), m()).prop_map(|(k, m)| vec![b("ZREM"), k, m]),
        1 => (k(), k()).prop_map(|(a, c)| vec![b("RENAME"), a, c]),
        3 => data_cmd(),
    ]
    .boxed()
}

fn body_item(conn_level: bool) -> BoxedStrategy<BodyItem> {
    let mut alts: Vec<(u32, BoxedStrategy<BodyItem>)> = vec![
        (30, data_cmd().prop_map(BodyItem::Cmd).boxed()),
        (14, write_cmd().prop_map(BodyItem::Cmd).boxed()),
        (
            1,
            prop_oneof![
                Just(vec![b("NOSUCHCMD"), b("x")]),
                Just(vec![b("GETT"), b("k0")]),
                Just(vec![b("FOO\r\nBAR")]),
            ]
            .prop_map(BodyItem::Unknown)
            .boxed(),
        ),
        (
            1,
            prop_oneof![
                Just(vec![b("GET")]),
                Just(vec![b("SET"), b("k0")]),
                Just(vec![b("INCR")]),
                Just(vec![b("HSET"), b("k2"), b("f")]),
                Just(vec![b("RENAME"), b("k0")]),
            ]
            .prop_map(BodyItem::WrongArity)
            .boxed(),
        ),
        (2, Just(BodyItem::NestedMulti).boxed()),
        (2, any::<u16>().prop_map(BodyItem::WatchInside).boxed()),
        (2, Just(BodyItem::Unwatch).boxed()),
        (1, Just(BodyItem::Discard).boxed()),
        (1, Just(BodyItem::Exec).boxed()),
        (
            2,
            prop_oneof![Just(vec![b("PING")]), Just(vec![b("ECHO"), b("hi")]), Just(vec![b("PING"), b("x")])]
                .prop_map(BodyItem::ConnLevel)
                .boxed(),
        ),
    ];
    if conn_level {
        alts.push((
            2,
            prop_oneof![
                Just(vec![b("ACL"), b("WHOAMI")]),
                Just(vec![b("HELLO")]),
                Just(vec![b("AUTH"), b("default"), b("nopass")]),
                Just(vec![b("ACL"), b("USERS")]),
            ]
            .prop_map(BodyItem::ConnLevel)
            .boxed(),
        ));
    }
    proptest::strategy::Union::new_weighted(alts).boxed()
}

fn b_action() -> BoxedStrategy<BAction> {
    (
        any::<u16>(),
        prop_oneof![
            4 => write_cmd().prop_map(BOp::Write),
            3 => any::<u16>().prop_map(BOp::Touch),
            2 => any::<u16>().prop_map(BOp::Rewrite),
            4 => any::<u16>().prop_map(BOp::Change),
            1 => any::<u16>().prop_map(BOp::Del),
            2 => any::<u16>().prop_map(BOp::Undo),
            3 => any::<u16>().prop_map(BOp::Permute),
        ],
    )
        .prop_map(|(at, op)| BAction { at, op })
        .boxed()
}

fn script(conn_level: bool) -> BoxedStrategy<Script> {
    (
        prop_oneof![1 => Just(1u8), 1 => Just(4u8)],
        prop_oneof![3 => Just(true), 1 => Just(false)],
        proptest::collection::vec(write_cmd(), 0..6),
        proptest::collection::vec(
            prop_oneof![
                8 => proptest::collection::vec(any::<u16>(), 1..4).prop_map(WatchStep::Watch),
                1 => Just(WatchStep::Unwatch),
            ],
            0..3,
        ),
        proptest::collection::vec(body_item(conn_level), 0..9),
        prop_oneof![5 => Just(true), 1 => Just(false)],
        proptest::collection::vec(b_action(), 0..5),
        prop_oneof![2 => Just(None), 1 => any::<u16>().prop_map(Some)],
        // hot-key mode (1 in 4): every WATCH and every dynamic B operation aims at ONE key, so that
        // repeated WATCHes of a key that B changes and changes back between them are common
        prop_oneof![3 => Just(None), 1 => any::<u16>().prop_map(Some)],
    )
        .prop_map(|(shards, seed_types, setup, mut watches, body, exec, mut b, tail, hot)| {
            if let Some(h) = hot {
                for w in watches.iter_mut() {
                    if let WatchStep::Watch(ks) = w {
                        for k in ks.iter_mut() {
                            *k = h;
                        }
                        ks.truncate(1);
                    }
                }
                for a in b.iter_mut() {
                    match &mut a.op {
                        BOp::Touch(k) | BOp::Rewrite(k) | BOp::Change(k) | BOp::Del(k) | BOp::Undo(k) | BOp::Permute(k) => *k = h,
                        BOp::Write(_) => {}
                    }
                }
            }
            Script {
                shards,
                seed_types,
                setup,
                watches,
                body,
                exec,
                b,
                tail,
            }
        })
        .boxed()
}

fn seed_commands() -> Vec<Argv> {
    vec![
        argv(&["SET", "k0", "10"]),
        argv(&["RPUSH", "k1", "a", "b"]),
        argv(&["HSET", "k2", "f", "v"]),
        argv(&["SADD", "k3", "a", "b"]),
        argv(&["ZADD", "{t}a", "1", "a", "2", "b"]),
    ]
}

// ---------------------------------------------------------------------------------------
// reply normalisation (hash-map order differs between two server instances)
// ---------------------------------------------------------------------------------------

fn normalise(cmd: &Argv, r: &Reply) -> Reply {
    match vcore::gen::cmd_name(cmd).as_str() {
        "KEYS" | "SMEMBERS" | "HKEYS" | "HVALS" => r.sorted(),
        "HGETALL" => r.sorted_pairs(),
        _ => r.clone(),
    }
}

// ---------------------------------------------------------------------------------------
// lock-step client over tokio::io::duplex
// ---------------------------------------------------------------------------------------

struct Client {
    name: &'static str,
    io: DuplexStream,
    buf: Vec<u8>,
    handler: tokio::task::JoinHandle<()>,
}

impl Client {
    fn connect(name: &'static str, state: &ShardedActorState) -> Client {
        let (client, server) = tokio::io::duplex(1 << 16);
        let handler = tokio::spawn(verif_hooks::run_connection(server, state.clone(), ConnectionConfig::default()));
        Client {
            name,
            io: client,
            buf: Vec::new(),
            handler,
        }
    }

    /// Send one command, read exactly one reply. Err = the handler did not produce a
    /// well-formed reply (closed the connection, panicked, wrote garbage, stayed silent).
    async fn call(&mut self, cmd: &Argv) -> Result<Reply, String> {
        let what_s = format!("client {} sent {}", self.name, show_argv(cmd));
        let what = || what_s.clone();
        if !self.buf.is_empty() {
            return Err(format!("{}: {} unsolicited bytes were pending: {:?}", what(), self.buf.len(), vcore::show(&self.buf)));
        }
        self.io
            .write_all(&vcore::resp::encode_command(cmd))
            .await
            .map_err(|e| format!("{}: write failed: {}", what(), e))?;
        let mut turns = 0usize;
        loop {
            match decode_reply(&self.buf) {
                Ok((r, n)) => {
                    self.buf.drain(..n);
                    // one more turn: anything the handler writes beyond one reply is a defect
                    tokio::task::yield_now().await;
                    match self.poll_some().await? {
                        Some(0) => return Err(format!("{}: the server closed the connection after replying {}", what(), r.show())),
                        Some(_) => return Err(format!("{}: more than one reply: extra bytes {:?}", what(), vcore::show(&self.buf))),
                        None => {}
                    }
                    return Ok(r);
                }
                Err(DecodeError::Incomplete) => {}
                Err(DecodeError::Malformed(m)) => {
                    return Err(format!("{}: reply is not well-formed RESP ({}): {:?}", what(), m, vcore::show(&self.buf)))
                }
            }
            match self.poll_some().await? {
                Some(0) => {
                    let p = vcore::runner::take_last_panic();
                    return Err(match p {
                        Some(p) => format!("{}: the connection handler panicked: {}", what(), p),
                        None => format!("{}: the server closed the connection without a reply", what()),
                    });
                }
                Some(_) => {}
                None => {
                    turns += 1;
                    if turns > REPLY_TURNS {
                        return Err(format!(
                            "{}: no reply after {} scheduler turns (handler finished: {}) — the client would wait forever",
                            what(),
                            turns,
                            self.handler.is_finished()
                        ));
                    }
                    tokio::task::yield_now().await;
                }
            }
        }
    }

    /// One non-blocking read: Some(n) bytes appended (0 = EOF), None = nothing available now.
    async fn poll_some(&mut self) -> Result<Option<usize>, String> {
        let mut tmp = [0u8; 8192];
        let io = &mut self.io;
        let r = std::future::poll_fn(|cx| {
            let mut rb = ReadBuf::new(&mut tmp);
            match Pin::new(&mut *io).poll_read(cx, &mut rb) {
                Poll::Ready(Ok(())) => Poll::Ready(Ok(Some(rb.filled().len()))),
                Poll::Ready(Err(e)) => Poll::Ready(Err(e.to_string())),
                Poll::Pending => Poll::Ready(Ok(None)),
            }
        })
        .await?;
        if let Some(n) = r {
            self.buf.extend_from_slice(&tmp[..n]);
        }
        Ok(r)
    }
}

async fn direct(state: &ShardedActorState, a: Argv) -> Reply {
    match vcore::resp::parse_zc(&a) {
        Ok(cmd) => Reply::from_resp(&state.execute(&cmd).await),
        Err(e) => Reply::Error(e.into_bytes()),
    }
}

/// Side channel: the visible keyspace through ordinary read commands sent straight to the
/// shared state (not through any connection).
async fn dump_state(state: &ShardedActorState) -> Dump {
    let extra: Vec<Vec<u8>> = (0..NKEYS).map(|i| vcore::gen::KEY_POOL[i].to_vec()).collect();
    dump_async(|a| direct(state, a), &extra).await
}

// ---------------------------------------------------------------------------------------
// B's dynamic operations, resolved to concrete commands from the current dump
// ---------------------------------------------------------------------------------------

fn first_elems(v: &Reply) -> Vec<Vec<u8>> {
    v.as_array()
        .map(|a| a.iter().filter_map(|e| e.as_bulk().map(|x| x.to_vec())).collect())
        .unwrap_or_default()
}

fn resolve_b(op: &BOp, d: &Dump) -> Vec<Argv> {
    let fresh = b("zz-fresh-member");
    match op {
        BOp::Write(a) => vec![a.clone()],
        BOp::Del(k) => vec![vec![b("DEL"), key_of(*k)]],
        BOp::Change(k) => {
            let key = key_of(*k);
            match d.get(&key).map(|kd| kd.ty.as_str()) {
                None | Some("string") => vec![vec![b("APPEND"), key, b("!")]],
                Some("list") => vec![vec![b("RPUSH"), key, b("!")]],
                Some("set") => vec![vec![b("SADD"), key, fresh]],
                Some("hash") => vec![vec![b("HSET"), key, fresh, b("1")]],
                _ => vec![vec![b("ZADD"), key, b("99"), fresh]],
            }
        }
        BOp::Undo(k) => {
            let key = key_of(*k);
            match d.get(&key) {
                None => vec![vec![b("EXISTS"), key]],
                Some(kd) => match kd.ty.as_str() {
                    "string" => {
                        let cur = kd.value.as_bulk().unwrap_or(b"").to_vec();
                        if cur == b"!" {
                            vec![vec![b("DEL"), key]]
                        } else if cur.last() == Some(&b'!') {
                            vec![vec![b("SET"), key, cur[..cur.len() - 1].to_vec()]]
                        } else {
                            vec![vec![b("EXISTS"), key]]
                        }
                    }
                    "list" => {
                        if first_elems(&kd.value).last().map(|e| e.as_slice() == b"!").unwrap_or(false) {
                            vec![vec![b("RPOP"), key]]
                        } else {
                            vec![vec![b("EXISTS"), key]]
                        }
                    }
                    "set" => vec![vec![b("SREM"), key, fresh]],
                    "hash" => vec![vec![b("HDEL"), key, fresh]],
                    _ => vec![vec![b("ZREM"), key, fresh]],
                },
            }
        }
        BOp::Permute(k) => {
            let key = key_of(*k);
            let other_byte = |x: u8| if x == b'a' { b'b' } else { b'a' };
            match d.get(&key) {
                None => vec![vec![b("EXISTS"), key]],
                Some(kd) => {
                    let el = first_elems(&kd.value);
                    match kd.ty.as_str() {
                        "string" => {
                            let cur = kd.value.as_bulk().unwrap_or(b"").to_vec();
                            let mut rev = cur.clone();
                            rev.reverse();
                            if rev != cur {
                                vec![vec![b("SET"), key, rev]]
                            } else if let Some(last) = cur.last().copied() {
                                let mut v = cur.clone();
                                *v.last_mut().expect("non-empty") = other_byte(last);
                                vec![vec![b("SET"), key, v]]
                            } else {
                                vec![vec![b("EXISTS"), key]]
                            }
                        }
                        "list" => {
                            let mut rev = el.clone();
                            rev.reverse();
                            if rev != el {
                                let mut push = vec![b("RPUSH"), key.clone()];
                                push.extend(rev);
                                vec![vec![b("DEL"), key], push]
                            } else {
                                vec![vec![b("EXISTS"), key]]
                            }
                        }
                        "hash" if el.len() >= 4 && el[1] != el[3] => vec![vec![
                            b("HSET"),
                            key,
                            el[0].clone(),
                            el[3].clone(),
                            el[2].clone(),
                            el[1].clone(),
                        ]],
                        "hash" if el.len() >= 2 && el[0] != el[1] => vec![
                            vec![b("HDEL"), key.clone(), el[0].clone()],
                            vec![b("HSET"), key, el[1].clone(), el[0].clone()],
                        ],
                        "zset" if el.len() >= 4 && el[1] != el[3] => vec![vec![
                            b("ZADD"),
                            key,
                            el[3].clone(),
                            el[0].clone(),
                            el[1].clone(),
                            el[2].clone(),
                        ]],
                        _ => vec![vec![b("EXISTS"), key]],
                    }
                }
            }
        }
        BOp::Touch(k) => {
            let key = key_of(*k);
            match d.get(&key) {
                None => vec![vec![b("SET"), key.clone(), b("tmp")], vec![b("DEL"), key]],
                Some(kd) => match kd.ty.as_str() {
                    "string" => {
                        let old = kd.value.as_bulk().unwrap_or(b"").to_vec();
                        vec![vec![b("SET"), key.clone(), b("tmp-other-value")], vec![b("SET"), key, old]]
                    }
                    "list" => vec![vec![b("RPUSH"), key.clone(), b("tmp")], vec![b("RPOP"), key]],
                    "set" => vec![vec![b("SADD"), key.clone(), fresh.clone()], vec![b("SREM"), key, fresh]],
                    "hash" => vec![vec![b("HSET"), key.clone(), fresh.clone(), b("1")], vec![b("HDEL"), key, fresh]],
                    _ => vec![vec![b("ZADD"), key.clone(), b("99"), fresh.clone()], vec![b("ZREM"), key, fresh]],
                },
            }
        }
        BOp::Rewrite(k) => {
            let key = key_of(*k);
            match d.get(&key) {
                None => vec![vec![b("DEL"), key]],
                Some(kd) => {
                    let el = first_elems(&kd.value);
                    match kd.ty.as_str() {
                        "string" => vec![vec![b("SET"), key, kd.value.as_bulk().unwrap_or(b"").to_vec()]],
                        "list" if !el.is_empty() => vec![vec![b("LSET"), key, b("0"), el[0].clone()]],
                        "set" if !el.is_empty() => vec![vec![b("SADD"), key, el[0].clone()]],
                        "hash" if el.len() >= 2 => vec![vec![b("HSET"), key, el[0].clone(), el[1].clone()]],
                        "zset" if el.len() >= 2 => vec![vec![b("ZADD"), key, el[1].clone(), el[0].clone()]],
                        _ => vec![vec![b("EXISTS"), key]],
                    }
                }
            }
        }
    }
}

// ---------------------------------------------------------------------------------------
// the oracle pieces shared by both tiers
// ---------------------------------------------------------------------------------------

/// What GET shows for a key: the connection's WATCH snapshot (finding KF-C05-01).
fn get_view(k: Option<&KeyDump>) -> Reply {
    match k {
        None => Reply::Nil,
        Some(kd) if kd.ty == "string" => kd.value.clone(),
        Some(_) => Reply::Error(b"WRONGTYPE".to_vec()),
    }
}

#[derive(Debug)]
struct WatchRec {
    key: Vec<u8>,
    at_watch: Option<KeyDump>,
}

fn diff_dumps(a: &Dump, b_: &Dump) -> String {
    let mut s = String::new();
    let keys: std::collections::BTreeSet<&Vec<u8>> = a.keys().chain(b_.keys()).collect();
    for k in keys {
        if a.get(k) != b_.get(k) {
            s.push_str(&format!(
                "    key {:?}: {} vs {}\n",
                vcore::show(k),
                a.get(k).map(|d| format!("[{}] {}", d.ty, d.value.show())).unwrap_or_else(|| "(missing)".into()),
                b_.get(k).map(|d| format!("[{}] {}", d.ty, d.value.show())).unwrap_or_else(|| "(missing)".into()),
            ));
        }
    }
    s
}

fn is_nil(r: &Reply) -> bool {
    matches!(r, Reply::Nil | Reply::NilArray)
}

fn is_queued(r: &Reply) -> bool {
    *r == Reply::Simple(b"QUEUED".to_vec())
}

/// Check one queue-time reply; update the observation.
fn on_queue_reply(item: &BodyItem, r: &Reply, obs: &mut TxObsMut<'_>) -> Result<(), String> {
    let obs = &mut *obs.0;
    let a = item.argv();
    match item {
        BodyItem::NestedMulti | BodyItem::WatchInside(_) | BodyItem::Discard | BodyItem::Exec => {
            if !r.is_error() {
                return Err(format!("{} inside MULTI answered {} — expected an error reply", show_argv(&a), r.show()));
            }
        }
        BodyItem::Cmd(_) | BodyItem::Unwatch => {
            // the grammar also produces option combinations the parser rejects (SET … NX XX):
            // those are queue-time errors; what the production parser accepts must be queued
            let parses = vcore::resp::parse_zc(&a).is_ok();
            if parses {
                if !is_queued(r) {
                    return Err(format!(
                        "valid command {} inside MULTI answered {} — expected +QUEUED (no result before EXEC)",
                        show_argv(&a),
                        r.show()
                    ));
                }
                obs.queued.push(a);
            } else if r.is_error() {
                obs.flagged = true;
            } else {
                return Err(format!(
                    "{} (rejected by the command parser) inside MULTI answered {} — expected an error reply",
                    show_argv(&a),
                    r.show()
                ));
            }
        }
        BodyItem::Unknown(_) | BodyItem::WrongArity(_) | BodyItem::ConnLevel(_) => {
            if is_queued(r) {
                obs.queued.push(a);
            } else if r.is_error() {
                obs.flagged = true;
            } else {
                return Err(format!(
                    "{} inside MULTI answered {} — neither +QUEUED nor an error (a result before EXEC)",
                    show_argv(&a),
                    r.show()
                ));
            }
        }
    }
    Ok(())
}

// ---------------------------------------------------------------------------------------
// the transaction model shared by both tiers
// ---------------------------------------------------------------------------------------

/// A's program: the generated watch steps, MULTI, the body, EXEC/DISCARD — flattened. Every
/// transaction-control command may also occur inside the body.
#[derive(Clone, Debug)]
enum Step {
    Watch(Vec<Vec<u8>>),
    Unwatch,
    Multi,
    Discard,
    Exec,
    Other(BodyItem),
}

impl Step {
    fn argv(&self) -> Argv {
        match self {
            Step::Watch(keys) => {
                let mut c = vec![b("WATCH")];
                c.extend(keys.iter().cloned());
                c
            }
            Step::Unwatch => argv(&["UNWATCH"]),
            Step::Multi => argv(&["MULTI"]),
            Step::Discard => argv(&["DISCARD"]),
            Step::Exec => argv(&["EXEC"]),
            Step::Other(i) => i.argv(),
        }
    }
}

fn program(sc: &Script) -> (Vec<Step>, usize) {
    let mut steps = Vec::new();
    for w in &sc.watches {
        match w {
            WatchStep::Watch(ks) => {
                let mut keys: Vec<Vec<u8>> = ks.iter().map(|k| key_of(*k)).collect();
                keys.dedup();
                steps.push(Step::Watch(keys));
            }
            WatchStep::Unwatch => steps.push(Step::Unwatch),
        }
    }
    let multi_at = steps.len();
    steps.push(Step::Multi);
    for item in &sc.body {
        steps.push(match item {
            BodyItem::NestedMulti => Step::Multi,
            BodyItem::WatchInside(k) => Step::Watch(vec![key_of(*k)]),
            BodyItem::Unwatch => Step::Unwatch,
            BodyItem::Discard => Step::Discard,
            BodyItem::Exec => Step::Exec,
            other => Step::Other(other.clone()),
        });
    }
    steps.push(if sc.exec { Step::Exec } else { Step::Discard });
    (steps, multi_at)
}

/// What the harness knows about A's connection: exactly the state the property talks about.
#[derive(Default)]
struct Model {
    in_multi: bool,
    /// commands answered +QUEUED since MULTI
    queued: Vec<Argv>,
    /// a command was rejected at queue time since MULTI
    flagged: bool,
    /// (key, value at WATCH time) for every WATCH since the last EXEC/DISCARD/UNWATCH
    watched: Vec<WatchRec>,
    b_after_watch: bool,
    first_watched: Option<Vec<u8>>,
    labels: Vec<&'static str>,
    nontrivial: bool,
    /// message of a KF-C05-01 candidate (EXEC applied although only GET-invisible changes
    /// happened to watched keys); the caller decides whether it is tolerated
    watch_get: Option<String>,
    /// message of a KF-C05-03 candidate (executor tier: repeated WATCH re-armed the key)
    rearm: Option<String>,
}

impl Model {
    fn label(&mut self, l: &'static str) {
        if !self.labels.contains(&l) {
            self.labels.push(l);
        }
    }
    fn end_transaction(&mut self) {
        let writes = self.queued.iter().filter(|c| is_write(c)).count();
        if (self.queued.len() >= 2 && writes >= 1) || (!self.watched.is_empty() && self.b_after_watch) {
            self.nontrivial = true;
        }
        self.in_multi = false;
        self.queued.clear();
        self.flagged = false;
        self.watched.clear();
        self.b_after_watch = false;
    }
}

enum WatchExpect {
    MustApply,
    MustAbort {
        /// every changed watched key shows the same GET result at both times (KF-C05-01)
        only_get_invisible: bool,
        /// every key with a differing snapshot was watched again later and equals its
        /// latest snapshot (KF-C05-03: a repeated WATCH re-arms the key)
        rearmed_only: bool,
        detail: String,
    },
}

/// WATCH expectation from full typed values: a key is watched from its FIRST WATCH until
/// EXEC/DISCARD/UNWATCH (naming it again is a no-op in Redis), so every snapshot taken by a
/// WATCH that named the key must still equal the value at EXEC time.
fn watch_expectation(watched: &[WatchRec], now: &Dump) -> WatchExpect {
    let differing: Vec<&WatchRec> = watched.iter().filter(|w| w.at_watch.as_ref() != now.get(&w.key)).collect();
    if differing.is_empty() {
        return WatchExpect::MustApply;
    }
    let only_get_invisible = differing
        .iter()
        .all(|w| get_view(w.at_watch.as_ref()) == get_view(now.get(&w.key)));
    let rearmed_only = differing.iter().all(|w| {
        watched
            .iter()
            .rev()
            .find(|l| l.key == w.key)
            .map(|latest| latest.at_watch.as_ref() == now.get(&w.key))
            .unwrap_or(false)
    });
    let detail = differing
        .iter()
        .map(|w| {
            format!(
                "    watched {:?}: at WATCH {} — at EXEC {}",
                vcore::show(&w.key),
                w.at_watch.as_ref().map(|d| format!("[{}] {}", d.ty, d.value.show())).unwrap_or_else(|| "(missing)".into()),
                now.get(&w.key).map(|d| format!("[{}] {}", d.ty, d.value.show())).unwrap_or_else(|| "(missing)".into())
            )
        })
        .collect::<Vec<_>>()
        .join("\n");
    WatchExpect::MustAbort {
        only_get_invisible,
        rearmed_only,
        detail,
    }
}

/// Decide an EXEC reply inside MULTI. Ok(true) = the queue must have been applied.
fn judge_exec(m: &mut Model, reply: &Reply, now: &Dump, executor_tier: bool) -> Result<bool, String> {
    let expect = watch_expectation(&m.watched, now);
    if !m.watched.is_empty() {
        m.label("with_watch");
        if m.b_after_watch {
            m.label("b_write_after_watch");
        }
        match &expect {
            WatchExpect::MustAbort { .. } => m.label("watched_value_changed"),
            WatchExpect::MustApply => {
                if m.b_after_watch {
                    m.label("watched_value_same_after_b")
                }
            }
        }
        if m.watched.iter().any(|w| w.at_watch.as_ref().map(|d| d.ty != "string").unwrap_or(false)) {
            m.label("watch_non_string");
        }
        // the value differs from the snapshot only in arrangement: same type, same multiset of strings
        let flat = |d: &KeyDump| {
            let mut v: Vec<Vec<u8>> = match d.value.as_bulk() {
                Some(x) => x.iter().map(|c| vec![*c]).collect(),
                None => first_elems(&d.value),
            };
            v.sort();
            v
        };
        if m.watched.iter().any(|w| match (w.at_watch.as_ref(), now.get(&w.key)) {
            (Some(x), Some(y)) => x != y && x.ty == y.ty && x.ty != "string" && flat(x) == flat(y),
            _ => false,
        }) {
            m.label("watched_value_rearranged_same_strings");
        }
        if m.watched.iter().any(|w| match (w.at_watch.as_ref(), now.get(&w.key)) {
            (Some(x), Some(y)) => x != y && x.ty == "string" && y.ty == "string" && flat(x) == flat(y),
            _ => false,
        }) {
            m.label("watched_string_rearranged_same_bytes");
        }
        if m.watched.iter().any(|w| w.at_watch.is_none()) {
            m.label("watch_missing_key");
        }
        // a key named by two WATCHes whose snapshots differ, first snapshot = value at EXEC (A -> B -> A)
        let aba = m.watched.iter().enumerate().any(|(i, w)| {
            w.at_watch.as_ref() == now.get(&w.key)
                && m.watched[i + 1..].iter().any(|l| l.key == w.key && l.at_watch != w.at_watch)
        });
        if aba {
            m.label("rewatch_changed_and_back");
        }
        if m.watched.iter().enumerate().any(|(i, w)| m.watched[i + 1..].iter().any(|l| l.key == w.key)) {
            m.label("rewatch_same_key");
        }
    }
    if m.flagged {
        m.label("queue_time_error");
        let may_nil = !matches!(expect, WatchExpect::MustApply);
        if reply.error_code().as_deref() == Some("EXECABORT") || (may_nil && is_nil(reply)) {
            return Ok(false);
        }
        return Err(format!(
            "a command was rejected at queue time, EXEC must answer EXECABORT; it answered {}",
            reply.show()
        ));
    }
    match expect {
        WatchExpect::MustAbort {
            only_get_invisible,
            rearmed_only,
            detail,
        } => {
            if is_nil(reply) {
                return Ok(false);
            }
            let msg = format!(
                "the value of a watched key differs between WATCH and EXEC, EXEC must answer nil and apply nothing; it answered {}\n{}",
                reply.show(),
                detail
            );
            if executor_tier && rearmed_only {
                m.rearm = Some(msg);
                Ok(true)
            } else if !executor_tier && only_get_invisible {
                m.watch_get = Some(msg);
                Ok(true)
            } else {
                Err(msg)
            }
        }
        WatchExpect::MustApply => {
            if is_nil(reply) {
                return Err(format!(
                    "no watched key changed its value between WATCH and EXEC ({} watched), EXEC must apply; it answered {}",
                    m.watched.len(),
                    reply.show()
                ));
            }
            Ok(true)
        }
    }
}

fn exec_array<'a>(m: &Model, reply: &'a Reply) -> Result<&'a Vec<Reply>, String> {
    let got = match reply {
        Reply::Array(v) => v,
        other => {
            return Err(format!(
                "EXEC answered {} — expected an array with the {} results",
                other.show(),
                m.queued.len()
            ))
        }
    };
    if got.len() != m.queued.len() {
        return Err(format!(
            "EXEC returned {} results for {} queued commands: {}\n  queued: {}",
            got.len(),
            m.queued.len(),
            reply.show(),
            m.queued.iter().map(|c| show_argv(c)).collect::<Vec<_>>().join(" | ")
        ));
    }
    Ok(got)
}

fn exec_elem_mismatch(m: &Model, i: usize, got: &Reply, expected: &Reply) -> String {
    format!(
        "EXEC result #{} for {} is {} but the same command run outside a transaction after the same prefix answers {}\n  queued: {}",
        i,
        show_argv(&m.queued[i]),
        got.show(),
        expected.show(),
        m.queued.iter().map(|c| show_argv(c)).collect::<Vec<_>>().join(" | ")
    )
}

// ---------------------------------------------------------------------------------------
// tier 1: connection handlers, twin server kept in lock-step
// ---------------------------------------------------------------------------------------

struct ConnOutcome {
    nontrivial: bool,
    labels: Vec<&'static str>,
    /// Some(message) = KF-C05-01 candidate (the caller owns ctx and decides)
    watch_get: Option<String>,
}

struct Pair {
    real: ShardedActorState,
    twin: ShardedActorState,
    a: Client,
    b: Client,
    ta: Client,
    tb: Client,
}

impl Pair {
    /// the keyspace of the server must equal the keyspace of the sequential twin
    async fn in_sync(&self, after: &str, m: &Model) -> Result<Dump, String> {
        let d = dump_state(&self.real).await;
        let t = dump_state(&self.twin).await;
        if d != t {
            return Err(format!(
                "after {}{}: the keyspace differs from the sequential run (left: server, right: twin that executes only what has taken effect)\n{}",
                after,
                if m.in_multi { " (inside MULTI: nothing may take effect before EXEC)" } else { "" },
                diff_dumps(&d, &t)
            ));
        }
        Ok(d)
    }

    /// a command of client B: takes effect at once on both servers
    async fn b_call(&mut self, c: &Argv, m: &Model) -> Result<(), String> {
        let r = self.b.call(c).await?;
        if m.in_multi && is_queued(&r) {
            return Err(format!("client B's {} was answered +QUEUED although only A is inside MULTI", show_argv(c)));
        }
        let t = self.tb.call(c).await?;
        if normalise(c, &r) != normalise(c, &t) {
            return Err(format!(
                "client B's {} answered {} while A's transaction is pending; on the sequential twin it answers {}",
                show_argv(c),
                r.show(),
                t.show()
            ));
        }
        Ok(())
    }

    async fn step(&mut self, step: &Step, m: &mut Model) -> Result<(), String> {
        let c = step.argv();
        match step {
            Step::Watch(keys) => {
                let r = self.a.call(&c).await?;
                if m.in_multi {
                    if !r.is_error() {
                        return Err(format!("{} inside MULTI answered {} — expected an error reply", show_argv(&c), r.show()));
                    }
                } else {
                    if r != Reply::ok() {
                        return Err(format!("{} answered {}", show_argv(&c), r.show()));
                    }
                    let d = dump_state(&self.real).await;
                    for k in keys {
                        if m.first_watched.is_none() {
                            m.first_watched = Some(k.clone());
                        }
                        m.watched.push(WatchRec {
                            key: k.clone(),
                            at_watch: d.get(k).cloned(),
                        });
                    }
                }
            }
            Step::Unwatch => {
                let r = self.a.call(&c).await?;
                if m.in_multi {
                    m.label("unwatch_inside_multi");
                    on_queue_reply(&BodyItem::Unwatch, &r, &mut TxObsMut(m))?;
                } else {
                    if r != Reply::ok() {
                        return Err(format!("UNWATCH answered {}", r.show()));
                    }
                    m.watched.clear();
                    m.b_after_watch = false;
                }
            }
            Step::Multi => {
                let r = self.a.call(&c).await?;
                if m.in_multi {
                    if !r.is_error() {
                        return Err(format!("nested MULTI answered {} — expected an error reply", r.show()));
                    }
                } else {
                    if r != Reply::ok() {
                        return Err(format!("MULTI answered {}", r.show()));
                    }
                    m.in_multi = true;
                    m.queued.clear();
                    m.flagged = false;
                }
            }
            Step::Discard => {
                let r = self.a.call(&c).await?;
                if m.in_multi {
                    m.label("discard");
                    if r != Reply::ok() {
                        return Err(format!("DISCARD answered {}", r.show()));
                    }
                    m.end_transaction();
                } else {
                    m.label("discard_without_multi");
                    if !r.is_error() {
                        return Err(format!("DISCARD without MULTI answered {} — expected an error reply", r.show()));
                    }
                }
            }
            Step::Exec => {
                if !m.in_multi {
                    m.label("exec_without_multi");
                    let r = self.a.call(&c).await?;
                    if !r.is_error() {
                        return Err(format!("EXEC without MULTI answered {} — expected an error reply", r.show()));
                    }
                } else {
                    m.label("exec");
                    let now = dump_state(&self.real).await;
                    let r = self.a.call(&c).await?;
                    if judge_exec(m, &r, &now, false)? {
                        let got = exec_array(m, &r)?.clone();
                        for (i, q) in m.queued.clone().iter().enumerate() {
                            let e = normalise(q, &self.ta.call(q).await?);
                            let g = normalise(q, &got[i]);
                            if g != e {
                                return Err(exec_elem_mismatch(m, i, &g, &e));
                            }
                        }
                    }
                    m.end_transaction();
                }
            }
            Step::Other(item) => {
                let r = self.a.call(&c).await?;
                if m.in_multi {
                    on_queue_reply(item, &r, &mut TxObsMut(m))?;
                } else {
                    // outside a transaction: executes at once, like on the twin
                    m.label("immediate_command_after_transaction");
                    let t = self.ta.call(&c).await?;
                    if normalise(&c, &r) != normalise(&c, &t) {
                        return Err(format!(
                            "{} sent after the transaction ended answered {}; on the sequential twin it answers {}",
                            show_argv(&c),
                            r.show(),
                            t.show()
                        ));
                    }
                }
            }
        }
        self.in_sync(&format!("A's {}", show_argv(&c)), m).await?;
        Ok(())
    }
}

/// adapter: on_queue_reply works on the queue part of the model
struct TxObsMut<'a>(&'a mut Model);

async fn run_conn_script(sc: &Script) -> Result<ConnOutcome, String> {
    let shards = sc.shards.max(1) as usize;
    let real = ShardedActorState::with_shards(shards);
    let twin = ShardedActorState::with_shards(shards);
    let mut p = Pair {
        a: Client::connect("A", &real),
        b: Client::connect("B", &real),
        ta: Client::connect("twin-A", &twin),
        tb: Client::connect("twin-B", &twin),
        real,
        twin,
    };
    let mut m = Model::default();
    m.label(if shards > 1 { "shards:n" } else { "shards:1" });

    if sc.seed_types {
        for c in seed_commands() {
            p.b_call(&c, &m).await?;
        }
    }
    for c in &sc.setup {
        p.b_call(c, &m).await?;
    }
    let (steps, _) = program(sc);
    let mut b_at: Vec<Vec<&BOp>> = vec![Vec::new(); steps.len()];
    for act in &sc.b {
        let j = (act.at as usize * steps.len()) >> 16;
        b_at[j].push(&act.op);
    }
    for (j, step) in steps.iter().enumerate() {
        for op in &b_at[j] {
            let d = dump_state(&p.real).await;
            for c in resolve_b(op, &d) {
                p.b_call(&c, &m).await?;
            }
            if !m.watched.is_empty() {
                m.b_after_watch = true;
            }
            p.in_sync("client B's write", &m).await?;
        }
        p.step(step, &mut m).await?;
    }
    if m.in_multi {
        return Err("harness: the program did not close its transaction".into());
    }

    // ---- tail: the watches are forgotten after EXEC / DISCARD / abort
    if let (Some(tk), Some(wk)) = (sc.tail, m.first_watched.clone()) {
        m.label("tail_after_transaction");
        let d = dump_state(&p.real).await;
        let wi = (0..NKEYS).find(|i| vcore::gen::KEY_POOL[*i] == wk.as_slice()).unwrap_or(0);
        for c in resolve_b(&BOp::Change(key_idx(wi)), &d) {
            p.b_call(&c, &m).await?;
        }
        let tail_key = key_of(tk);
        let ty = dump_state(&p.real).await.get(&tail_key).map(|k| k.ty.clone());
        let cmd = match ty.as_deref() {
            None | Some("list") => vec![b("RPUSH"), tail_key.clone(), b("tail")],
            _ => vec![b("EXISTS"), tail_key.clone()],
        };
        for st in [Step::Multi, Step::Other(BodyItem::Cmd(cmd.clone())), Step::Exec] {
            p.step(&st, &mut m).await.map_err(|e| {
                format!(
                    "second transaction on the same connection (after the first ended, client B changed the previously watched key {:?}; no new WATCH): {}",
                    vcore::show(&wk),
                    e
                )
            })?;
        }
    }
    Ok(ConnOutcome {
        nontrivial: m.nontrivial,
        labels: m.labels,
        watch_get: m.watch_get,
    })
}

fn has_conn_level(sc: &Script) -> bool {
    sc.body.iter().any(|i| match i {
        BodyItem::ConnLevel(a) => !matches!(vcore::gen::cmd_name(a).as_str(), "PING" | "ECHO"),
        _ => false,
    })
}

fn check_conn_script(sc: &Script, ctx: &mut CaseCtx<'_>) -> Result<(), String> {
    if has_conn_level(sc) {
        ctx.label("body_has_connection_level_command");
        // KF-C05-02: excluded by construction while open (the probe covers the class)
        if ctx.tolerate(KF_CONN_LEVEL) {
            return Ok(());
        }
    }
    let _ = vcore::runner::take_last_panic();
    let out = vcore::block_on(run_conn_script(sc))?;
    if let Some(msg) = &out.watch_get {
        // exact matcher satisfied: every watched key whose value changed shows the same GET
        // result at WATCH and at EXEC time, and the script checked out as an applied one
        if ctx.tolerate(KF_WATCH_GET) {
            ctx.label("kf01_watch_get_resynced");
        } else {
            return Err(msg.clone());
        }
    }
    if let Some(p) = vcore::runner::take_last_panic() {
        return Err(format!("a server task panicked during the script: {}", p));
    }
    for l in &out.labels {
        ctx.label(l);
    }
    if out.nontrivial {
        ctx.nontrivial(&serde_json::to_string(sc).unwrap_or_default());
    }
    Ok(())
}

// ---------------------------------------------------------------------------------------
// tier 2: executor-level MULTI/EXEC/WATCH, twin executor kept in lock-step
// ---------------------------------------------------------------------------------------

fn ex(e: &mut CommandExecutor, a: &Argv) -> Option<Reply> {
    // a command the parser rejects never reaches the executor
    vcore::resp::parse_zc(a).ok().map(|c| Reply::from_resp(&e.execute(&c)))
}

fn check_exec_script(sc: &Script, ctx: &mut CaseCtx<'_>) -> Result<(), String> {
    let extra: Vec<Vec<u8>> = (0..NKEYS).map(|i| vcore::gen::KEY_POOL[i].to_vec()).collect();
    let mut e = CommandExecutor::new();
    let mut twin = CommandExecutor::new();
    let mut m = Model::default();
    // a write that takes effect at once on both (setup, client B, immediate commands)
    fn both(e: &mut CommandExecutor, twin: &mut CommandExecutor, c: &Argv, who: &str) -> Result<(), String> {
        let r = ex(e, c);
        let t = ex(twin, c);
        match (r, t) {
            (Some(r), Some(t)) if normalise(c, &r) != normalise(c, &t) => Err(format!(
                "{} {} answered {}; on the sequential twin executor it answers {}",
                who,
                show_argv(c),
                r.show(),
                t.show()
            )),
            _ => Ok(()),
        }
    }
    fn in_sync(e: &CommandExecutor, twin: &CommandExecutor, after: &str, m: &Model) -> Result<(), String> {
        if e.get_data() != twin.get_data() {
            return Err(format!(
                "after {}{}: the executor's data differs from the sequential run (twin executor that executes only what has taken effect)",
                after,
                if m.in_multi { " (inside MULTI: nothing may take effect before EXEC)" } else { "" }
            ));
        }
        Ok(())
    }
    if sc.seed_types {
        for c in seed_commands() {
            both(&mut e, &mut twin, &c, "setup")?;
        }
    }
    for c in &sc.setup {
        both(&mut e, &mut twin, c, "setup")?;
    }
    let (steps, multi_at) = program(sc);
    // whatever arrives while the executor is in MULTI is queued, whoever sent it: B's actions
    // are placed before A's steps up to MULTI (between the WATCH steps and right before MULTI)
    let mut b_at: Vec<Vec<&BOp>> = vec![Vec::new(); steps.len()];
    for act in &sc.b {
        let j = ((act.at as usize * steps.len()) >> 16).min(multi_at);
        b_at[j].push(&act.op);
    }
    for (j, step) in steps.iter().enumerate() {
        for op in &b_at[j] {
            let d = dump_executor(&mut twin, &extra);
            for c in resolve_b(op, &d) {
                both(&mut e, &mut twin, &c, "client B's")?;
            }
            if !m.watched.is_empty() {
                m.b_after_watch = true;
            }
        }
        let c = step.argv();
        let Some(r) = ex(&mut e, &c) else { continue };
        match step {
            Step::Watch(keys) => {
                if m.in_multi {
                    if !r.is_error() {
                        return Err(format!("{} inside MULTI answered {} — expected an error reply", show_argv(&c), r.show()));
                    }
                } else {
                    if r != Reply::ok() {
                        return Err(format!("{} answered {}", show_argv(&c), r.show()));
                    }
                    let d = dump_executor(&mut twin, &extra);
                    for k in keys {
                        m.watched.push(WatchRec {
                            key: k.clone(),
                            at_watch: d.get(k).cloned(),
                        });
                    }
                }
            }
            Step::Unwatch => {
                if m.in_multi {
                    m.label("unwatch_inside_multi");
                    on_queue_reply(&BodyItem::Unwatch, &r, &mut TxObsMut(&mut m))?;
                } else {
                    if r != Reply::ok() {
                        return Err(format!("UNWATCH answered {}", r.show()));
                    }
                    m.watched.clear();
                    m.b_after_watch = false;
                }
            }
            Step::Multi => {
                if m.in_multi {
                    if !r.is_error() {
                        return Err(format!("nested MULTI answered {} — expected an error reply", r.show()));
                    }
                } else {
                    if r != Reply::ok() {
                        return Err(format!("MULTI answered {}", r.show()));
                    }
                    m.in_multi = true;
                    m.queued.clear();
                    m.flagged = false;
                }
            }
            Step::Discard => {
                if m.in_multi {
                    m.label("discard");
                    if r != Reply::ok() {
                        return Err(format!("DISCARD answered {}", r.show()));
                    }
                    m.end_transaction();
                } else {
                    m.label("discard_without_multi");
                    if !r.is_error() {
                        return Err(format!("DISCARD without MULTI answered {} — expected an error reply", r.show()));
                    }
                }
            }
            Step::Exec => {
                if !m.in_multi {
                    m.label("exec_without_multi");
                    if !r.is_error() {
                        return Err(format!("EXEC without MULTI answered {} — expected an error reply", r.show()));
                    }
                } else {
                    m.label("exec");
                    // nothing took effect since MULTI (checked after every step): the twin
                    // shows the keyspace as it was when EXEC arrived
                    let now = dump_executor(&mut twin, &extra);
                    if judge_exec(&mut m, &r, &now, true)? {
                        let got = exec_array(&m, &r)?.clone();
                        for (i, q) in m.queued.clone().iter().enumerate() {
                            let Some(t) = ex(&mut twin, q) else { continue };
                            let (g, t) = (normalise(q, &got[i]), normalise(q, &t));
                            if g != t {
                                return Err(exec_elem_mismatch(&m, i, &g, &t));
                            }
                        }
                    }
                    m.end_transaction();
                }
            }
            Step::Other(item) => {
                if m.in_multi {
                    // the executor queues whatever it is given (also unknown commands)
                    if !is_queued(&r) {
                        return Err(format!("{} inside MULTI answered {} — expected +QUEUED", show_argv(&c), r.show()));
                    }
                    let _ = item;
                    m.queued.push(c.clone());
                } else {
                    m.label("immediate_command_after_transaction");
                    if let Some(t) = ex(&mut twin, &c) {
                        if normalise(&c, &r) != normalise(&c, &t) {
                            return Err(format!(
                                "{} sent after the transaction ended answered {}; on the sequential twin executor it answers {}",
                                show_argv(&c),
                                r.show(),
                                t.show()
                            ));
                        }
                    }
                }
            }
        }
        in_sync(&e, &twin, &format!("A's {}", show_argv(&c)), &m)?;
    }
    // the transaction is over: a following command executes immediately
    let r = ex(&mut e, &argv(&["PING"]));
    if r != Some(Reply::Simple(b"PONG".to_vec())) {
        return Err(format!("PING after the transaction answered {:?}", r.map(|x| x.show())));
    }
    if let Some(msg) = &m.rearm {
        // exact matcher satisfied (see watch_expectation): the transaction was checked as an
        // applied one against the twin
        if ctx.tolerate(KF_REARM) {
            ctx.label("kf03_rewatch_rearmed_resynced");
        } else {
            return Err(msg.clone());
        }
    }
    for l in &m.labels {
        ctx.label(l);
    }
    if m.nontrivial {
        ctx.nontrivial(&serde_json::to_string(sc).unwrap_or_default());
    }
    Ok(())
}

// ---------------------------------------------------------------------------------------
// long transaction bodies (scale): every queued command is executed, in order, exactly once
// ---------------------------------------------------------------------------------------

#[derive(Clone, Debug, Hash, Serialize, Deserialize)]
struct LongBody {
    /// number of commands between MULTI and EXEC
    n: u32,
    shards: u8,
}

fn long_bodies(thorough: bool) -> Vec<LongBody> {
    let mut ns: Vec<u32> = vec![255, 256, 257, 1_000, 4_095, 4_096, 4_097, 8_191, 8_192, 8_193, 9_001, 16_385];
    if thorough {
        ns.extend([65_535, 65_536, 65_537, 100_001]);
    }
    let mut v = Vec::new();
    for n in ns {
        for shards in [1u8, 4] {
            v.push(LongBody { n, shards });
        }
    }
    v
}

/// MULTI, n commands (INCR c / RPUSH l <i> / SET s <i> in turn), EXEC through the connection
/// handler: every command is answered QUEUED, EXEC returns exactly n results - the i-th being
/// what the i-th command answers when the body runs consecutively - and the keys hold the result.
fn check_long_body(c: &LongBody, ctx: &mut CaseCtx<'_>) -> Result<(), String> {
    let n = c.n as usize;
    vcore::block_on(async {
        let state = ShardedActorState::with_shards(c.shards as usize);
        let mut a = Client::connect("A", &state);
        let r = a.call(&argv(&["MULTI"])).await?;
        if r != Reply::ok() {
            return Err(format!("MULTI answered {}", r.show()));
        }
        for i in 0..n {
            let cmd = match i % 3 {
                0 => argv(&["INCR", "long:c"]),
                1 => vec![b("RPUSH"), b("long:l"), i.to_string().into_bytes()],
                _ => vec![b("SET"), b("long:s"), i.to_string().into_bytes()],
            };
            let r = a.call(&cmd).await?;
            if r != Reply::Simple(b"QUEUED".to_vec()) {
                return Err(format!(
                    "command #{} of a MULTI body of {} ({}) was answered {} instead of +QUEUED",
                    i + 1, n, show_argv(&cmd), r.show()
                ));
            }
        }
        let r = a.call(&argv(&["EXEC"])).await?;
        let items = match &r {
            Reply::Array(v) => v,
            other => return Err(format!("EXEC after {} queued commands answered {}", n, other.show())),
        };
        if items.len() != n {
            return Err(format!(
                "EXEC after {} commands that were each answered +QUEUED returned {} results: queued commands were dropped or run twice",
                n, items.len()
            ));
        }
        let (mut incrs, mut pushes) = (0i64, 0i64);
        for (i, it) in items.iter().enumerate() {
            let want = match i % 3 {
                0 => {
                    incrs += 1;
                    Reply::Int(incrs)
                }
                1 => {
                    pushes += 1;
                    Reply::Int(pushes)
                }
                _ => Reply::ok(),
            };
            if *it != want {
                return Err(format!("EXEC result #{} of {} is {}, consecutive execution gives {}", i + 1, n, it.show(), want.show()));
            }
        }
        let c_now = direct(&state, argv(&["GET", "long:c"])).await;
        let l_now = direct(&state, argv(&["LLEN", "long:l"])).await;
        if c_now != Reply::Bulk(incrs.to_string().into_bytes()) || l_now != Reply::Int(pushes) {
            return Err(format!(
                "after EXEC of {} commands the counter is {} (want {}) and the list has {} elements (want {})",
                n, c_now.show(), incrs, l_now.show(), pushes
            ));
        }
        Ok(())
    })?;
    ctx.label(if c.n > 8192 { "long_body:>8192" } else { "long_body:<=8192" });
    ctx.nontrivial(c);
    Ok(())
}

fn main() {
    let args = vcore::parse_args();
    let s = Session::new(
        "C05",
        Level::Exploration,
        "scripts: client A = optional WATCH/UNWATCH steps over 8 keys (string, list, hash, set, zset, missing), MULTI, body of 0-8 items \
         (the data-command grammar incl. run-time failures, unknown commands, wrong arity, nested MULTI, WATCH inside MULTI, PING/ECHO), EXEC or DISCARD, \
         optional second transaction; client B = 0-4 actions (generated writes, change-then-restore, same-value rewrite, certain change, delete) placed before any of A's steps \
         up to EXEC; 1 or 4 shards. Tier 2 runs the same scripts single-client against one CommandExecutor. \
         non-trivial = (>= 2 queued commands with >= 1 write) or (a WATCH with >= 1 B action placed after it); distinct by the whole script",
        &args,
    );
    s.assume("the twin server (fresh state, same shard count) fed the same effective commands and then A's body outside a transaction defines 'executing them consecutively in order'");
    s.assume("keyspace dumps through ordinary read commands sent straight to the shared ShardedActorState (KEYS/TYPE/GET/LRANGE/SMEMBERS/HGETALL/ZRANGE/PTTL) observe the keyspace");
    s.assume("WATCH expectation = full typed value comparison WATCH-time vs EXEC-time (the code documents value comparison, not Redis' dirty flag, as intentional); nil bulk and nil array both count as EXEC's nil");
    s.assume("nested MULTI and WATCH inside MULTI answer an error and leave the transaction open and unflagged (Redis behaviour, documented in the handler)");
    s.assume("no expiry commands, SPOP/RANDOMKEY, SCAN: replies depend on the wall clock or on hash-map order");

    s.probe(
        KF_WATCH_GET,
        json!({"A": ["WATCH k1", "MULTI", "SET k0 x", "EXEC"], "B": "RPUSH k1 c between WATCH and MULTI", "setup": "RPUSH k1 a b"}),
        || {
            let sc = Script {
                shards: 1,
                seed_types: true,
                setup: vec![],
                watches: vec![WatchStep::Watch(vec![key_idx(1)])],
                body: vec![BodyItem::Cmd(argv(&["SET", "k0", "x"]))],
                exec: true,
                b: vec![BAction {
                    at: 0x8000,
                    op: BOp::Write(argv(&["RPUSH", "k1", "c"])),
                }],
                tail: None,
            };
            s.strict_eval(|ctx| check_conn_script(&sc, ctx)).err()
        },
    );
    s.probe(
        KF_CONN_LEVEL,
        json!({"A": ["MULTI", "ACL WHOAMI", "EXEC"]}),
        || {
            let sc = Script {
                shards: 1,
                seed_types: false,
                setup: vec![],
                watches: vec![],
                body: vec![BodyItem::ConnLevel(argv(&["ACL", "WHOAMI"]))],
                exec: true,
                b: vec![],
                tail: None,
            };
            s.strict_eval(|ctx| check_conn_script(&sc, ctx)).err()
        },
    );

    s.probe(
        KF_REARM,
        json!({"tier": "executor", "script": ["WATCH k0", "(other client) APPEND k0 !", "WATCH k0", "MULTI", "GET k1", "EXEC"]}),
        || {
            let sc = Script {
                shards: 1,
                seed_types: true,
                setup: vec![],
                watches: vec![WatchStep::Watch(vec![key_idx(0)]), WatchStep::Watch(vec![key_idx(0)])],
                body: vec![BodyItem::Cmd(argv(&["LLEN", "k1"]))],
                exec: true,
                // placed before A's second step = between the two WATCHes
                b: vec![BAction {
                    at: 0x4000,
                    op: BOp::Change(key_idx(0)),
                }],
                tail: None,
            };
            s.strict_eval(|ctx| check_exec_script(&sc, ctx)).err()
        },
    );
    // KF-C05-04 (fixed by c06eb81): k changed after its first WATCH, WATCHed again, changed back
    s.probe(
        "KF-C05-04",
        json!({"tier": "executor", "script": ["WATCH {t}a", "(other client) ZADD {t}a 99 zz-fresh-member", "WATCH {t}a", "(other client) ZREM {t}a zz-fresh-member", "MULTI", "GET k0", "EXEC"]}),
        || {
            let sc = Script {
                shards: 1,
                seed_types: true,
                setup: vec![],
                watches: vec![WatchStep::Watch(vec![0x8000]), WatchStep::Watch(vec![0x8000])],
                // two body commands: B's positions are fractions of A's step count
                body: vec![BodyItem::Cmd(argv(&["GET", "k0"])), BodyItem::Cmd(argv(&["GET", "k0"]))],
                exec: true,
                b: vec![
                    BAction { at: 21846, op: BOp::Touch(0x8000) },
                    BAction { at: 10923, op: BOp::Change(0x8000) },
                ],
                tail: None,
            };
            s.strict_eval(|ctx| check_exec_script(&sc, ctx)).err()
        },
    );
    s.describe_check("conn_scripts", "two real connection handlers on one ShardedActorState in lock-step; twin server for the sequential run");
    s.run_cases("conn_scripts", s.scale(20_000, 750_000), || script(false), check_conn_script);
    s.describe_check(
        "conn_level_scripts",
        "the same with connection-level commands (ACL WHOAMI/USERS, AUTH, HELLO) allowed in the body: scripts containing one are excluded (counted) while KF-C05-02 is open",
    );
    s.run_cases("conn_level_scripts", s.scale(2_000, 30_000), || script(true), check_conn_script);
    s.describe_check("exec_scripts", "executor-level MULTI/EXEC/WATCH on one CommandExecutor; twin executor for the sequential run");
    s.run_cases("exec_scripts", s.scale(40_000, 1_000_000), || script(false), check_exec_script);
    s.describe_check(
        "long_bodies",
        "enumerated transaction lengths (255..16385 commands on and around powers of two, thorough up to 100001; 1 and 4 shards) through the connection handler: every command answered +QUEUED, EXEC returns exactly n results equal to consecutive execution, final state matches",
    );
    s.run_enumerated("long_bodies", long_bodies(s.thorough()).into_iter(), check_long_body);
    s.finish();
}

fn key_idx(i: usize) -> u16 {
    (((i << 16) / NKEYS) + 1) as u16
}
