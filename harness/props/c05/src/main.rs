fn main(){}
