//! C03 — Shard count is unobservable: N shards answer exactly like one shard.
//!
//! Differential check (DESIGN.md §3 C03). One generated command program is run on a
//! `ShardedActorState<VerifTime>` with one shard (the reference) and on instances with
//! N shards; all instances share one harness clock.
//!
//!   api_diff    programs of data commands (vcore::gen::data_command incl. multi-key / two-key
//!               commands, KEYS/SCAN/DBSIZE/FLUSH*, RANDOMKEY, SORT [STORE], EVAL/EVALSHA over a script
//!               pool, SCRIPT LOAD|EXISTS|FLUSH, CONFIG GET|SET, SELECT/ECHO/PING/WAIT and the key-less
//!               stubs — everything `execute` sends to shard 0 only), plain
//!               GET/SET through a generated entry path (generic execute, fast_*, pooled_fast_*,
//!               fast_batch_*_pipeline), multi-key batch pipelines, clock steps with/without a
//!               TTL-manager tick (evict_expired_all_shards).
//!               Oracle: step-wise reply equality up to order inside unordered replies (SCAN by
//!               full-walk union, RANDOMKEY by nil-iff-empty + membership), final keyspace dump
//!               equality, DBSIZE = dump size, and "exactly one home": every entry path finds
//!               the same value for every pool key on every instance.
//!   conn_diff   the same byte stream (same segmentation) through the connection handler of two
//!               servers that differ only in the shard count (hook), incl. MULTI/EXEC/WATCH and
//!               pipelined GET/SET runs that hit the batching collectors; reply streams and
//!               final dumps must agree.
//!
//! Known findings are handled as AGENT_GUIDE.md prescribes: probes + narrow matchers; classes a
//! finding makes meaningless (state diverges, no re-synchronisation possible in a differential
//! twin) are excluded by construction only while the finding is open, and counted.

use bytes::Bytes;
use proptest::prelude::*;
use redis_sim::production::{verif_hooks, ConnectionConfig, PerformanceConfig, ResponsePoolConfig, ShardConfig, ShardedActorState};
use redis_sim::redis::Command;
use serde::{Deserialize, Serialize};
use serde_json::json;
use std::collections::{BTreeMap, BTreeSet};
use std::hash::{Hash, Hasher};
use std::sync::OnceLock;
use vcore::dump::{dump_async, show_dump, Dump};
use vcore::gen::{self, cmd_name, GenOpts, KEY_POOL};
use vcore::resp::{decode_stream, encode_command, parse_zc, show_argv, Argv, Reply};
use vcore::stream::ScriptedStream;
use vcore::time::VerifTime;
use vcore::{CaseCtx, Level, Session};

type State = ShardedActorState<VerifTime>;

const KF_HASH: &str = "KF-C03-01";
const KF_TWOKEY: &str = "KF-C03-02";
const KF_RANDOMKEY: &str = "KF-C03-03";
const KF_SCAN: &str = "KF-C03-04";
const KF_STALE: &str = "KF-C03-05";

// ---------------------------------------------------------------------------------------
// routing replica (classification only; never used as an oracle)
// ---------------------------------------------------------------------------------------

#[derive(Clone, Copy, Debug, PartialEq, Eq)]
enum HashMode {
    /// `<str as Hash>::hash` — bytes followed by 0xff (what `hash_key(&str)` does)
    Str,
    /// `<[u8] as Hash>::hash` — length prefix followed by bytes (what `hash_key_bytes` does)
    Raw,
}

fn shard_of(mode: HashMode, key: &[u8], n: usize) -> usize {
    let mut h = std::collections::hash_map::DefaultHasher::new();
    match mode {
        HashMode::Str => {
            let s = String::from_utf8_lossy(key);
            let s: &str = s.as_ref();
            s.hash(&mut h)
        }
        HashMode::Raw => key.hash(&mut h),
    }
    (h.finish() as usize) % n
}

#[derive(Clone, Copy, Debug)]
struct Routing {
    generic: HashMode,
    fast: HashMode,
    calibrated: bool,
}

impl Routing {
    fn generic(&self, key: &[u8], n: usize) -> usize {
        shard_of(self.generic, key, n)
    }
    fn fast(&self, key: &[u8], n: usize) -> usize {
        shard_of(self.fast, key, n)
    }
    /// the two routers disagree about this key at this shard count
    fn split(&self, key: &[u8], n: usize) -> bool {
        self.generic(key, n) != self.fast(key, n)
    }
}

static ROUTING: OnceLock<Routing> = OnceLock::new();

fn routing() -> Routing {
    *ROUTING.get().expect("routing calibrated in main")
}

fn pool_keys() -> Vec<Vec<u8>> {
    KEY_POOL.iter().map(|k| k.to_vec()).collect()
}

fn mk_state(n: usize, time: &VerifTime) -> State {
    ShardedActorState::with_config_and_time_source(ShardConfig::with_shards(n), time.clone())
}

/// The whole configuration space the constructors accept (they never return an error): the
/// number of shards that run is `initial.max(min).min(max)`, not `initial`.
#[derive(Clone, Debug, PartialEq, Eq, Hash, Serialize, Deserialize)]
struct ShardCfg {
    initial: usize,
    min: usize,
    max: usize,
    auto_scale: bool,
    adaptive: bool,
    load_check_ms: u64,
    /// Some((capacity, prewarm)) = construct through with_perf_config_and_time_source
    pool: Option<(usize, usize)>,
}

impl ShardCfg {
    fn plain(n: usize) -> ShardCfg {
        ShardCfg { initial: n, min: 1, max: 256, auto_scale: false, adaptive: false, load_check_ms: 10_000, pool: None }
    }
    /// shards that actually run
    fn effective(&self) -> usize {
        self.initial.max(self.min).min(self.max)
    }
    fn is_plain(&self) -> bool {
        *self == ShardCfg::plain(self.initial)
    }
    fn shard_config(&self) -> ShardConfig {
        ShardConfig {
            initial_shards: self.initial,
            min_shards: self.min,
            max_shards: self.max,
            auto_scale: self.auto_scale,
            adaptive_replication: self.adaptive,
            load_check_interval_ms: self.load_check_ms,
        }
    }
    fn perf(&self) -> Option<PerformanceConfig> {
        self.pool.map(|(cap, pre)| PerformanceConfig {
            num_shards: self.initial.max(1),
            response_pool: ResponsePoolConfig { capacity: cap.max(1), prewarm: pre.min(cap.max(1)) },
            ..PerformanceConfig::default()
        })
    }
    fn show(&self) -> String {
        if self.is_plain() {
            format!("{} shards", self.initial)
        } else {
            format!(
                "{} shards (initial {}, min {}, max {}, auto_scale {}, adaptive {}, pool {:?})",
                self.effective(), self.initial, self.min, self.max, self.auto_scale, self.adaptive, self.pool
            )
        }
    }
}

fn mk_state_cfg(cfg: &ShardCfg, time: &VerifTime) -> State {
    match cfg.perf() {
        Some(perf) => ShardedActorState::with_perf_config_and_time_source(&perf, cfg.shard_config(), time.clone()),
        None => ShardedActorState::with_config_and_time_source(cfg.shard_config(), time.clone()),
    }
}

fn a(parts: &[&[u8]]) -> Argv {
    parts.iter().map(|p| p.to_vec()).collect()
}

/// Decide which of hash(&str)/hash(&[u8]) each router uses by observing, through RANDOMKEY
/// (which looks at shard 0 only), whether a key written by that router lands on shard 0.
/// If no candidate fits (e.g. RANDOMKEY has been repaired to look at all shards) the replica
/// read from the source (generic = str, fast = bytes) is used uncalibrated.
fn calibrate() -> Routing {
    // Two public views of "what does shard 0 hold": RANDOMKEY where it only asks shard 0
    // (KF-C03-03, repaired in /repo 2251e33: then it answers for the whole keyspace and the view
    // is uninformative), and the first page of SCAN where the cursor names the shard (the
    // sharded SCAN since /repo 3d8557f: `SCAN 0 COUNT 1000` lists shard 0 only). A view in which
    // every key of the pool is "on shard 0" at 2 and at 4 shards says nothing and is skipped.
    async fn shard0_randomkey(st: &State, _k: &[u8]) -> bool {
        exec_generic(st, &a(&[b"RANDOMKEY"])).await != Reply::Nil
    }
    async fn shard0_scan(st: &State, k: &[u8]) -> bool {
        match exec_generic(st, &a(&[b"SCAN", b"0", b"COUNT", b"1000"])).await {
            Reply::Array(parts) if parts.len() == 2 => match &parts[1] {
                Reply::Array(keys) => keys.iter().any(|x| matches!(x, Reply::Bulk(b) if b.as_slice() == k)),
                _ => false,
            },
            _ => false,
        }
    }
    let views: Vec<Vec<(usize, Vec<u8>, bool, bool)>> = vcore::block_on(async {
        let mut views = Vec::new();
        for view in 0..2 {
            let mut out = Vec::new();
            for n in [2usize, 4] {
                let time = VerifTime::new(0);
                let st = mk_state(n, &time);
                for k in pool_keys() {
                    exec_generic(&st, &a(&[b"FLUSHALL"])).await;
                    exec_generic(&st, &a(&[b"SET", &k, b"1"])).await;
                    let g = if view == 0 { shard0_randomkey(&st, &k).await } else { shard0_scan(&st, &k).await };
                    exec_generic(&st, &a(&[b"FLUSHALL"])).await;
                    st.fast_set(Bytes::copy_from_slice(&k), Bytes::from_static(b"1")).await;
                    let f = if view == 0 { shard0_randomkey(&st, &k).await } else { shard0_scan(&st, &k).await };
                    out.push((n, k, g, f));
                }
            }
            views.push(out);
        }
        views
    });
    use HashMode::*;
    for obs in &views {
        if obs.iter().all(|(_, _, g, f)| *g && *f) || obs.iter().all(|(_, _, g, f)| !*g && !*f) {
            continue; // uninformative view
        }
        for (g, f) in [(Raw, Raw), (Str, Raw), (Str, Str), (Raw, Str)] {
            if obs
                .iter()
                .all(|(n, k, og, of)| (shard_of(g, k, *n) == 0) == *og && (shard_of(f, k, *n) == 0) == *of)
            {
                return Routing {
                    generic: g,
                    fast: f,
                    calibrated: true,
                };
            }
        }
    }
    // as read from the source since /repo 820df95: both entry points hash the bytes
    Routing {
        generic: Raw,
        fast: Raw,
        calibrated: false,
    }
}

// ---------------------------------------------------------------------------------------
// cases
// ---------------------------------------------------------------------------------------

#[derive(Clone, Copy, Debug, PartialEq, Eq, Hash, Serialize, Deserialize)]
enum Path {
    Generic,
    Fast,
    Pooled,
    Batch,
}

#[derive(Clone, Debug, Serialize, Deserialize)]
enum Step {
    /// one command; `path` is honoured for plain `GET k` / `SET k v` only
    Cmd { argv: Argv, path: Path },
    /// fast_batch_get_pipeline(keys)
    BatchGet { keys: Vec<Vec<u8>> },
    /// fast_batch_set_pipeline(pairs)
    BatchSet { pairs: Vec<(Vec<u8>, Vec<u8>)> },
    /// advance the shared clock; `evict` = the TTL manager ticks: either the harness calls
    /// evict_expired_all_shards itself, or (`actor`) the real TtlManagerActor is spawned on the
    /// instance and handed an explicit TtlMessage::Tick
    Clock {
        ms: u64,
        evict: bool,
        #[serde(default)]
        actor: bool,
    },
}

#[derive(Clone, Debug, Serialize, Deserialize)]
struct ApiCase {
    /// shard counts compared against one shard (`ShardConfig::with_shards(n)`)
    shards: Vec<usize>,
    /// full configurations compared against one shard
    #[serde(default)]
    cfgs: Vec<ShardCfg>,
    steps: Vec<Step>,
}

fn plain_get(argv: &Argv) -> Option<&[u8]> {
    if argv.len() == 2 && argv[0].eq_ignore_ascii_case(b"GET") {
        Some(&argv[1])
    } else {
        None
    }
}

fn plain_set(argv: &Argv) -> Option<(&[u8], &[u8])> {
    if argv.len() == 3 && argv[0].eq_ignore_ascii_case(b"SET") {
        Some((&argv[1], &argv[2]))
    } else {
        None
    }
}

async fn exec_generic(st: &State, argv: &Argv) -> Reply {
    match parse_zc(argv) {
        Ok(cmd) => Reply::from_resp(&st.execute(&cmd).await),
        Err(e) => Reply::Error(format!("(parse) {}", e).into_bytes()),
    }
}

fn one(mut v: Vec<redis_sim::redis::RespValue>) -> Reply {
    if v.len() == 1 {
        Reply::from_resp(&v.remove(0))
    } else {
        // a single-element pipeline must answer with exactly one reply; keep the shape visible
        Reply::Array(v.iter().map(Reply::from_resp).collect())
    }
}

async fn exec_cmd(st: &State, argv: &Argv, path: Path) -> Reply {
    if let Some(k) = plain_get(argv) {
        let k = Bytes::copy_from_slice(k);
        return match path {
            Path::Generic => exec_generic(st, argv).await,
            Path::Fast => Reply::from_resp(&st.fast_get(k).await),
            Path::Pooled => Reply::from_resp(&st.pooled_fast_get(k).await),
            Path::Batch => one(st.fast_batch_get_pipeline(vec![k]).await),
        };
    }
    if let Some((k, v)) = plain_set(argv) {
        let k = Bytes::copy_from_slice(k);
        let v = Bytes::copy_from_slice(v);
        return match path {
            Path::Generic => exec_generic(st, argv).await,
            Path::Fast => Reply::from_resp(&st.fast_set(k, v).await),
            Path::Pooled => Reply::from_resp(&st.pooled_fast_set(k, v).await),
            Path::Batch => one(st.fast_batch_set_pipeline(vec![(k, v)]).await),
        };
    }
    exec_generic(st, argv).await
}

/// `coerce` = route the step through the generic entry (used only while KF-C03-01 is open)
async fn exec_step(st: &State, step: &Step, coerce: bool) -> Reply {
    match step {
        Step::Cmd { argv, path } => {
            exec_cmd(st, argv, if coerce { Path::Generic } else { *path }).await
        }
        Step::BatchGet { keys } => {
            if coerce {
                let mut out = Vec::new();
                for k in keys {
                    out.push(exec_generic(st, &a(&[b"GET", k])).await);
                }
                Reply::Array(out)
            } else {
                let ks = keys.iter().map(|k| Bytes::copy_from_slice(k)).collect();
                Reply::Array(
                    st.fast_batch_get_pipeline(ks)
                        .await
                        .iter()
                        .map(Reply::from_resp)
                        .collect(),
                )
            }
        }
        Step::BatchSet { pairs } => {
            if coerce {
                let mut out = Vec::new();
                for (k, v) in pairs {
                    out.push(exec_generic(st, &a(&[b"SET", k, v])).await);
                }
                Reply::Array(out)
            } else {
                let ps = pairs
                    .iter()
                    .map(|(k, v)| (Bytes::copy_from_slice(k), Bytes::copy_from_slice(v)))
                    .collect();
                Reply::Array(
                    st.fast_batch_set_pipeline(ps)
                        .await
                        .iter()
                        .map(Reply::from_resp)
                        .collect(),
                )
            }
        }
        Step::Clock { .. } => Reply::Nil,
    }
}

/// keys the step hands to the fast-family router (hash_key_bytes)
fn fast_keys(step: &Step) -> Vec<Vec<u8>> {
    match step {
        Step::Cmd { argv, path } if *path != Path::Generic => {
            if let Some(k) = plain_get(argv) {
                vec![k.to_vec()]
            } else if let Some((k, _)) = plain_set(argv) {
                vec![k.to_vec()]
            } else {
                vec![]
            }
        }
        Step::BatchGet { keys } => keys.clone(),
        Step::BatchSet { pairs } => pairs.iter().map(|(k, _)| k.clone()).collect(),
        _ => vec![],
    }
}

fn is_fast_family_read(step: &Step, coerce: bool) -> bool {
    if coerce {
        return false;
    }
    match step {
        Step::Cmd { argv, path } => *path != Path::Generic && plain_get(argv).is_some(),
        Step::BatchGet { .. } => true,
        _ => false,
    }
}

fn show_step(step: &Step) -> String {
    match step {
        Step::Cmd { argv, path } => {
            if plain_get(argv).is_some() || plain_set(argv).is_some() {
                format!("{} [{:?}]", show_argv(argv), path)
            } else {
                show_argv(argv)
            }
        }
        Step::BatchGet { keys } => format!(
            "fast_batch_get_pipeline({})",
            keys.iter().map(|k| vcore::show(k)).collect::<Vec<_>>().join(", ")
        ),
        Step::BatchSet { pairs } => format!(
            "fast_batch_set_pipeline({})",
            pairs
                .iter()
                .map(|(k, v)| format!("{}={}", vcore::show(k), vcore::show(v)))
                .collect::<Vec<_>>()
                .join(", ")
        ),
        Step::Clock { ms, evict, actor } => format!(
            "clock += {} ms{}",
            ms,
            match (*evict, *actor) {
                (false, _) => "",
                (true, false) => " + TTL tick",
                (true, true) => " + TTL tick (TtlManagerActor, TtlMessage::Tick)",
            }
        ),
    }
}

fn show_program(steps: &[Step], upto: usize) -> String {
    let from = upto.saturating_sub(14);
    let mut s = String::new();
    if from > 0 {
        s.push_str(&format!("      … {} earlier steps\n", from));
    }
    for (i, st) in steps.iter().enumerate().take(upto + 1).skip(from) {
        s.push_str(&format!("      #{:<3} {}\n", i, show_step(st)));
    }
    s
}

/// Commands with more than one key for which `ShardedActorState::execute` has no fan-out arm:
/// the whole command is sent to the shard of the first key.
fn unfanned_multikey(cmd: &Command) -> bool {
    match cmd {
        Command::Rename(..)
        | Command::RenameNx(..)
        | Command::RPopLPush(..)
        | Command::LMove { .. }
        | Command::MSetNx(_) => true,
        Command::Sort { store, .. } => store.is_some(),
        Command::Eval { keys, .. } | Command::EvalSha { keys, .. } => keys.len() >= 2,
        _ => false,
    }
}

fn fanout_command(cmd: &Command) -> bool {
    matches!(
        cmd,
        Command::Keys(_)
            | Command::Scan { .. }
            | Command::DbSize
            | Command::FlushDb
            | Command::FlushAll
            | Command::RandomKey
    )
}

fn cross_shard(keys: &[String], shards: &[usize], r: &Routing) -> bool {
    shards.iter().any(|&n| {
        let set: BTreeSet<usize> = keys.iter().map(|k| r.generic(k.as_bytes(), n)).collect();
        set.len() > 1
    })
}

fn normalise(name: &str, r: &Reply) -> Reply {
    match name {
        "KEYS" | "SMEMBERS" | "HKEYS" | "HVALS" => r.sorted(),
        "HGETALL" | "CONFIG" => r.sorted_pairs(),
        _ => r.clone(),
    }
}

/// KF-C03-05 shape: at every differing position the one-shard instance (fresher clock) says
/// nil where the N-shard instance still answers as for a live key: its value, or WRONGTYPE if
/// the expired key holds a collection.
fn stale_read_shape(r1: &Reply, rn: &Reply) -> bool {
    fn live_answer(r: &Reply) -> bool {
        match r {
            Reply::Bulk(_) => true,
            Reply::Error(_) => r.error_code().as_deref() == Some("WRONGTYPE"),
            _ => false,
        }
    }
    match (r1, rn) {
        (Reply::Nil, q) if live_answer(q) => true,
        (Reply::Array(x), Reply::Array(y)) if x.len() == y.len() => {
            let mut any = false;
            for (p, q) in x.iter().zip(y.iter()) {
                if p == q {
                    continue;
                }
                if *p == Reply::Nil && live_answer(q) {
                    any = true;
                } else {
                    return false;
                }
            }
            any
        }
        _ => false,
    }
}

/// classification only: (key, relative deadline in ms) of a syntactically recognised command that
/// gives a key a deadline
fn rel_deadline(argv: &Argv) -> Option<(Vec<u8>, u64)> {
    let num = |b: &Vec<u8>| std::str::from_utf8(b).ok().and_then(|s| s.parse::<u64>().ok());
    let name = cmd_name(argv);
    let (ms, scale) = match (name.as_str(), argv.len()) {
        ("SET", 5) if argv[3].eq_ignore_ascii_case(b"PX") => (num(&argv[4])?, 1),
        ("SET", 5) if argv[3].eq_ignore_ascii_case(b"EX") => (num(&argv[4])?, 1000),
        ("PSETEX", 4) => (num(&argv[2])?, 1),
        ("SETEX", 4) => (num(&argv[2])?, 1000),
        ("PEXPIRE", 3) => (num(&argv[2])?, 1),
        ("EXPIRE", 3) => (num(&argv[2])?, 1000),
        _ => return None,
    };
    Some((argv[1].clone(), ms.saturating_mul(scale)))
}

/// One TTL-manager tick through the real `TtlManagerActor`: spawn it on the instance with a
/// one-hour period (its periodic timer fires once at start-up, at this very clock value, and then
/// never again during the case), send the explicit `TtlMessage::Tick`, then `shutdown().await`.
/// The actor's mailbox is FIFO, so the shutdown reply is a structural barrier: the tick has been
/// processed completely. No actor outlives the step, so no sweep happens at an uncontrolled time.
async fn tick_via_actor(st: &State) {
    use redis_sim::observability::{DatadogConfig, Metrics};
    use redis_sim::production::TtlManagerActor;
    let metrics = std::sync::Arc::new(Metrics::new(&DatadogConfig::from_env()));
    let handle = TtlManagerActor::spawn_with_interval(st.clone(), 3_600_000, metrics);
    handle.tick();
    handle.shutdown().await;
}

async fn scan_walk(st: &State, argv: &Argv) -> Result<BTreeSet<Vec<u8>>, Reply> {
    let mut cur_argv = argv.clone();
    let mut seen = BTreeSet::new();
    for _ in 0..256 {
        let r = exec_generic(st, &cur_argv).await;
        let Reply::Array(parts) = &r else { return Err(r) };
        if parts.len() != 2 {
            return Err(r);
        }
        let (Reply::Bulk(cur), Reply::Array(keys)) = (&parts[0], &parts[1]) else {
            return Err(r.clone());
        };
        for k in keys {
            match k {
                Reply::Bulk(b) => {
                    seen.insert(b.clone());
                }
                _ => return Err(r.clone()),
            }
        }
        if cur == b"0" {
            return Ok(seen);
        }
        cur_argv[1] = cur.clone();
    }
    Err(Reply::Error(
        b"(harness) SCAN walk did not reach cursor 0 within 256 pages".to_vec(),
    ))
}

fn show_walk(w: &Result<BTreeSet<Vec<u8>>, Reply>) -> String {
    match w {
        Ok(s) => format!(
            "{{{}}}",
            s.iter().map(|k| vcore::show(k)).collect::<Vec<_>>().join(", ")
        ),
        Err(r) => r.show(),
    }
}

/// COUNT of a SCAN argv (default 10)
fn scan_count(argv: &Argv) -> usize {
    let mut i = 2;
    while i + 1 < argv.len() {
        if argv[i].eq_ignore_ascii_case(b"COUNT") {
            return std::str::from_utf8(&argv[i + 1]).ok().and_then(|s| s.parse().ok()).unwrap_or(10);
        }
        i += 1;
    }
    10
}

/// what the unchanged sharded SCAN yields: per shard the first `count` matching keys in key order
fn scan_rule(matching: &BTreeSet<Vec<u8>>, count: usize, n: usize, r: &Routing) -> BTreeSet<Vec<u8>> {
    let mut out = BTreeSet::new();
    for shard in 0..n {
        out.extend(matching.iter().filter(|k| r.generic(k, n) == shard).take(count).cloned());
    }
    out
}

fn scan_pattern(argv: &Argv) -> Vec<u8> {
    let mut i = 2;
    while i + 1 < argv.len() {
        if argv[i].eq_ignore_ascii_case(b"MATCH") {
            return argv[i + 1].clone();
        }
        i += 1;
    }
    b"*".to_vec()
}

async fn keys_set(st: &State, pattern: &[u8]) -> BTreeSet<Vec<u8>> {
    match exec_generic(st, &a(&[b"KEYS", pattern])).await {
        Reply::Array(v) => v
            .into_iter()
            .filter_map(|k| match k {
                Reply::Bulk(b) => Some(b),
                _ => None,
            })
            .collect(),
        _ => BTreeSet::new(),
    }
}

async fn dump_state(st: &State) -> Dump {
    dump_async(
        |argv| {
            let st = st.clone();
            async move { exec_generic(&st, &argv).await }
        },
        &pool_keys(),
    )
    .await
}

fn check_api(case: &ApiCase, ctx: &mut CaseCtx<'_>) -> Result<(), String> {
    let mut cfgs: Vec<ShardCfg> = case.shards.iter().map(|&n| ShardCfg::plain(n)).collect();
    cfgs.extend(case.cfgs.iter().cloned());
    if cfgs.is_empty() || cfgs.iter().any(|c| c.effective() == 0 || c.effective() > 256) {
        return Ok(());
    }
    // one twin run (1 shard vs this configuration) per configuration, so that the known-finding
    // exclusions are computed for exactly that shard count
    let mut nontrivial = false;
    for cfg in &cfgs {
        let sub = ApiCase {
            shards: vec![cfg.effective()],
            cfgs: vec![],
            steps: case.steps.clone(),
        };
        nontrivial |= vcore::block_on(run_api(&sub, cfg, ctx))?;
        if !cfg.is_plain() {
            ctx.label("cfg:non_default_fields");
        }
        if cfg.effective() != cfg.initial {
            ctx.label("cfg:initial_outside_min_max");
        }
        if cfg.pool.is_some() {
            ctx.label("cfg:via_perf_config");
        }
        if cfg.auto_scale || cfg.adaptive {
            ctx.label("cfg:adaptive_flags");
        }
    }
    ctx.label(&format!("shards={:?}", cfgs.iter().map(|c| c.effective()).collect::<Vec<_>>()));
    if nontrivial {
        ctx.nontrivial(&serde_json::to_string(case).unwrap_or_default());
    }
    Ok(())
}

async fn run_api(case: &ApiCase, cfg: &ShardCfg, ctx: &mut CaseCtx<'_>) -> Result<bool, String> {
    let r = routing();
    let time = VerifTime::new(0);
    let reference = mk_state(1, &time);
    let subjects: Vec<(usize, State)> = vec![(cfg.effective(), mk_state_cfg(cfg, &time))];
    let cfg_note = if cfg.is_plain() { String::new() } else { format!("    configuration of the N-shard instance: {}\n", cfg.show()) };
    let kf_hash_open = ctx.finding_open(KF_HASH);

    // a clock step without a TTL tick leaves per-shard clocks behind the harness clock
    let mut stale = false;
    // classification
    let mut touched: BTreeSet<Vec<u8>> = BTreeSet::new();
    let mut via_generic: BTreeSet<Vec<u8>> = BTreeSet::new();
    let mut via_fast: BTreeSet<Vec<u8>> = BTreeSet::new();
    let mut multi = false;
    // classification only: key -> (deadline, number of clock steps seen when it was written)
    let mut deadlines: BTreeMap<Vec<u8>, (u64, usize)> = BTreeMap::new();
    let mut clock_steps = 0usize;
    let mut small_steps = 0usize;

    for (i, step) in case.steps.iter().enumerate() {
        if let Step::Clock { ms, evict, actor } = step {
            let now = time.advance(*ms);
            if *ms > 0 {
                clock_steps += 1;
                if *ms < 400 {
                    small_steps += 1;
                    ctx.label("clock_step_below_400ms");
                    if small_steps == 3 {
                        ctx.label("three_or_more_clock_steps_below_400ms");
                    }
                }
            }
            if *evict {
                deadlines.retain(|_, (d, _)| *d > now);
                if *actor {
                    ctx.label("ttl_tick_via_actor");
                    tick_via_actor(&reference).await;
                    for (_, st) in &subjects {
                        tick_via_actor(st).await;
                    }
                } else {
                    reference.evict_expired_all_shards().await;
                    for (_, st) in &subjects {
                        st.evict_expired_all_shards().await;
                    }
                }
                stale = false;
            } else if *ms > 0 {
                stale = true;
                ctx.label("clock_step_without_tick");
            }
            continue;
        }

        // ---- KF-C03-01: a fast-family access to a key the two routers place differently.
        // State diverges irrecoverably (the value lives on a shard the generic path never
        // asks), so while the finding is open such steps use the generic entry on every
        // instance. The probe and the "one home" section keep the defect itself in view.
        let fk = fast_keys(step);
        let mut coerce = false;
        if kf_hash_open
            && fk
                .iter()
                .any(|k| case.shards.iter().any(|&n| r.split(k, n)))
            && ctx.tolerate(KF_HASH)
        {
            coerce = true;
        }
        if !coerce {
            for k in &fk {
                via_fast.insert(k.clone());
                touched.insert(k.clone());
            }
            if fk.iter().collect::<BTreeSet<_>>().len() >= 2 {
                multi = true;
            }
        } else {
            for k in &fk {
                via_generic.insert(k.clone());
                touched.insert(k.clone());
            }
        }

        let (name, parsed) = match step {
            Step::Cmd { argv, .. } => (cmd_name(argv), parse_zc(argv).ok()),
            _ => (String::new(), None),
        };
        if let Step::Cmd { argv, .. } = step {
            if let Some(f) = keyless_family(argv) {
                ctx.label(&format!("cmd:{}", f));
            }
        }
        if let Some(cmd) = &parsed {
            let keys = cmd.get_keys();
            if fk.is_empty() && !matches!(cmd, Command::Keys(_)) {
                for k in &keys {
                    via_generic.insert(k.as_bytes().to_vec());
                    touched.insert(k.as_bytes().to_vec());
                }
            }
            // ---- KF-C03-02: two-key / multi-key commands without a fan-out arm whose keys
            // live on different shards. Executing them leaves a value on a shard where no
            // other command will look for it; nothing can re-synchronise the twins, so the
            // class is skipped on every instance while the finding is open.
            if unfanned_multikey(cmd) && cross_shard(&keys, &case.shards, &r) {
                ctx.label("two_key_cross_shard");
                if ctx.tolerate(KF_TWOKEY) {
                    continue;
                }
            } else if unfanned_multikey(cmd) {
                ctx.label("two_key_same_shard");
            }
            let distinct: BTreeSet<&String> = keys.iter().collect();
            if distinct.len() >= 2 || fanout_command(cmd) {
                multi = true;
            }
        }

        // ---- classification only (evidence labels): which command is the first to touch a key
        // after its deadline has passed with no TTL tick in between. Deadlines are those of
        // syntactically recognised commands (rel_deadline); never used by the oracle.
        {
            let now = time.get();
            let mut keys_now: Vec<Vec<u8>> = fk.clone();
            if let Some(cmd) = &parsed {
                if fk.is_empty() && !matches!(cmd, Command::Keys(_)) {
                    keys_now.extend(cmd.get_keys().iter().map(|k| k.as_bytes().to_vec()));
                }
            }
            let mut first_touch = false;
            let mut hops = 0usize;
            for k in &keys_now {
                if let Some((d, at)) = deadlines.remove(k) {
                    if now >= d {
                        first_touch = true;
                        hops = hops.max(clock_steps - at);
                    }
                }
            }
            if first_touch {
                ctx.label("first_touch_after_deadline_no_tick");
                let by = if fk.is_empty() { name.clone() } else { "fast-family access".to_string() };
                ctx.label(&format!("first_touch_after_deadline_no_tick:{}", by));
                if hops >= 2 {
                    ctx.label("first_touch_after_deadline_no_tick:>=2_clock_steps_since_the_write");
                }
            }
            if let Some(cmd) = &parsed {
                if matches!(cmd, Command::FlushDb | Command::FlushAll) {
                    deadlines.clear();
                } else if fanout_command(cmd) && deadlines.values().any(|(d, _)| now >= *d) {
                    ctx.label("keyspace_aggregate_over_expired_unswept_key");
                }
            }
            if let (Step::Cmd { argv, .. }, true) = (step, parsed.is_some()) {
                if let Some((k, ms)) = rel_deadline(argv) {
                    deadlines.insert(k, (now.saturating_add(ms), clock_steps));
                }
            }
        }

        // ---- SCAN: full walk from the generated cursor-0 command, union compared
        if name == "SCAN" && parsed.is_some() {
            let Step::Cmd { argv, .. } = step else { unreachable!() };
            ctx.label("scan_walk");
            let w1 = scan_walk(&reference, argv).await;
            for (n, st) in &subjects {
                let wn = scan_walk(st, argv).await;
                if w1 == wn {
                    continue;
                }
                // KF-C03-04: the sharded SCAN ignores the cursor, sends `SCAN 0 COUNT c` to every
                // shard and always answers cursor 0, i.e. a walk yields the first c (default 10)
                // matching keys of every shard in key order. Tolerated: exactly that loss and
                // nothing else — both instances hold the same matching keys, and each walk is
                // precisely what this rule yields for its shard count (computed from the
                // instance's own KEYS <pattern> and the routing replica).
                if let (Ok(s1), Ok(sn)) = (&w1, &wn) {
                    let pat = scan_pattern(argv);
                    let count = scan_count(argv);
                    let k1 = keys_set(&reference, &pat).await;
                    let kn = keys_set(st, &pat).await;
                    if k1 == kn
                        && *s1 == scan_rule(&k1, count, 1, &r)
                        && *sn == scan_rule(&kn, count, *n, &r)
                        && ctx.tolerate(KF_SCAN)
                    {
                        continue;
                    }
                }
                return Err(format!(
                    "step #{} {}: full SCAN walk differs between 1 shard and {} shards\n    1 shard : {}\n    {} shards: {}\n    program:\n{}",
                    i, show_step(step), n, show_walk(&w1), n, show_walk(&wn), show_program(&case.steps, i)
                ));
            }
            continue;
        }

        // ---- RANDOMKEY: nil iff empty; a returned key must exist on that instance
        if name == "RANDOMKEY" && parsed.is_some() {
            ctx.label("randomkey");
            let r1 = exec_step(&reference, step, false).await;
            for (n, st) in &subjects {
                let rn = exec_step(st, step, false).await;
                let ok = match (&r1, &rn) {
                    (Reply::Nil, Reply::Nil) => true,
                    (Reply::Bulk(k1), Reply::Bulk(kn)) => {
                        keys_set(&reference, b"*").await.contains(k1)
                            && keys_set(st, b"*").await.contains(kn)
                    }
                    (Reply::Bulk(_), Reply::Nil) => {
                        // KF-C03-03: RANDOMKEY has no routing key and no fan-out arm, so it
                        // is answered by shard 0 alone: nil although other shards hold keys.
                        let size = exec_generic(st, &a(&[b"DBSIZE"])).await;
                        matches!(size, Reply::Int(x) if x > 0) && ctx.tolerate(KF_RANDOMKEY)
                    }
                    _ => false,
                };
                if !ok {
                    return Err(format!(
                        "step #{} RANDOMKEY: 1 shard answers {}, {} shards answer {} (expected: nil iff the keyspace is empty, else an existing key)\n    program:\n{}",
                        i, r1.show(), n, rn.show(), show_program(&case.steps, i)
                    ));
                }
            }
            continue;
        }

        // ---- everything else: reply equality (up to order in unordered replies)
        let fast_read = is_fast_family_read(step, coerce);
        let r1 = normalise(&name, &exec_step(&reference, step, coerce).await);
        let mut resync = false;
        for (n, st) in &subjects {
            let rn = normalise(&name, &exec_step(st, step, coerce).await);
            if r1 == rn {
                continue;
            }
            // KF-C03-05: fast-family reads do not refresh the shard clock; after a clock step
            // without a TTL tick the N-shard instance may still serve a value whose deadline
            // has passed, while the single shard (which saw every generic command) does not.
            if fast_read && stale && stale_read_shape(&r1, &rn) && ctx.tolerate(KF_STALE) {
                resync = true;
                continue;
            }
            return Err(format!(
                "step #{} {}: replies differ\n    1 shard : {}\n    {} shards: {}\n{}    program:\n{}",
                i, show_step(step), r1.show(), n, rn.show(), cfg_note, show_program(&case.steps, i)
            ));
        }
        if resync {
            // re-synchronise exactly the affected aspect: let the TTL manager tick everywhere,
            // after which the same read must agree
            reference.evict_expired_all_shards().await;
            for (_, st) in &subjects {
                st.evict_expired_all_shards().await;
            }
            stale = false;
            let r1 = exec_step(&reference, step, coerce).await;
            for (n, st) in &subjects {
                let rn = exec_step(st, step, coerce).await;
                if r1 != rn {
                    return Err(format!(
                        "step #{} {}: replies still differ after a TTL tick on every shard\n    1 shard : {}\n    {} shards: {}\n    program:\n{}",
                        i, show_step(step), r1.show(), n, rn.show(), show_program(&case.steps, i)
                    ));
                }
            }
        }
    }

    // ---- final: TTL tick everywhere (so that no entry path reads through a stale shard
    // clock), aggregate dump equality, DBSIZE = dump size, and one home per key
    reference.evict_expired_all_shards().await;
    for (_, st) in &subjects {
        st.evict_expired_all_shards().await;
    }
    let d1 = dump_state(&reference).await;
    let mut all: Vec<(usize, &State, Dump)> = vec![(1, &reference, d1.clone())];
    for (n, st) in &subjects {
        let dn = dump_state(st).await;
        if dn != d1 {
            return Err(format!(
                "final keyspace differs between 1 shard and {} shards\n{}  1 shard:\n{}  {} shards:\n{}  program:\n{}",
                n, cfg_note, show_dump(&d1), n, show_dump(&dn), show_program(&case.steps, case.steps.len().saturating_sub(1))
            ));
        }
        all.push((*n, st, dn));
    }
    for (n, st, d) in &all {
        let size = exec_generic(st, &a(&[b"DBSIZE"])).await;
        if size != Reply::Int(d.len() as i64) {
            return Err(format!(
                "{} shard(s): DBSIZE = {} but {} keys are reachable through TYPE/GET/… (a key is stored on a shard where its name is not looked up)\n  dump:\n{}  program:\n{}",
                n, size.show(), d.len(), show_dump(d), show_program(&case.steps, case.steps.len().saturating_sub(1))
            ));
        }
        for k in pool_keys() {
            let kb = Bytes::copy_from_slice(&k);
            let g = exec_generic(st, &a(&[b"GET", &k])).await;
            let f = Reply::from_resp(&st.fast_get(kb.clone()).await);
            let p = Reply::from_resp(&st.pooled_fast_get(kb.clone()).await);
            let b = one(st.fast_batch_get_pipeline(vec![kb]).await);
            if g == f && f == p && p == b {
                continue;
            }
            // KF-C03-01 again: the fast-family router looks for this key on another shard
            if r.split(&k, *n) && f == p && p == b && ctx.tolerate(KF_HASH) {
                continue;
            }
            return Err(format!(
                "{} shard(s): key {:?} does not have one home: generic GET = {}, fast_get = {}, pooled_fast_get = {}, fast_batch_get_pipeline = {}\n  program:\n{}",
                n, vcore::show(&k), g.show(), f.show(), p.show(), b.show(),
                show_program(&case.steps, case.steps.len().saturating_sub(1))
            ));
        }
    }

    // ---- classification / non-trivial rule
    let mix = via_generic.intersection(&via_fast).next().is_some();
    let spread = case.shards.iter().any(|&n| {
        let s: BTreeSet<usize> = touched.iter().map(|k| r.generic(k, n)).collect();
        s.len() >= 2
    });
    if mix {
        ctx.label("path_mix_on_one_key");
    }
    if multi {
        ctx.label("multi_key_or_fanout");
    }
    if spread {
        ctx.label("keys_on_2plus_shards");
    }
    Ok(spread && (multi || mix))
}

// ---------------------------------------------------------------------------------------
// generators
// ---------------------------------------------------------------------------------------

fn api_opts() -> GenOpts {
    GenOpts {
        binary_names: false,
        random: false, // SPOP's choice is not a function of the program; RANDOMKEY is added below
        key_pool: KEY_POOL.len(),
        ..Default::default()
    }
}

const EVAL_INCR: &[u8] = b"return redis.call('INCR', KEYS[1])";
const EVAL_SETGET: &[u8] = b"redis.call('SET', KEYS[1], ARGV[1]); return redis.call('GET', KEYS[1])";
const EVAL_COPY: &[u8] =
    b"local v = redis.call('GET', KEYS[1]); if v then redis.call('SET', KEYS[2], v) end; return v";

fn extra_commands(o: &GenOpts) -> BoxedStrategy<Argv> {
    let k = || gen::key(o);
    prop_oneof![
        3 => Just(a(&[b"RANDOMKEY"])),
        // COUNT >= number of keys: the regime in which the sharded SCAN is shard-count independent
        3 => (prop_oneof![2 => Just(None), 1 => gen::pattern().prop_map(Some)],
              prop_oneof![Just(16u32), Just(17u32), Just(20u32), Just(32u32), Just(64u32), Just(1000u32)])
            .prop_map(|(p, c)| {
                let mut v = a(&[b"SCAN", b"0"]);
                if let Some(p) = p {
                    v.push(b"MATCH".to_vec());
                    v.push(p);
                }
                v.push(b"COUNT".to_vec());
                v.push(c.to_string().into_bytes());
                v
            }),
        2 => k().prop_map(|k| a(&[b"SORT", &k])),
        2 => (k(), k()).prop_map(|(k, d)| a(&[b"SORT", &k, b"STORE", &d])),
        2 => k().prop_map(|k| a(&[b"EVAL", EVAL_INCR, b"1", &k])),
        1 => (k(), gen::value()).prop_map(|(k, v)| a(&[b"EVAL", EVAL_SETGET, b"1", &k, &v])),
        2 => (k(), k()).prop_map(|(k, d)| a(&[b"EVAL", EVAL_COPY, b"2", &k, &d])),
    ]
    .boxed()
}

/// Scripts that read/write their KEYS[1] (index 4: no key at all, runs on shard 0)
const SCRIPTS: &[&[u8]] = &[
    b"return redis.call('GET', KEYS[1])",
    EVAL_INCR,
    EVAL_SETGET,
    b"return redis.call('EXISTS', KEYS[1])",
    b"return 7",
];
/// never sent with EVAL or SCRIPT LOAD: its sha is never in the cache
const NEVER_LOADED: &[u8] = b"return 'never loaded'";

fn sha_of(script: &[u8]) -> Vec<u8> {
    redis_sim::redis::lua::SharedScriptCache::compute_sha1(std::str::from_utf8(script).unwrap_or("")).into_bytes()
}

/// EVAL / EVALSHA argv for script `i` on key `k`
fn script_call(by_sha: bool, i: usize, k: &[u8], v: &[u8]) -> Argv {
    let body: Vec<u8> = if by_sha {
        if i >= SCRIPTS.len() { sha_of(NEVER_LOADED) } else { sha_of(SCRIPTS[i]) }
    } else {
        SCRIPTS[i.min(SCRIPTS.len() - 1)].to_vec()
    };
    let name: &[u8] = if by_sha { b"EVALSHA" } else { b"EVAL" };
    let i = i.min(SCRIPTS.len() - 1);
    match i {
        4 => a(&[name, &body, b"0"]),
        2 => a(&[name, &body, b"1", k, v]),
        _ => a(&[name, &body, b"1", k]),
    }
}

/// Commands that reach server-wide state which is not the keyspace, or that have no routing key
/// at all (ShardedActorState::execute sends those to shard 0 only): the script cache
/// (EVAL/EVALSHA/SCRIPT LOAD|EXISTS|FLUSH), CONFIG GET|SET|RESETSTAT, SELECT, ECHO, PING, WAIT,
/// COMMAND, FUNCTION FLUSH, CLIENT *, OBJECT *, DEBUG *, unknown commands. INFO and TIME are left
/// out (process id, memory, wall clock, and INFO prints num_shards by design).
fn server_commands(o: &GenOpts) -> BoxedStrategy<Argv> {
    let k = || gen::key(o);
    let sha = || (0usize..SCRIPTS.len() + 1).prop_map(|i| if i >= SCRIPTS.len() { sha_of(NEVER_LOADED) } else { sha_of(SCRIPTS[i]) });
    let param = || config_param();
    prop_oneof![
        6 => (0usize..SCRIPTS.len(), k(), gen::value()).prop_map(|(i, k, v)| script_call(false, i, &k, &v)),
        8 => (0usize..SCRIPTS.len() + 1, k(), gen::value()).prop_map(|(i, k, v)| script_call(true, i, &k, &v)),
        3 => (0usize..SCRIPTS.len()).prop_map(|i| a(&[b"SCRIPT", b"LOAD", SCRIPTS[i]])),
        4 => proptest::collection::vec(sha(), 1..4).prop_map(|shas| {
            let mut c = a(&[b"SCRIPT", b"EXISTS"]);
            c.extend(shas);
            c
        }),
        4 => Just(a(&[b"SCRIPT", b"FLUSH"])),
        4 => (param(), config_value()).prop_map(|(p, v)| a(&[b"CONFIG", b"SET", p, &v])),
        3 => prop_oneof![param().boxed(), Just(&b"hash-max-*"[..]).boxed(), Just(&b"*max*"[..]).boxed()].prop_map(|p| a(&[b"CONFIG", b"GET", p])),
        1 => Just(a(&[b"CONFIG", b"RESETSTAT"])),
        1 => prop_oneof![Just(&b"0"[..]), Just(&b"1"[..]), Just(&b"16"[..])].prop_map(|d| a(&[b"SELECT", d])),
        1 => gen::value().prop_map(|v| a(&[b"ECHO", &v])),
        1 => prop_oneof![Just(a(&[b"PING"])), Just(a(&[b"PING", b"hello"]))],
        1 => Just(a(&[b"WAIT", b"0", b"0"])),
        1 => prop_oneof![Just(a(&[b"COMMAND", b"COUNT"])), Just(a(&[b"FUNCTION", b"FLUSH"])), Just(a(&[b"NOSUCHCOMMAND", b"x"]))],
        1 => prop_oneof![
            Just(a(&[b"CLIENT", b"GETNAME"])),
            Just(a(&[b"CLIENT", b"ID"])),
            Just(a(&[b"CLIENT", b"SETNAME", b"c1"])),
            Just(a(&[b"CLIENT", b"INFO"])),
        ],
        3 => (prop_oneof![4 => Just(&b"ENCODING"[..]), 1 => Just(&b"REFCOUNT"[..]), 1 => Just(&b"IDLETIME"[..]), 1 => Just(&b"FREQ"[..])], k())
            .prop_map(|(sub, k)| a(&[b"OBJECT", sub, &k])),
        1 => prop_oneof![
            Just(a(&[b"OBJECT", b"HELP"])),
            Just(a(&[b"DEBUG", b"SLEEP", b"0"])),
            Just(a(&[b"DEBUG", b"SET-ACTIVE-EXPIRE", b"1"])),
        ],
        1 => k().prop_map(|k| a(&[b"DEBUG", b"OBJECT", &k])),
    ]
    .boxed()
}

/// Every parameter `ServerConfig::new` knows (src/redis/executor/config_ops.rs). On the unchanged
/// tree no executor code reads any of them outside CONFIG GET, but each executor (= each shard)
/// has its own copy and the key-less CONFIG SET reaches shard 0 only, so any reply that starts to
/// depend on one of them becomes shard-count dependent.
const CONFIG_PARAMS: &[&str] = &[
    // first 10: thresholds that reply-producing code is most likely to honour
    "set-max-listpack-entries", "hash-max-listpack-entries", "zset-max-listpack-entries", "set-max-intset-entries",
    "list-max-listpack-size", "list-max-ziplist-size", "hash-max-listpack-value", "zset-max-listpack-value",
    "list-compress-depth", "proto-max-bulk-len",
    "maxmemory", "maxmemory-policy", "active-expire-enabled", "save", "appendonly", "rdbcompression", "hz", "dynamic-hz",
    "timeout", "tcp-keepalive", "maxclients", "client-query-buffer-limit", "lua-time-limit", "lazyfree-lazy-eviction",
    "lazyfree-lazy-expire", "lazyfree-lazy-server-del", "min-replicas-to-write", "replica-serve-stale-data",
    "replica-read-only", "bind", "port", "databases", "loglevel", "logfile", "dir", "dbfilename", "requirepass",
    "activedefrag", "no-appendfsync-on-rewrite", "slave-lazy-flush", "tracking-table-max-keys", "close-on-oom",
    "repl-min-slaves-to-write", "latency-tracking", "close-files-after-invoked-defer", "slowlog-log-slower-than",
    "slowlog-max-len", "lfu-log-factor", "lfu-decay-time", "no-such-parameter",
];

fn config_param() -> BoxedStrategy<&'static [u8]> {
    prop_oneof![
        3 => (0usize..10).prop_map(|i| CONFIG_PARAMS[i].as_bytes()),
        2 => (0usize..CONFIG_PARAMS.len()).prop_map(|i| CONFIG_PARAMS[i].as_bytes()),
    ]
    .boxed()
}

fn config_value() -> BoxedStrategy<Vec<u8>> {
    prop_oneof![
        6 => (0u32..9).prop_map(|v| v.to_string().into_bytes()),
        1 => Just(b"64".to_vec()),
        1 => Just(b"-1".to_vec()),
        1 => prop_oneof![Just(b"yes".to_vec()), Just(b"no".to_vec())],
    ]
    .boxed()
}

/// aimed at config-dependent replies: set a threshold-like parameter to a small value, build a
/// value of 1..10 elements (or a short/long/integer string) on a generated key, then ask for
/// everything that describes the value's representation, and read the parameter back
fn config_probe(o: &GenOpts) -> BoxedStrategy<Vec<Argv>> {
    (config_param(), 0u32..7, gen::key(o), 0u8..6, 1usize..11, any::<bool>()).prop_map(|(p, v, k, ty, m, set_first)| {
        let set = a(&[b"CONFIG", b"SET", p, v.to_string().as_bytes()]);
        let mut out = Vec::new();
        if set_first {
            out.push(set.clone());
        }
        out.push(a(&[b"DEL", &k]));
        let members: Vec<&[u8]> = gen::MEMBER_POOL.iter().copied().take(m).collect();
        let mut build: Argv = match ty {
            0 => a(&[b"SADD", &k]),
            1 => a(&[b"HSET", &k]),
            2 => a(&[b"ZADD", &k]),
            3 => a(&[b"RPUSH", &k]),
            4 => a(&[b"SET", &k, b"12345"]),
            _ => a(&[b"SET", &k, &vec![b'x'; 4 * m + 30]]),
        };
        if ty <= 3 {
            for (i, mem) in members.iter().enumerate() {
                match ty {
                    1 => {
                        build.push(mem.to_vec());
                        build.push(b"v".to_vec());
                    }
                    2 => {
                        build.push(i.to_string().into_bytes());
                        build.push(mem.to_vec());
                    }
                    _ => build.push(mem.to_vec()),
                }
            }
        }
        out.push(build);
        if !set_first {
            out.push(set);
        }
        out.push(a(&[b"OBJECT", b"ENCODING", &k]));
        out.push(a(&[b"DEBUG", b"OBJECT", &k]));
        out.push(a(&[b"OBJECT", b"FREQ", &k]));
        out.push(a(&[b"TYPE", &k]));
        out.push(a(&[b"CONFIG", b"GET", p]));
        out
    })
    .boxed()
}

/// aimed at the "key-less command reaches shard 0 only" pattern for the script cache: run a
/// script on some key, change the cache through a key-less command, then look at it again both
/// through a key (EVALSHA on a generated key) and through shard 0 (SCRIPT EXISTS)
fn script_probe(o: &GenOpts) -> BoxedStrategy<Vec<Argv>> {
    (0usize..4, gen::key(o), gen::key(o), gen::value(), any::<bool>(), 0u8..3).prop_map(|(i, k1, k2, v, first_by_load, mid)| {
        let mut out = Vec::new();
        if first_by_load {
            out.push(a(&[b"SCRIPT", b"LOAD", SCRIPTS[i]]));
            out.push(script_call(true, i, &k1, &v));
        } else {
            out.push(script_call(false, i, &k1, &v));
        }
        out.push(a(&[b"SCRIPT", b"FLUSH"]));
        match mid {
            0 => {}
            1 => out.push(script_call(false, i, &k2, &v)), // the NOSCRIPT fallback dance
            _ => out.push(a(&[b"SCRIPT", b"LOAD", SCRIPTS[i]])),
        }
        out.push(script_call(true, i, &k1, &v));
        out.push(a(&[b"SCRIPT", b"EXISTS", &sha_of(SCRIPTS[i])]));
        out.push(script_call(true, i, &k2, &v));
        out
    })
    .boxed()
}

/// evidence label of a command that has no routing key / touches non-keyspace state
fn keyless_family(argv: &Argv) -> Option<String> {
    let name = cmd_name(argv);
    let sub = || argv.get(1).map(|s| String::from_utf8_lossy(s).to_uppercase()).unwrap_or_default();
    Some(match name.as_str() {
        "SCRIPT" | "CONFIG" | "CLIENT" | "COMMAND" | "FUNCTION" => format!("{} {}", name, sub()),
        "OBJECT" | "DEBUG" => format!("{} {}", name, sub()),
        "EVAL" | "EVALSHA" | "SELECT" | "ECHO" | "PING" | "WAIT" | "DBSIZE" | "FLUSHDB" | "FLUSHALL" | "KEYS" | "SCAN"
        | "RANDOMKEY" | "NOSUCHCOMMAND" | "MULTI" | "EXEC" | "DISCARD" | "WATCH" | "UNWATCH" => name,
        _ => return None,
    })
}

fn clock_ms() -> BoxedStrategy<u64> {
    prop_oneof![
        4 => 0u64..50,
        3 => 900u64..1100,
        2 => Just(1000u64),
        3 => 1u64..5000,
        1 => 5000u64..30000,
        1 => Just(3_600_000u64),
    ]
    .boxed()
}

/// Clock steps on the time scale of per-shard housekeeping (the TTL manager's 100 ms period, PX
/// deadlines of a few to a few hundred ms, 1 s for EX): several of them fit into one program, so
/// that the shards of an N-shard server — each of which only sees the commands routed to it —
/// get through *different* (instant, command) histories than the single shard that sees all.
fn clock_small() -> BoxedStrategy<u64> {
    prop_oneof![
        3 => 1u64..40,
        4 => 40u64..160,
        2 => 160u64..400,
        1 => 400u64..3000,
        1 => prop_oneof![Just(9u64), Just(10), Just(11), Just(99), Just(100), Just(101), Just(999), Just(1000), Just(1001)],
    ]
    .boxed()
}

fn path_strategy() -> BoxedStrategy<Path> {
    prop_oneof![
        3 => Just(Path::Generic),
        2 => Just(Path::Fast),
        2 => Just(Path::Pooled),
        2 => Just(Path::Batch),
    ]
    .boxed()
}

/// aim a generated data command at key `k` (argv[1] is the key of nearly every single-key command)
fn retarget(mut argv: Argv, k: &[u8]) -> Argv {
    if argv.len() >= 2 && KEY_POOL.iter().any(|p| *p == argv[1].as_slice()) {
        argv[1] = k.to_vec();
    }
    argv
}

/// A command whose reply says whether `k` exists (or how many keys do): the first access to a key
/// after its deadline, through every kind of command that has to decide that question — deleting,
/// conditional writes, type-specific reads and writes, metadata, two-key forms, the key-space
/// aggregates, a script, every GET entry path — or any generated data command aimed at `k`.
fn key_observer(o: &GenOpts, k: Vec<u8>) -> BoxedStrategy<Step> {
    let g = |argv: Argv| Step::Cmd { argv, path: Path::Generic };
    let k1 = k.clone();
    let k2 = k.clone();
    let k3 = k.clone();
    let k4 = k.clone();
    let k5 = k.clone();
    prop_oneof![
        // removal / existence
        6 => (0u8..6, gen::key(o)).prop_map(move |(sel, other)| {
            let k = &k1;
            g(match sel {
                0 => a(&[b"DEL", k]),
                1 => a(&[b"UNLINK", k]),
                2 => a(&[b"DEL", &other, k]),
                3 => a(&[b"EXISTS", k]),
                4 => a(&[b"EXISTS", k, &other, k]),
                _ => a(&[b"GETDEL", k]),
            })
        }),
        // metadata
        4 => (0u8..8).prop_map(move |sel| {
            let k = &k2;
            g(match sel {
                0 => a(&[b"TYPE", k]),
                1 => a(&[b"TTL", k]),
                2 => a(&[b"PTTL", k]),
                3 => a(&[b"PERSIST", k]),
                4 => a(&[b"PEXPIRE", k, b"1000"]),
                5 => a(&[b"EXPIRE", k, b"100"]),
                6 => a(&[b"OBJECT", b"ENCODING", k]),
                _ => a(&[b"DEBUG", b"OBJECT", k]),
            })
        }),
        // conditional and type-specific writes / reads
        8 => (0u8..20, gen::value(), gen::member(o)).prop_map(move |(sel, v, m)| {
            let k = &k3;
            g(match sel {
                0 => a(&[b"SETNX", k, &v]),
                1 => a(&[b"SET", k, &v, b"NX"]),
                2 => a(&[b"SET", k, &v, b"XX"]),
                3 => a(&[b"SET", k, &v, b"KEEPTTL"]),
                4 => a(&[b"GETSET", k, &v]),
                5 => a(&[b"APPEND", k, &v]),
                6 => a(&[b"STRLEN", k]),
                7 => a(&[b"INCR", k]),
                8 => a(&[b"SETBIT", k, b"7", b"1"]),
                9 => a(&[b"GETBIT", k, b"7"]),
                10 => a(&[b"RPUSH", k, &v]),
                11 => a(&[b"LLEN", k]),
                12 => a(&[b"LPOP", k]),
                13 => a(&[b"SADD", k, &m]),
                14 => a(&[b"SCARD", k]),
                15 => a(&[b"HSET", k, &m, &v]),
                16 => a(&[b"HLEN", k]),
                17 => a(&[b"ZADD", k, b"1", &m]),
                18 => a(&[b"ZCARD", k]),
                _ => a(&[b"EVAL", SCRIPTS[3], b"1", k]),
            })
        }),
        // two-key forms and key-space aggregates
        5 => (0u8..10, gen::key(o), gen::value()).prop_map(move |(sel, other, v)| {
            let k = &k4;
            g(match sel {
                0 => a(&[b"RENAME", k, k]),
                1 => a(&[b"RENAME", k, &other]),
                2 => a(&[b"RENAMENX", k, &other]),
                3 => a(&[b"MSETNX", k, &v]),
                4 => a(&[b"MGET", k, &other]),
                5 => a(&[b"DBSIZE"]),
                6 => a(&[b"KEYS", b"*"]),
                7 => a(&[b"SCAN", b"0", b"COUNT", b"1000"]),
                8 => a(&[b"RANDOMKEY"]),
                _ => a(&[b"MSET", k, &v]),
            })
        }),
        // every GET entry path
        4 => (path_strategy(), any::<bool>()).prop_map(move |(path, batch)| {
            if batch {
                Step::BatchGet { keys: vec![k5.clone()] }
            } else {
                Step::Cmd { argv: a(&[b"GET", &k5]), path }
            }
        }),
        // anything else the grammar knows, aimed at k
        6 => gen::data_command(o).prop_map(move |argv| Step::Cmd { argv: retarget(argv, &k), path: Path::Generic }),
    ]
    .boxed()
}

/// A command on some other generated key: it moves the clock (and whatever else a shard does when
/// a command arrives) of *its* shard only on the N-shard server, of the one shard on the reference.
fn bystander(o: &GenOpts) -> BoxedStrategy<Step> {
    prop_oneof![
        5 => gen::data_command(o).prop_map(|argv| Step::Cmd { argv, path: Path::Generic }),
        2 => (gen::key(o), path_strategy()).prop_map(|(k, path)| Step::Cmd { argv: a(&[b"GET", &k]), path }),
        2 => (gen::key(o), gen::value(), path_strategy()).prop_map(|(k, v, path)| Step::Cmd { argv: a(&[b"SET", &k, &v]), path }),
        1 => proptest::collection::vec((gen::key(o), gen::value()), 1..4).prop_map(|pairs| Step::BatchSet { pairs }),
    ]
    .boxed()
}

/// Aimed group `expiry_race`: a key gets a deadline; time then passes in several small steps
/// (mostly without a TTL-manager tick) with commands on other keys in between — so the key's shard
/// and the single reference shard have seen different commands at different instants; the deadline
/// is placed somewhere along that stretch (7 of 8) or after it; then the key is accessed for the
/// first time, 1–3 times, through `key_observer`. Steps before the write shift the histories too.
fn expiry_race(o: &GenOpts) -> BoxedStrategy<Vec<Step>> {
    let clock = || {
        (clock_small(), prop_oneof![5 => Just((false, false)), 1 => Just((true, false)), 1 => Just((true, true))])
            .prop_map(|(ms, (evict, actor))| Step::Clock { ms, evict, actor })
    };
    let o2 = o.clone();
    let hop = || (clock(), bystander(o));
    (
        gen::key(o),
        (gen::value(), gen::member(o), 0u8..7, any::<u16>(), 0u8..8),
        proptest::collection::vec(hop(), 0..3),
        proptest::collection::vec(hop(), 0..4),
        clock(),
    )
        .prop_flat_map(move |(k, (v, m, how, frac, beyond), pre, mid, last)| {
            let total: u64 = mid
                .iter()
                .map(|(c, _)| c)
                .chain(std::iter::once(&last))
                .map(|c| if let Step::Clock { ms, .. } = c { *ms } else { 0 })
                .sum();
            // deadline inside (0, total] — the key runs out somewhere along the way — or beyond it
            let ttl = if beyond == 0 { total + 1 + (frac as u64 & 63) } else { 1 + ((frac as u64 * total.max(1)) >> 16) };
            let t = ttl.to_string().into_bytes();
            let mut steps: Vec<Step> = Vec::new();
            for (c, b) in pre {
                steps.push(c);
                steps.push(b);
            }
            let g = |argv: Argv| Step::Cmd { argv, path: Path::Generic };
            match how {
                0 | 1 => steps.push(g(a(&[b"SET", &k, &v, b"PX", &t]))),
                2 => steps.push(g(a(&[b"PSETEX", &k, &t, &v]))),
                3 => {
                    steps.push(g(a(&[b"SET", &k, &v])));
                    steps.push(g(a(&[b"PEXPIRE", &k, &t])));
                }
                4 => {
                    steps.push(g(a(&[b"RPUSH", &k, &v])));
                    steps.push(g(a(&[b"PEXPIRE", &k, &t])));
                }
                5 => {
                    steps.push(g(a(&[b"HSET", &k, &m, &v])));
                    steps.push(g(a(&[b"PEXPIRE", &k, &t])));
                }
                _ => {
                    steps.push(g(a(&[b"SADD", &k, &m])));
                    steps.push(g(a(&[b"PEXPIRE", &k, &t])));
                }
            }
            for (c, b) in mid {
                steps.push(c);
                steps.push(b);
            }
            steps.push(last);
            proptest::collection::vec(key_observer(&o2, k), 1..4).prop_map(move |obs| {
                let mut s = steps.clone();
                s.extend(obs);
                s
            })
        })
        .boxed()
}

/// `dense`: a time-dense program — small clock steps (mostly without a TTL tick) are as frequent as
/// any other kind of step, so the generated PX/PEXPIRE deadlines (1..20 ms mostly) run out between
/// commands and arbitrary commands meet expired, not yet removed keys on shards with different
/// command histories.
fn step_strategy(dense: bool) -> BoxedStrategy<Vec<Step>> {
    let o = api_opts();
    let path = path_strategy;
    let single: BoxedStrategy<Step> = prop_oneof![
        50 => gen::data_command(&o).prop_map(|argv| Step::Cmd { argv, path: Path::Generic }),
        8 => extra_commands(&o).prop_map(|argv| Step::Cmd { argv, path: Path::Generic }),
        12 => server_commands(&o).prop_map(|argv| Step::Cmd { argv, path: Path::Generic }),
        14 => (gen::key(&o), path()).prop_map(|(k, path)| Step::Cmd { argv: a(&[b"GET", &k]), path }),
        14 => (gen::key(&o), gen::value(), path())
            .prop_map(|(k, v, path)| Step::Cmd { argv: a(&[b"SET", &k, &v]), path }),
        4 => proptest::collection::vec(gen::key(&o), 1..6).prop_map(|keys| Step::BatchGet { keys }),
        4 => proptest::collection::vec((gen::key(&o), gen::value()), 1..6)
            .prop_map(|pairs| Step::BatchSet { pairs }),
        8 => (clock_ms(), any::<bool>(), any::<bool>()).prop_map(|(ms, evict, actor)| Step::Clock { ms, evict, actor }),
    ]
    .boxed();
    let single: BoxedStrategy<Step> = if dense {
        prop_oneof![
            114 => single,
            30 => (clock_small(), prop_oneof![6 => Just((false, false)), 1 => Just((true, false)), 1 => Just((true, true))])
                .prop_map(|(ms, (evict, actor))| Step::Clock { ms, evict, actor }),
        ]
        .boxed()
    } else {
        single
    };
    // aimed at a tiny region: a deadline, a clock step around it (with or without the TTL
    // manager's tick), then a read of that key through a generated entry path
    let ttl_probe = (gen::key(&o), gen::value(), 1u64..40, 0u64..3, any::<bool>(), path(), any::<bool>(), any::<bool>()).prop_map(
        |(k, v, ttl, rel, evict, path, batch, actor)| {
            let ms = match rel {
                0 => ttl - 1,
                1 => ttl,
                _ => ttl + 1,
            };
            let read = if batch {
                Step::BatchGet { keys: vec![k.clone()] }
            } else {
                Step::Cmd { argv: a(&[b"GET", &k]), path }
            };
            vec![
                Step::Cmd { argv: a(&[b"SET", &k, &v, b"PX", ttl.to_string().as_bytes()]), path: Path::Generic },
                Step::Clock { ms, evict, actor },
                read,
            ]
        },
    );
    prop_oneof![
        40 => single.prop_map(|s| vec![s]),
        1 => ttl_probe,
        1 => script_probe(&o).prop_map(|cmds| cmds.into_iter().map(|argv| Step::Cmd { argv, path: Path::Generic }).collect()),
        1 => config_probe(&o).prop_map(|cmds| cmds.into_iter().map(|argv| Step::Cmd { argv, path: Path::Generic }).collect()),
        1 => expiry_race(&o),
    ]
    .boxed()
}

const QUICK_PAIRS: &[[usize; 2]] = &[
    [2, 4],
    [2, 16],
    [4, 8],
    [8, 64],
    [16, 64],
    [2, 64],
    [4, 16],
    [3, 7], // not admitted by PerformanceConfig::validate, accepted by ShardConfig
];

/// A configuration whose effective shard count is `n`: mostly `with_shards(n)`, otherwise any
/// field combination the constructors accept, incl. `initial` outside [min, max].
fn cfg_for(n: usize) -> BoxedStrategy<ShardCfg> {
    let pool = prop_oneof![
        3 => Just(None),
        1 => Just(Some((256usize, 64usize))),
        1 => Just(Some((1usize, 1usize))),
        1 => Just(Some((3usize, 0usize))),
    ];
    let flags = (any::<bool>(), any::<bool>(), prop_oneof![Just(10_000u64), Just(1u64)], pool);
    let shape = prop_oneof![
        // (initial, min, max)
        4 => Just((n, 1usize, 256usize)),
        3 => (0usize..n.max(1)).prop_map(move |i| (i, n, 256usize)),            // raised by min
        2 => prop_oneof![Just(n * 2), Just(n + 1), Just(300usize)].prop_map(move |i| (i, 1usize, n)), // capped by max
        1 => (0usize..400).prop_map(move |i| (i, n, n)),                       // min = max
        1 => (0usize..400, 1usize..4).prop_map(move |(i, d)| (i, n + d, n)),  // min > max: max wins
    ];
    prop_oneof![
        5 => Just(ShardCfg::plain(n)),
        5 => (shape, flags).prop_map(|((initial, min, max), (auto_scale, adaptive, load_check_ms, pool))| ShardCfg {
            initial, min, max, auto_scale, adaptive, load_check_ms, pool,
        }),
    ]
    .boxed()
}

fn api_case(thorough: bool) -> BoxedStrategy<ApiCase> {
    let ns: BoxedStrategy<Vec<usize>> = if thorough {
        prop_oneof![
            17 => Just(vec![2usize, 4, 8, 16, 64]),
            2 => Just(vec![3usize, 7, 5, 32, 128]),
            1 => Just(vec![2usize, 6, 12, 256]),
        ]
        .boxed()
    } else {
        prop_oneof![
            60 => any::<u16>().prop_map(|i| QUICK_PAIRS[(i as usize * QUICK_PAIRS.len()) >> 16].to_vec()),
            1 => Just(vec![2usize, 256]),
        ]
        .boxed()
    };
    let cfgs = ns.prop_flat_map(|ns| ns.into_iter().map(cfg_for).collect::<Vec<_>>());
    // 1 program in 6 is time-dense (see step_strategy)
    let groups = prop_oneof![
        5 => proptest::collection::vec(step_strategy(false), 1..40),
        1 => proptest::collection::vec(step_strategy(true), 1..40),
    ];
    (cfgs, groups)
        .prop_map(|(cfgs, groups)| ApiCase { shards: vec![], cfgs, steps: groups.into_iter().flatten().collect() })
        .boxed()
}

// ---------------------------------------------------------------------------------------
// connection-level twin
// ---------------------------------------------------------------------------------------

#[derive(Clone, Debug, Serialize, Deserialize)]
struct ConnCase {
    n: usize,
    /// default batching thresholds (true) or batching collectors switched off (false)
    batching: bool,
    cmds: Vec<Argv>,
    /// cut positions of the byte stream as fractions (u16 / 65536) of its length
    cuts: Vec<u16>,
    /// full shard configuration of the N-shard server (None: with_shards(n))
    #[serde(default)]
    cfg: Option<ShardCfg>,
    /// (min_pipeline_buffer, batch_threshold) of both connection handlers (None: see `batching`)
    #[serde(default)]
    conn_cfg: Option<(usize, usize)>,
}

fn conn_opts() -> GenOpts {
    GenOpts {
        binary_names: false,
        random: false,
        scan: false,   // SCAN needs follow-up KEYS to classify truncation: covered by api_diff
        expiry: false, // the hook takes a wall-clock ShardedActorState; keep time out of it
        key_pool: KEY_POOL.len(),
        ..Default::default()
    }
}

fn conn_case() -> BoxedStrategy<ConnCase> {
    let o = conn_opts();
    let k = || gen::key(&o);
    let get_name = || prop_oneof![3 => Just(&b"GET"[..]), 2 => Just(&b"get"[..]), 1 => Just(&b"Get"[..])];
    let set_name = || prop_oneof![3 => Just(&b"SET"[..]), 2 => Just(&b"set"[..]), 1 => Just(&b"Set"[..])];
    let group: BoxedStrategy<Vec<Argv>> = prop_oneof![
        30 => gen::data_command(&o).prop_map(|c| vec![c]),
        10 => (get_name(), k()).prop_map(|(n, k)| vec![a(&[n, &k])]),
        10 => (set_name(), k(), gen::value()).prop_map(|(n, k, v)| vec![a(&[n, &k, &v])]),
        6 => proptest::collection::vec(k(), 2..6)
            .prop_map(|ks| ks.iter().map(|k| a(&[b"GET", k])).collect()),
        6 => proptest::collection::vec((k(), gen::value()), 2..6)
            .prop_map(|kv| kv.iter().map(|(k, v)| a(&[b"SET", k, v])).collect()),
        3 => Just(vec![a(&[b"MULTI"])]),
        3 => Just(vec![a(&[b"EXEC"])]),
        1 => Just(vec![a(&[b"DISCARD"])]),
        2 => proptest::collection::vec(k(), 1..3).prop_map(|ks| {
            let mut c = a(&[b"WATCH"]);
            c.extend(ks);
            vec![c]
        }),
        1 => Just(vec![a(&[b"UNWATCH"])]),
        2 => Just(vec![a(&[b"RANDOMKEY"])]),
        2 => (k(), k()).prop_map(|(k, d)| vec![a(&[b"SORT", &k, b"STORE", &d])]),
        2 => (k(), k()).prop_map(|(k, d)| vec![a(&[b"EVAL", EVAL_COPY, b"2", &k, &d])]),
        2 => k().prop_map(|k| vec![a(&[b"EVAL", EVAL_INCR, b"1", &k])]),
        10 => server_commands(&o).prop_map(|c| vec![c]),
        2 => script_probe(&o),
        2 => config_probe(&o),
    ]
    .boxed();
    const NS: &[usize] = &[2, 4, 8, 16, 64, 3];
    let scfg = any::<u16>().prop_flat_map(|ni| cfg_for(NS[(ni as usize * NS.len()) >> 16]));
    let conn_cfg = prop_oneof![
        3 => Just(None),
        1 => (prop_oneof![Just(0usize), Just(30usize), Just(60usize), Just(200usize)], 1usize..5).prop_map(Some),
    ];
    (
        scfg,
        any::<bool>(),
        proptest::collection::vec(group, 1..16),
        proptest::collection::vec(any::<u16>(), 0..6),
        conn_cfg,
    )
        .prop_map(|(scfg, batching, groups, cuts, conn_cfg)| ConnCase {
            n: scfg.effective(),
            batching,
            cmds: groups.into_iter().flatten().collect(),
            cuts,
            cfg: Some(scfg),
            conn_cfg,
        })
        .boxed()
}

fn deep_sorted(r: &Reply) -> Reply {
    match r {
        Reply::Array(v) => {
            let mut v: Vec<Reply> = v.iter().map(deep_sorted).collect();
            v.sort();
            Reply::Array(v)
        }
        other => other.clone(),
    }
}

/// exactly the frames the connection's fast-path recogniser accepts
fn recognised_fast(argv: &Argv) -> bool {
    (argv.len() == 2 && (argv[0] == b"GET" || argv[0] == b"get"))
        || (argv.len() == 3 && (argv[0] == b"SET" || argv[0] == b"set"))
}

async fn run_server(scfg: &ShardCfg, cfg: ConnectionConfig, chunks: Vec<Vec<u8>>) -> (Vec<u8>, Dump) {
    let state = match scfg.perf() {
        Some(perf) => ShardedActorState::with_perf_config_and_time_source(
            &perf,
            scfg.shard_config(),
            redis_sim::io::ProductionTimeSource::new(),
        ),
        None => ShardedActorState::with_config(scfg.shard_config()),
    };
    let (stream, out) = ScriptedStream::new(chunks);
    verif_hooks::run_connection(stream, state.clone(), cfg).await;
    let bytes = out.lock().unwrap().clone();
    let dump = dump_async(
        |argv| {
            let st = state.clone();
            async move {
                match parse_zc(&argv) {
                    Ok(c) => Reply::from_resp(&st.execute(&c).await),
                    Err(e) => Reply::Error(e.into_bytes()),
                }
            }
        },
        &pool_keys(),
    )
    .await;
    (bytes, dump)
}

fn check_conn(case: &ConnCase, ctx: &mut CaseCtx<'_>) -> Result<(), String> {
    if case.n == 0 || case.n > 256 || case.cmds.is_empty() {
        return Ok(());
    }
    let r = routing();
    let scfg = case.cfg.clone().unwrap_or_else(|| ShardCfg::plain(case.n));
    let n = scfg.effective();
    if n == 0 || n > 256 {
        return Ok(());
    }
    let kf_hash_open = ctx.finding_open(KF_HASH);

    // ---- exclusions by construction (only while the findings are open), counted
    let mut cmds: Vec<Argv> = Vec::new();
    let mut in_multi = false;
    let mut touched: BTreeSet<Vec<u8>> = BTreeSet::new();
    let mut fast_touched: BTreeSet<Vec<u8>> = BTreeSet::new();
    let mut other_touched: BTreeSet<Vec<u8>> = BTreeSet::new();
    let mut multi = false;
    let mut txn = false;
    for c in &case.cmds {
        let mut c = c.clone();
        let name = cmd_name(&c);
        if let Some(f) = keyless_family(&c) {
            ctx.label(&format!("cmd:{}", f));
        }
        match name.as_str() {
            "MULTI" => {
                in_multi = true;
                txn = true;
            }
            "EXEC" | "DISCARD" => in_multi = false,
            // generator domain: RANDOMKEY's choice inside an EXEC reply cannot be normalised
            "RANDOMKEY" if in_multi => c = a(&[b"DBSIZE"]),
            _ => {}
        }
        if recognised_fast(&c) && !in_multi {
            if kf_hash_open && r.split(&c[1], n) && ctx.tolerate(KF_HASH) {
                // mixed case is not recognised by the fast path: generic routing
                c[0] = if c.len() == 2 { b"Get".to_vec() } else { b"Set".to_vec() };
                other_touched.insert(c[1].clone());
            } else {
                fast_touched.insert(c[1].clone());
            }
            touched.insert(c[1].clone());
        } else if let Ok(cmd) = parse_zc(&c) {
            let keys = cmd.get_keys();
            if unfanned_multikey(&cmd) && cross_shard(&keys, &[n], &r) {
                ctx.label("two_key_cross_shard");
                if ctx.tolerate(KF_TWOKEY) {
                    continue;
                }
            }
            if !matches!(cmd, Command::Keys(_)) {
                for k in &keys {
                    touched.insert(k.as_bytes().to_vec());
                    other_touched.insert(k.as_bytes().to_vec());
                }
            }
            if keys.iter().collect::<BTreeSet<_>>().len() >= 2 || fanout_command(&cmd) {
                multi = true;
            }
        }
        cmds.push(c);
    }
    if cmds.is_empty() {
        return Ok(());
    }

    let mut stream = Vec::new();
    for c in &cmds {
        stream.extend_from_slice(&encode_command(c));
    }
    let mut cuts: Vec<usize> = case
        .cuts
        .iter()
        .map(|&x| (x as usize * (stream.len() + 1)) >> 16)
        .collect();
    cuts.sort();
    cuts.dedup();
    let mut chunks = Vec::new();
    let mut last = 0;
    for c in cuts.into_iter().chain(std::iter::once(stream.len())) {
        if c > last {
            chunks.push(stream[last..c].to_vec());
            last = c;
        }
    }
    let cfg = if let Some((min_pipeline_buffer, batch_threshold)) = case.conn_cfg {
        ConnectionConfig {
            min_pipeline_buffer,
            batch_threshold,
            ..ConnectionConfig::default()
        }
    } else if case.batching {
        ConnectionConfig::default()
    } else {
        ConnectionConfig {
            min_pipeline_buffer: usize::MAX,
            ..ConnectionConfig::default()
        }
    };

    let (b1, d1) = vcore::block_on(run_server(&ShardCfg::plain(1), cfg.clone(), chunks.clone()));
    let (bn, dn) = vcore::block_on(run_server(&scfg, cfg, chunks));
    if !scfg.is_plain() {
        ctx.label("cfg:non_default_fields");
    }
    if scfg.effective() != scfg.initial {
        ctx.label("cfg:initial_outside_min_max");
    }
    let program = || {
        cmds.iter()
            .enumerate()
            .map(|(i, c)| format!("      #{:<3} {}\n", i, show_argv(c)))
            .collect::<String>()
    };
    let r1 = decode_stream(&b1).map_err(|(_, off, why)| {
        format!("1-shard server wrote a malformed reply stream at byte {}: {}", off, why)
    })?;
    let rn = decode_stream(&bn).map_err(|(_, off, why)| {
        format!("{}-shard server wrote a malformed reply stream at byte {}: {}", n, off, why)
    })?;
    if r1.len() != rn.len() {
        return Err(format!(
            "same byte stream: the 1-shard server wrote {} replies, the {}-shard server {}\n    program:\n{}",
            r1.len(), n, rn.len(), program()
        ));
    }
    let mapped = r1.len() == cmds.len();
    if !mapped {
        ctx.label("reply_count_differs_from_command_count");
    }
    for (i, (x, y)) in r1.iter().zip(rn.iter()).enumerate() {
        let name = if mapped { cmd_name(&cmds[i]) } else { String::new() };
        let same = if name == "RANDOMKEY" {
            match (x, y) {
                (Reply::Nil, Reply::Nil) | (Reply::Bulk(_), Reply::Bulk(_)) => true,
                (Reply::Bulk(_), Reply::Nil) => ctx.tolerate(KF_RANDOMKEY),
                _ => false,
            }
        } else if !mapped || name == "EXEC" {
            deep_sorted(x) == deep_sorted(y)
        } else {
            normalise(&name, x) == normalise(&name, y)
        };
        if !same {
            return Err(format!(
                "same byte stream: reply #{}{} differs\n    1 shard : {}\n    {} shards: {}\n    program (batching {}):\n{}",
                i,
                if mapped { format!(" ({})", show_argv(&cmds[i])) } else { String::new() },
                x.show(), n, y.show(),
                if case.batching { "on" } else { "off" },
                program()
            ));
        }
    }
    if d1 != dn {
        return Err(format!(
            "same byte stream: final keyspace differs between the 1-shard and the {}-shard server\n  1 shard:\n{}  {} shards:\n{}  program (batching {}):\n{}",
            n, show_dump(&d1), n, show_dump(&dn), if case.batching { "on" } else { "off" }, program()
        ));
    }

    let spread = touched.iter().map(|k| r.generic(k, n)).collect::<BTreeSet<_>>().len() >= 2;
    let mix = fast_touched.intersection(&other_touched).next().is_some();
    if mix {
        ctx.label("path_mix_on_one_key");
    }
    if txn {
        ctx.label("transaction");
    }
    if multi {
        ctx.label("multi_key_or_fanout");
    }
    ctx.label(&format!("n={}", n));
    if spread && (multi || mix || txn) {
        ctx.nontrivial(&serde_json::to_string(case).unwrap_or_default());
    }
    Ok(())
}

// ---------------------------------------------------------------------------------------
// probes: minimal reproducers built from the routing replica
// ---------------------------------------------------------------------------------------

fn key_where(pred: impl Fn(&[u8]) -> bool) -> Option<Vec<u8>> {
    pool_keys().into_iter().find(|k| pred(k))
}

fn cmd(parts: &[&[u8]]) -> Step {
    Step::Cmd {
        argv: a(parts),
        path: Path::Generic,
    }
}

fn main() {
    let args = vcore::parse_args();
    let s = Session::new(
        "C03",
        Level::Exploration,
        "one generated program (data commands incl. multi-key/two-key commands, KEYS/SCAN/DBSIZE/FLUSH*, RANDOMKEY, SORT, EVAL; \
         plain GET/SET through a generated entry path generic|fast|pooled|batch; batch pipelines; clock steps with/without TTL tick, 1 program in 6 time-dense: small clock steps as frequent as commands; aimed deadline / small-steps / first-access groups) \
         run on 1 shard and on N shards (quick: 2 of {2,4,8,16,64,3,7} per program; thorough: all of 2,4,8,16,64), plus the same byte \
         stream through two connection handlers differing in shard count. non-trivial = the keys touched lie on >= 2 shards (classified \
         with a replica of the code's hashers) AND the program contains a multi-key/two-key/fan-out command or uses generic and \
         fast-family entry paths on one key (conn_diff: or a MULTI block); distinct by full case content",
        &args,
    );
    let r = calibrate();
    let _ = ROUTING.set(r);
    s.note(
        "routing_replica",
        json!({"generic": format!("{:?}", r.generic), "fast": format!("{:?}", r.fast), "calibrated_against_a_shard0_view": r.calibrated}),
    );
    s.assume("key -> shard classification (used for the non-trivial rule and for known-finding exclusions, never as an oracle) replicates hash_key / hash_key_bytes: std DefaultHasher over <str as Hash> / <[u8] as Hash>, modulo N; calibrated against a public shard-0 view (RANDOMKEY while it only asks shard 0, else the first SCAN page) when one exists");
    s.assume("the TTL manager is modelled by evict_expired_all_shards at generated clock steps; both instances share one harness clock starting at 0");
    s.assume("the labels first_touch_after_deadline_no_tick* come from a harness-side note of deadlines set by syntactically recognised commands (SET PX|EX, PSETEX, SETEX, PEXPIRE, EXPIRE); classification only, never an oracle");
    s.assume("connection-level twin: the hook only accepts a wall-clock ShardedActorState, so expiry-bearing commands are not generated there");
    s.assume("SPOP is not generated (its choice is not a function of the program); RANDOMKEY is compared as nil-iff-empty plus membership");
    for &n in &[2usize, 4, 8, 16, 64] {
        let spread: BTreeSet<usize> = pool_keys().iter().map(|k| r.generic(k, n)).collect();
        if spread.len() < 2 {
            eprintln!("C03: key pool does not spread over {} shards", n);
            std::process::exit(2);
        }
    }

    // ---- probes
    let n16 = 16usize;
    let split_key = key_where(|k| r.split(k, n16)).unwrap_or_else(|| b"k0".to_vec());
    s.probe(
        KF_HASH,
        json!({"shards": 16, "steps": [format!("fast_set {} v", vcore::show(&split_key)), format!("GET {}", vcore::show(&split_key))]}),
        || {
            let case = ApiCase {
                shards: vec![n16],
                cfgs: vec![],
                steps: vec![
                    Step::Cmd { argv: a(&[b"SET", &split_key, b"v"]), path: Path::Fast },
                    cmd(&[b"GET", &split_key]),
                ],
            };
            let api = s.strict_eval(|ctx| check_api(&case, ctx)).err();
            let conn = ConnCase {
                n: n16,
                batching: false,
                cmds: vec![a(&[b"SET", &split_key, b"1"]), a(&[b"INCR", &split_key])],
                cuts: vec![],
                cfg: None,
                conn_cfg: None,
            };
            let conn = s.strict_eval(|ctx| check_conn(&conn, ctx)).err();
            match (api, conn) {
                (None, None) => None,
                (x, y) => Some(format!(
                    "{} || connection: {}",
                    x.unwrap_or_else(|| "(api: agrees)".into()).lines().take(4).collect::<Vec<_>>().join(" "),
                    y.unwrap_or_else(|| "(agrees)".into()).lines().take(4).collect::<Vec<_>>().join(" ")
                )),
            }
        },
    );
    // two keys on different shards (generic router) at 16 shards
    let ka = pool_keys()[0].clone();
    let kb = key_where(|k| r.generic(k, n16) != r.generic(&ka, n16)).unwrap_or_else(|| b"k1".to_vec());
    s.probe(
        KF_TWOKEY,
        json!({"shards": 16, "steps": [format!("RPUSH {} x", vcore::show(&ka)), format!("RPOPLPUSH {} {}", vcore::show(&ka), vcore::show(&kb)), format!("LRANGE {} 0 -1", vcore::show(&kb))]}),
        || {
            let mut what = Vec::new();
            let programs: Vec<(&str, Vec<Step>)> = vec![
                ("RPOPLPUSH", vec![cmd(&[b"RPUSH", &ka, b"x"]), cmd(&[b"RPOPLPUSH", &ka, &kb]), cmd(&[b"LRANGE", &kb, b"0", b"-1"])]),
                ("LMOVE", vec![cmd(&[b"RPUSH", &ka, b"x"]), cmd(&[b"LMOVE", &ka, &kb, b"LEFT", b"RIGHT"]), cmd(&[b"LLEN", &kb])]),
                ("RENAME", vec![cmd(&[b"SET", &ka, b"x"]), cmd(&[b"RENAME", &ka, &kb]), cmd(&[b"GET", &kb])]),
                ("RENAMENX", vec![cmd(&[b"SET", &ka, b"x"]), cmd(&[b"SET", &kb, b"y"]), cmd(&[b"RENAMENX", &ka, &kb])]),
                ("SORT STORE", vec![cmd(&[b"RPUSH", &ka, b"x"]), cmd(&[b"SORT", &ka, b"STORE", &kb]), cmd(&[b"LLEN", &kb])]),
                ("MSETNX", vec![cmd(&[b"SET", &kb, b"y"]), cmd(&[b"MSETNX", &ka, b"1", &kb, b"2"])]),
                ("EVAL 2 keys", vec![cmd(&[b"SET", &ka, b"x"]), cmd(&[b"EVAL", EVAL_COPY, b"2", &ka, &kb]), cmd(&[b"GET", &kb])]),
            ];
            for (name, steps) in programs {
                let case = ApiCase { shards: vec![n16], cfgs: vec![], steps };
                if let Err(e) = s.strict_eval(|ctx| check_api(&case, ctx)) {
                    what.push(format!("{}: {}", name, e.lines().take(3).collect::<Vec<_>>().join(" ")));
                }
            }
            if what.is_empty() {
                None
            } else {
                Some(what.join(" | "))
            }
        },
    );
    let off0 = key_where(|k| r.generic(k, n16) != 0).unwrap_or_else(|| b"k1".to_vec());
    s.probe(
        KF_RANDOMKEY,
        json!({"shards": 16, "steps": [format!("SET {} v", vcore::show(&off0)), "RANDOMKEY"]}),
        || {
            let case = ApiCase {
                shards: vec![n16],
                cfgs: vec![],
                steps: vec![cmd(&[b"SET", &off0, b"v"]), cmd(&[b"RANDOMKEY"])],
            };
            s.strict_eval(|ctx| check_api(&case, ctx)).err()
        },
    );
    s.probe(
        KF_SCAN,
        json!({"shards": 4, "steps": ["MSET <12 keys>", "SCAN 0"]}),
        || {
            let mut mset = a(&[b"MSET"]);
            for k in pool_keys().iter().take(12) {
                mset.push(k.clone());
                mset.push(b"v".to_vec());
            }
            let case = ApiCase {
                shards: vec![4],
                cfgs: vec![],
                steps: vec![Step::Cmd { argv: mset, path: Path::Generic }, cmd(&[b"SCAN", b"0"])],
            };
            s.strict_eval(|ctx| check_api(&case, ctx)).err()
        },
    );
    // stale shard clock: key a (both routers agree at 2 shards), key b on the other shard
    let sa = key_where(|k| !r.split(k, 2));
    let sb = sa
        .as_ref()
        .and_then(|x| key_where(|k| r.generic(k, 2) != r.generic(x, 2)));
    if let (Some(sa), Some(sb)) = (sa, sb) {
        s.probe(
            KF_STALE,
            json!({"shards": 2, "steps": [format!("SET {} v PX 10", vcore::show(&sa)), "clock += 20 ms (no TTL tick)", format!("GET {}", vcore::show(&sb)), format!("fast_get {}", vcore::show(&sa))]}),
            || {
                let case = ApiCase {
                    shards: vec![2],
                cfgs: vec![],
                    steps: vec![
                        cmd(&[b"SET", &sa, b"v", b"PX", b"10"]),
                        Step::Clock { ms: 20, evict: false, actor: false },
                        cmd(&[b"GET", &sb]),
                        Step::Cmd { argv: a(&[b"GET", &sa]), path: Path::Fast },
                    ],
                };
                s.strict_eval(|ctx| check_api(&case, ctx)).err()
            },
        );
    }

    // ---- searches
    let thorough = s.thorough();
    s.describe_check(
        "api_diff",
        "program on ShardedActorState<VerifTime>: 1 shard vs N shards, step-wise replies + final dump + one home per key",
    );
    s.run_cases("api_diff", s.scale(80_000, 1_000_000), || api_case(thorough), check_api);
    s.describe_check(
        "conn_diff",
        "same byte stream and segmentation through two connection handlers (1 shard vs N shards): reply streams + final dump",
    );
    s.run_cases("conn_diff", s.scale(40_000, 1_000_000), conn_case, check_conn);
    s.finish();
}
