//! C15 — RESP decoding is total, bounded, prefix-stable; replies re-decode to themselves.
//!
//! Checks (see DESIGN.md §C15):
//!   enum_short   exhaustive strings over a 12-symbol alphabet up to length 6 (quick) / 7
//!   gen_frames   grammar-based frames + mutations, whole-vs-prefix, alloc bound, strict twin
//!   gen_streams  several frames concatenated, fed in generated fragments through
//!                RespCodec::parse on an accumulating BytesMut (as the connection does)
//!   encoders     every reply the executor emits for generated commands, plus synthetic reply
//!                trees, through RespParser::encode / RespCodec::encode / the connection's
//!                encoder (hook) -> strict decoder -> identity
//!   child_*      deep nesting and huge length fields in a child process with a 2 MiB stack
//!                and an address-space limit (stack overflow / allocator abort = signal)

use bytes::BytesMut;
use proptest::prelude::*;
use redis_sim::redis::{RespCodec, RespParser, RespValue, RespValueZeroCopy};
use serde::{Deserialize, Serialize};
use serde_json::json;
use vcore::alloc_count::{measure, CountingAlloc};
use vcore::resp::{decode_reply, decode_stream, DecodeError, Reply};
use vcore::runner::catch;
use vcore::{CaseCtx, Level, Session};

#[global_allocator]
static ALLOC: CountingAlloc = CountingAlloc;

const ALPHABET: &[u8] = b"*$+-:0129\r\na";

/// allocation bound: peak net bytes during one decode call
fn alloc_bound(input_len: usize) -> usize {
    64 * input_len + 4096
}

#[derive(Clone, Debug, PartialEq)]
enum Out {
    /// value + consumed
    Frame(Reply, usize),
    NeedMore,
    Error(String),
}

fn zc_to_reply(v: &RespValueZeroCopy) -> Reply {
    match v {
        RespValueZeroCopy::SimpleString(b) => Reply::Simple(b.to_vec()),
        RespValueZeroCopy::Error(b) => Reply::Error(b.to_vec()),
        RespValueZeroCopy::Integer(i) => Reply::Int(*i),
        RespValueZeroCopy::BulkString(None) => Reply::Nil,
        RespValueZeroCopy::BulkString(Some(b)) => Reply::Bulk(b.to_vec()),
        RespValueZeroCopy::Array(None) => Reply::NilArray,
        RespValueZeroCopy::Array(Some(a)) => Reply::Array(a.iter().map(zc_to_reply).collect()),
    }
}

fn reply_to_zc(r: &Reply) -> RespValueZeroCopy {
    use bytes::Bytes;
    match r {
        Reply::Simple(b) => RespValueZeroCopy::SimpleString(Bytes::copy_from_slice(b)),
        Reply::Error(b) => RespValueZeroCopy::Error(Bytes::copy_from_slice(b)),
        Reply::Int(i) => RespValueZeroCopy::Integer(*i),
        Reply::Nil => RespValueZeroCopy::BulkString(None),
        Reply::Bulk(b) => RespValueZeroCopy::BulkString(Some(Bytes::copy_from_slice(b))),
        Reply::NilArray => RespValueZeroCopy::Array(None),
        Reply::Array(a) => RespValueZeroCopy::Array(Some(a.iter().map(reply_to_zc).collect())),
    }
}

fn reply_to_resp(r: &Reply) -> Option<RespValue> {
    use std::borrow::Cow;
    Some(match r {
        Reply::Simple(b) => RespValue::SimpleString(Cow::Owned(String::from_utf8(b.clone()).ok()?)),
        Reply::Error(b) => RespValue::Error(Cow::Owned(String::from_utf8(b.clone()).ok()?)),
        Reply::Int(i) => RespValue::Integer(*i),
        Reply::Nil => RespValue::BulkString(None),
        Reply::Bulk(b) => RespValue::BulkString(Some(b.clone())),
        Reply::NilArray => RespValue::Array(None),
        Reply::Array(a) => RespValue::Array(Some(
            a.iter().map(reply_to_resp).collect::<Option<Vec<_>>>()?,
        )),
    })
}

/// RespCodec::parse on a fresh buffer holding exactly `input`.
fn run_codec(input: &[u8]) -> Result<(Out, usize), String> {
    let mut buf = BytesMut::from(input);
    let before = buf.len();
    let (r, peak, _largest) = measure(|| catch(|| RespCodec::parse(&mut buf)));
    let r = r?;
    let after = buf.len();
    let out = match r {
        Ok(Some(v)) => {
            if after > before {
                return Err(format!("buffer grew from {} to {}", before, after));
            }
            Out::Frame(zc_to_reply(&v), before - after)
        }
        Ok(None) => {
            if after != before {
                return Err(format!(
                    "RespCodec::parse answered 'need more' but consumed {} bytes",
                    before - after
                ));
            }
            Out::NeedMore
        }
        Err(e) => Out::Error(e),
    };
    Ok((out, peak))
}

/// RespParser::parse (simulation decoder). Its Err conflates "incomplete" and "malformed".
fn run_parser(input: &[u8]) -> Result<(Out, usize), String> {
    let (r, peak, _largest) = measure(|| catch(|| RespParser::parse(input)));
    let r = r?;
    Ok((
        match r {
            Ok((v, n)) => Out::Frame(Reply::from_resp(&v), n),
            Err(e) => Out::Error(e),
        },
        peak,
    ))
}

/// Is the finding "unvalidated array length pre-allocates" the cause? (exact matcher:
/// input starts an array whose declared length exceeds the bytes that follow)
fn check_one_input(w: &[u8], ctx: &mut CaseCtx<'_>) -> Result<(), String> {
    let (codec, codec_peak) = run_codec(w).map_err(|e| format!("RespCodec::parse: {}", e))?;
    let (parser, parser_peak) = run_parser(w).map_err(|e| format!("RespParser::parse: {}", e))?;

    for (name, out) in [("RespCodec", &codec), ("RespParser", &parser)] {
        if let Out::Frame(_, n) = out {
            if *n > w.len() || *n == 0 {
                return Err(format!(
                    "{}: consumed {} of {} bytes (over-read or empty frame)",
                    name,
                    n,
                    w.len()
                ));
            }
        }
    }
    for (name, peak) in [("RespCodec", codec_peak), ("RespParser", parser_peak)] {
        if peak > alloc_bound(w.len()) {
            return Err(format!(
                "{}: decoding {} bytes allocated {} bytes (bound {}): allocation follows an unvalidated length field",
                name,
                w.len(),
                peak,
                alloc_bound(w.len())
            ));
        }
    }

    // strict twin: where the strict RESP2 decoder accepts the leading frame, both decoders
    // must return exactly that value and that length.
    match decode_reply(w) {
        Ok((v, n)) => {
            ctx.label("strict_accepts");
            for (name, out) in [("RespCodec", &codec), ("RespParser", &parser)] {
                match out {
                    Out::Frame(v2, n2) if *v2 == v && *n2 == n => {}
                    Out::Frame(Reply::Simple(_), _) | Out::Frame(Reply::Error(_), _)
                        if name == "RespParser" && !is_utf8_frame(&v) =>
                    {
                        // the simulation decoder stores simple strings as String (lossy for
                        // non-UTF-8 status lines); status lines are ASCII in practice
                        ctx.abstain();
                    }
                    other => {
                        if name == "RespParser" && !is_utf8_frame(&v) {
                            ctx.abstain();
                            continue;
                        }
                        return Err(format!(
                            "{} disagrees with the strict decoder on a well-formed frame: strict = ({}, {}), got {:?}",
                            name,
                            v.show(),
                            n,
                            other
                        ));
                    }
                }
            }
        }
        Err(DecodeError::Incomplete) => {
            ctx.label("strict_incomplete");
            // a strict prefix of a well-formed frame must not be reported as a complete
            // frame by the production decoder
            if let Out::Frame(v, n) = &codec {
                return Err(format!(
                    "RespCodec returned a frame ({}, {}) from input the strict decoder finds incomplete",
                    v.show(),
                    n
                ));
            }
        }
        Err(DecodeError::Malformed(_)) => {
            ctx.label("strict_malformed");
        }
    }

    // one-step prefix stability (the enumeration / the caller covers all prefixes by
    // induction): compare with the input minus its last byte.
    if !w.is_empty() {
        let p = &w[..w.len() - 1];
        let (codec_p, _) = run_codec(p).map_err(|e| format!("RespCodec::parse(prefix): {}", e))?;
        let (parser_p, _) =
            run_parser(p).map_err(|e| format!("RespParser::parse(prefix): {}", e))?;
        match (&codec_p, &codec) {
            (Out::NeedMore, _) => {}
            (Out::Frame(v, n), Out::Frame(v2, n2)) if v == v2 && n == n2 => {}
            (Out::Error(_), Out::Error(_)) => {}
            (a, b) => {
                return Err(format!(
                    "RespCodec is not prefix-stable: on the input minus its last byte it says {:?}, on the input it says {:?}",
                    a, b
                ))
            }
        }
        match (&parser_p, &parser) {
            (Out::Error(_), _) => {}
            (Out::Frame(v, n), Out::Frame(v2, n2)) if v == v2 && n == n2 => {}
            (a, b) => {
                return Err(format!(
                    "RespParser is not prefix-stable: on the input minus its last byte it says {:?}, on the input it says {:?}",
                    a, b
                ))
            }
        }
    }

    // a frame returned by the production decoder re-decodes identically from exactly its bytes
    if let Out::Frame(v, n) = &codec {
        let (again, _) = run_codec(&w[..*n]).map_err(|e| format!("RespCodec::parse(frame): {}", e))?;
        if again != Out::Frame(v.clone(), *n) {
            return Err(format!(
                "RespCodec: frame of {} bytes does not re-decode to itself: {:?}",
                n, again
            ));
        }
    }
    Ok(())
}

fn deep_sorted(r: &Reply) -> Reply {
    match r {
        Reply::Array(a) => {
            let mut v: Vec<Reply> = a.iter().map(deep_sorted).collect();
            v.sort();
            Reply::Array(v)
        }
        other => other.clone(),
    }
}

fn is_utf8_frame(r: &Reply) -> bool {
    match r {
        Reply::Simple(b) | Reply::Error(b) => std::str::from_utf8(b).is_ok(),
        Reply::Array(a) => a.iter().all(is_utf8_frame),
        _ => true,
    }
}

// ---------------------------------------------------------------------------------------
// generated frames
// ---------------------------------------------------------------------------------------

#[derive(Clone, Debug, Serialize, Deserialize)]
struct BytesCase {
    bytes: Vec<u8>,
}

fn reply_tree() -> impl Strategy<Value = Reply> {
    let line = proptest::collection::vec(
        prop_oneof![
            10 => (0x20u8..0x7f),
            1 => Just(b'\t'),
        ],
        0..12,
    );
    let leaf = prop_oneof![
        3 => line.clone().prop_map(Reply::Simple),
        2 => line.prop_map(Reply::Error),
        3 => prop_oneof![
            (-5i64..6), Just(i64::MAX), Just(i64::MIN), any::<i64>()
        ].prop_map(Reply::Int),
        4 => proptest::collection::vec(any::<u8>(), 0..24).prop_map(Reply::Bulk),
        1 => Just(Reply::Bulk(b"\r\n".to_vec())),
        1 => Just(Reply::Nil),
        1 => Just(Reply::NilArray),
    ];
    leaf.prop_recursive(4, 24, 5, |inner| {
        proptest::collection::vec(inner, 0..5).prop_map(Reply::Array)
    })
}

/// mutation of an encoded frame, aimed at the grammar
fn mutated_frame() -> impl Strategy<Value = Vec<u8>> {
    (reply_tree(), 0u8..16, any::<u16>(), any::<u8>()).prop_map(|(t, kind, pos, byte)| {
        let mut enc = Vec::new();
        t.encode(&mut enc);
        let n = enc.len().max(1);
        let at = (pos as usize * n) >> 16;
        match kind {
            0..=3 => {} // unmodified
            4 => {
                enc.truncate(at);
            }
            5 => {
                if at < enc.len() {
                    enc[at] = byte;
                }
            }
            6 => {
                if at < enc.len() {
                    enc.remove(at);
                }
            }
            7 => enc.insert(at.min(enc.len()), byte),
            8 => {
                // negative length on the first header
                if let Some(p) = enc.iter().position(|&b| b == b'$' || b == b'*') {
                    enc.splice(p + 1..p + 1, b"-".iter().copied());
                }
            }
            9 => {
                // leading zeros / plus sign on a number
                if let Some(p) = enc.iter().position(|&b| b == b'$' || b == b'*' || b == b':') {
                    let ins: &[u8] = if byte & 1 == 0 { b"0" } else { b"+" };
                    enc.splice(p + 1..p + 1, ins.iter().copied());
                }
            }
            10 => {
                // length field larger than what follows (kept <= 2^20 in-process)
                if let Some(p) = enc.iter().position(|&b| b == b'$' || b == b'*') {
                    let big = format!("{}", 1000 + (byte as usize) * 4000);
                    enc.splice(p + 1..p + 1, big.bytes());
                }
            }
            11 => {
                // CR without LF
                if let Some(p) = enc.iter().position(|&b| b == b'\n') {
                    enc[p] = byte;
                }
            }
            12 => {
                // i64 overflow in a number
                if let Some(p) = enc.iter().position(|&b| b == b':' || b == b'$' || b == b'*') {
                    enc.splice(p + 1..p + 1, b"99999999999999999999".iter().copied());
                }
            }
            13 => {
                // lone CR inside a line
                if let Some(p) = enc.iter().position(|&b| b == b'+' || b == b'-') {
                    enc.insert(p + 1, b'\r');
                }
            }
            14 => {
                // moderate nesting
                let depth = 1 + (byte as usize % 64);
                let mut v = Vec::new();
                for _ in 0..depth {
                    v.extend_from_slice(b"*1\r\n");
                }
                v.extend_from_slice(&enc);
                enc = v;
            }
            _ => {
                enc.extend_from_slice(&[byte, b'\r', b'\n']);
            }
        }
        enc
    })
}

// ---------------------------------------------------------------------------------------
// streams in fragments
// ---------------------------------------------------------------------------------------

#[derive(Clone, Debug, Serialize, Deserialize)]
struct StreamCase {
    frames: Vec<Reply>,
    /// cut positions as fractions of the stream length (u16 / 65536)
    cuts: Vec<u16>,
}

fn feed_fragments(stream: &[u8], cuts: &[usize]) -> Result<Vec<Reply>, String> {
    let mut buf = BytesMut::new();
    let mut frames = Vec::new();
    let mut last = 0usize;
    let mut bounds: Vec<usize> = cuts.to_vec();
    bounds.push(stream.len());
    for &c in &bounds {
        if c < last {
            continue;
        }
        buf.extend_from_slice(&stream[last..c]);
        last = c;
        loop {
            match catch(|| RespCodec::parse(&mut buf))? {
                Ok(Some(v)) => frames.push(zc_to_reply(&v)),
                Ok(None) => break,
                Err(e) => return Err(format!("protocol error '{}' after {} frames", e, frames.len())),
            }
        }
    }
    if !buf.is_empty() {
        return Err(format!(
            "{} bytes left undecoded after the whole stream was fed ({} frames decoded)",
            buf.len(),
            frames.len()
        ));
    }
    Ok(frames)
}

// ---------------------------------------------------------------------------------------
// encoders
// ---------------------------------------------------------------------------------------

#[derive(Clone, Debug, Serialize, Deserialize)]
struct EncCase {
    value: Reply,
}

#[derive(Clone, Debug, Serialize, Deserialize)]
struct ExecEncCase {
    cmds: Vec<Vec<Vec<u8>>>,
}

/// What must arrive on the wire for an emitted value: the value itself, except that CR/LF
/// inside a status or error line (which RESP cannot represent) appear as spaces. Identity
/// on every value without such bytes.
fn wire_value(v: &Reply) -> Reply {
    let clean = |b: &Vec<u8>| -> Vec<u8> {
        b.iter()
            .map(|&c| if c == b'\r' || c == b'\n' { b' ' } else { c })
            .collect()
    };
    match v {
        Reply::Simple(b) => Reply::Simple(clean(b)),
        Reply::Error(b) => Reply::Error(clean(b)),
        Reply::Array(a) => Reply::Array(a.iter().map(wire_value).collect()),
        other => other.clone(),
    }
}

fn check_encoders(orig: &Reply) -> Result<(), String> {
    // RespCodec::encode
    let zc = reply_to_zc(orig);
    let v = &wire_value(orig);
    let enc = catch(|| RespCodec::encode(&zc))?;
    match decode_reply(&enc) {
        Ok((back, n)) if back == *v && n == enc.len() => {}
        other => {
            return Err(format!(
                "RespCodec::encode({}) = {:?} does not decode back to the value: {:?}",
                v.show(),
                vcore::show(&enc),
                other
            ))
        }
    }
    // RespParser::encode (String-based simple strings: only UTF-8 values are constructible)
    if let Some(rv) = reply_to_resp(orig) {
        let enc = catch(|| RespParser::encode(&rv))?;
        match decode_reply(&enc) {
            Ok((back, n)) if back == *v && n == enc.len() => {}
            other => {
                return Err(format!(
                    "RespParser::encode({}) = {:?} does not decode back to the value: {:?}",
                    v.show(),
                    vcore::show(&enc),
                    other
                ))
            }
        }
        // and the server's own decoders read it back too
        let (out, _) = run_codec(&enc)?;
        if out != Out::Frame(v.clone(), enc.len()) {
            return Err(format!(
                "RespCodec::parse(RespParser::encode({})) = {:?}",
                v.show(),
                out
            ));
        }
        let (out, _) = run_parser(&enc)?;
        if out != Out::Frame(v.clone(), enc.len()) {
            return Err(format!(
                "RespParser::parse(RespParser::encode({})) = {:?}",
                v.show(),
                out
            ));
        }
    }
    Ok(())
}

/// Replies the server emits for generated commands: executed directly and through the
/// connection handler (whose private encoder writes the bytes); the strict decoder must read
/// the connection's bytes back as exactly the direct replies.
fn check_exec_encoders(case: &ExecEncCase, ctx: &mut CaseCtx<'_>) -> Result<(), String> {
    use redis_sim::production::{verif_hooks, ConnectionConfig, ShardedActorState};
    use vcore::stream::ScriptedStream;
    let cmds = &case.cmds;
    if cmds.is_empty() {
        return Ok(());
    }
    // direct replies
    let direct: Vec<Reply> = vcore::block_on(async {
        let state = ShardedActorState::with_shards(1);
        let mut out = Vec::new();
        for a in cmds {
            let r = match vcore::resp::parse_zc(a) {
                Ok(cmd) => Reply::from_resp(&state.execute(&cmd).await),
                Err(e) => Reply::Error(e.into_bytes()),
            };
            out.push(r);
        }
        out
    });
    // each direct reply through both public encoders
    let mut interesting = false;
    for r in &direct {
        if matches!(r, Reply::Array(a) if !a.is_empty()) || r.is_error() {
            interesting = true;
        }
        check_encoders(r)?;
    }
    // through the connection's encoder: one command per read, batching off
    let chunks: Vec<Vec<u8>> = cmds.iter().map(|a| vcore::resp::encode_command(a)).collect();
    let bytes = vcore::block_on(async {
        let state = ShardedActorState::with_shards(1);
        let (stream, out) = ScriptedStream::new(chunks);
        let cfg = ConnectionConfig {
            min_pipeline_buffer: usize::MAX,
            ..ConnectionConfig::default()
        };
        verif_hooks::run_connection(stream, state, cfg).await;
        let b = out.lock().unwrap().clone();
        b
    });
    match decode_stream(&bytes) {
        Ok(replies) => {
            if replies != direct.iter().map(wire_value).collect::<Vec<_>>() {
                // The connection answers a few commands itself (parse errors get an "ERR "
                // prefix policy of its own); only compare where the reply shape is produced
                // by the executor: report only a *decoding* discrepancy, i.e. count mismatch
                // or a reply that differs although the direct reply is not an error.
                if replies.len() != direct.len() {
                    return Err(format!(
                        "connection wrote {} replies for {} commands; bytes {:?}",
                        replies.len(),
                        direct.len(),
                        vcore::show(&bytes)
                    ));
                }
                for (i, (a, b)) in replies.iter().zip(direct.iter()).enumerate() {
                    // two server instances iterate their hash maps in different orders:
                    // unordered replies (KEYS, SMEMBERS, HGETALL, SCAN, …) are compared as
                    // multisets — the encoder is what is being checked here, not the order
                    if deep_sorted(a) != deep_sorted(&wire_value(b)) && !(a.is_error() && b.is_error()) {
                        return Err(format!(
                            "command #{} {}: connection encoder decoded to {} but the executor replied {}",
                            i,
                            vcore::resp::show_argv(&cmds[i]),
                            a.show(),
                            b.show()
                        ));
                    }
                }
            }
        }
        Err((sofar, off, why)) => {
            return Err(format!(
                "connection output is not a well-formed reply stream at byte {} ({}); {} replies decoded; bytes {:?}",
                off,
                why,
                sofar.len(),
                vcore::show(&bytes)
            ))
        }
    }
    if interesting && cmds.len() >= 3 {
        let kinds: Vec<String> = cmds.iter().map(|c| vcore::gen::cmd_name(c)).collect();
        ctx.nontrivial(&kinds);
    }
    Ok(())
}

// ---------------------------------------------------------------------------------------
// child process cases (stack depth, huge lengths)
// ---------------------------------------------------------------------------------------

#[derive(Clone, Debug, Serialize, Deserialize)]
struct SizeCase {
    kind: String,
    n: usize,
}

#[derive(Clone, Debug, Serialize, Deserialize)]
struct ChildCase {
    kind: String,
    n: u64,
}

fn child_input(c: &ChildCase) -> Vec<u8> {
    match c.kind.as_str() {
        "nest" => {
            let mut v = Vec::with_capacity(c.n as usize * 4 + 8);
            for _ in 0..c.n {
                v.extend_from_slice(b"*1\r\n");
            }
            v.extend_from_slice(b":1\r\n");
            v
        }
        "nest_open" => {
            let mut v = Vec::with_capacity(c.n as usize * 4);
            for _ in 0..c.n {
                v.extend_from_slice(b"*1\r\n");
            }
            v
        }
        "array_len" => format!("*{}\r\n", c.n).into_bytes(),
        "array_len_elems" => format!("*{}\r\n:1\r\n:2\r\n", c.n).into_bytes(),
        "bulk_len" => format!("${}\r\nabc\r\n", c.n).into_bytes(),
        "neg_array" => format!("*-{}\r\n", c.n).into_bytes(),
        "neg_bulk" => format!("$-{}\r\nabc\r\n", c.n).into_bytes(),
        _ => Vec::new(),
    }
}

/// child mode: decode the input on a 2 MiB-stack thread (tokio's default worker stack) under
/// an address-space limit; exit 0 = returned, 3 = panicked; a signal = crashed.
fn child_main(kind: &str, n: u64, which: &str) -> ! {
    unsafe {
        let lim = libc::rlimit {
            rlim_cur: 3 << 30,
            rlim_max: 3 << 30,
        };
        libc::setrlimit(libc::RLIMIT_AS, &lim);
    }
    let input = child_input(&ChildCase {
        kind: kind.to_string(),
        n,
    });
    let which = which.to_string();
    let h = std::thread::Builder::new()
        .stack_size(2 << 20)
        .spawn(move || {
            let r = std::panic::catch_unwind(|| {
                if which == "codec" {
                    let mut b = BytesMut::from(&input[..]);
                    let _ = RespCodec::parse(&mut b);
                } else {
                    let _ = RespParser::parse(&input);
                }
            });
            r.is_ok()
        })
        .unwrap();
    match h.join() {
        Ok(true) => std::process::exit(0),
        _ => std::process::exit(3),
    }
}

fn run_child(c: &ChildCase, which: &str) -> Result<(), String> {
    let exe = std::env::current_exe().map_err(|e| e.to_string())?;
    let out = std::process::Command::new(exe)
        .args(["child", &c.kind, &c.n.to_string(), which])
        .output()
        .map_err(|e| format!("spawn: {}", e))?;
    use std::os::unix::process::ExitStatusExt;
    if let Some(sig) = out.status.signal() {
        return Err(format!(
            "{} decoder killed by signal {} on input kind={} n={} ({})",
            which,
            sig,
            c.kind,
            c.n,
            if sig == 11 || sig == 7 { "stack overflow" } else { "abort (allocation failure or stack guard)" }
        ));
    }
    match out.status.code() {
        Some(0) => Ok(()),
        Some(3) => Err(format!(
            "{} decoder panicked on input kind={} n={}: {}",
            which,
            c.kind,
            c.n,
            String::from_utf8_lossy(&out.stderr).lines().next().unwrap_or("")
        )),
        other => Err(format!("child exited with {:?}", other)),
    }
}

fn main() {
    let args = vcore::parse_args();
    if args.rest.first().map(|s| s.as_str()) == Some("child") {
        let kind = args.rest.get(1).cloned().unwrap_or_default();
        let n: u64 = args.rest.get(2).and_then(|s| s.parse().ok()).unwrap_or(0);
        let which = args.rest.get(3).cloned().unwrap_or_default();
        child_main(&kind, n, &which);
    }
    let s = Session::new(
        "C15",
        Level::Exploration,
        "inputs: (a) every string up to length 6 (quick) / 7 (thorough) over the alphabet {* $ + - : 0 1 2 9 CR LF a}; \
         (b) encoded reply trees with one grammar-aimed mutation; (c) streams of frames cut into generated fragments; \
         (d) replies emitted by the executor for generated commands and synthetic reply trees through every encoder; \
         (e) deep nesting / huge length fields in a child process. non-trivial = the input contains a length field ('$' or '*' header) \
         or is one edit away from a well-formed frame; distinct by input bytes (a,b,e), by (frames,cuts) (c), by command-kind sequence (d)",
        &args,
    );
    s.assume("strict RESP2 reply grammar as the reference: line types end at the first CRLF and contain no bare CR/LF");
    s.assume("allocation bound per decode call: peak net heap <= 64*len + 4096 bytes (counting global allocator, per thread)");

    // ---- known-finding probes (deterministic reproducers)
    s.probe(
        "KF-C15-01",
        json!({"input": "$-2\\r\\n / *-2\\r\\n"}),
        || {
            for inp in [&b"$-2\r\n"[..], b"*-2\r\n", b"$-5\r\nabc\r\n", b"*-9\r\n:1\r\n"] {
                for (name, r) in [("RespCodec", run_codec(inp).map(|_| ())), ("RespParser", run_parser(inp).map(|_| ()))] {
                    if let Err(e) = r {
                        return Some(format!("{} on {:?}: {}", name, vcore::show(inp), e));
                    }
                }
            }
            None
        },
    );
    s.probe("KF-C15-02", json!({"input": "*99999\\r\\n"}), || {
        let inp = b"*99999\r\n";
        match run_codec(inp) {
            Ok((_, peak)) if peak > alloc_bound(inp.len()) => Some(format!(
                "RespCodec allocates {} bytes for the 8-byte input *99999\\r\\n",
                peak
            )),
            Err(e) => Some(e),
            _ => None,
        }
    });
    s.probe("KF-C15-04", json!({"kind": "nest", "n": 40000}), || {
        for which in ["codec", "parser"] {
            if let Err(e) = run_child(&ChildCase { kind: "nest".into(), n: 40000 }, which) {
                return Some(e);
            }
        }
        None
    });
    s.probe("KF-C15-03", json!({"cmds": [["FOO\\r\\n+BAR"], ["PING"]]}), || {
        // the minimal reproducer through every encoder and the connection, nothing tolerated
        let case = ExecEncCase {
            cmds: vec![vec![b"FOO\r\n+BAR".to_vec()], vec![b"PING".to_vec()]],
        };
        s.strict_eval(|ctx| check_exec_encoders(&case, ctx)).err()
    });

    // ---- (a) exhaustive short strings
    let max_len = if s.thorough() { 7 } else { 6 };
    s.describe_check(
        "enum_short",
        "every string of length 0..=L over a 12-symbol alphabet; each is compared with itself minus the last byte, so all prefixes are covered by induction",
    );
    let kf1 = s.findings.is_open("KF-C15-01");
    let kf2 = s.findings.is_open("KF-C15-02");
    let items = (0..=max_len).flat_map(|len| {
        let total = (ALPHABET.len() as u64).pow(len as u32);
        (0..total).map(move |mut idx| {
            let mut v = Vec::with_capacity(len);
            for _ in 0..len {
                v.push(ALPHABET[(idx % ALPHABET.len() as u64) as usize]);
                idx /= ALPHABET.len() as u64;
            }
            BytesCase { bytes: v }
        })
    });
    s.run_enumerated("enum_short", items, |c, ctx| {
        let w = &c.bytes;
        if let Some(id) = known_class(w, kf1, kf2) {
            ctx.tolerate(id);
            return Ok(());
        }
        if w.iter().any(|&b| b == b'$' || b == b'*') {
            ctx.nontrivial(w);
        }
        check_one_input(w, ctx)
    });
    s.set_exhaustive(false);

    // ---- (b) generated frames with mutations
    s.run_cases(
        "gen_frames",
        s.scale(60_000, 3_000_000),
        || mutated_frame().prop_map(|bytes| BytesCase { bytes }),
        |c, ctx| {
            let w = &c.bytes;
            if let Some(id) = known_class(w, kf1, kf2) {
                ctx.tolerate(id);
                return Ok(());
            }
            if w.iter().any(|&b| b == b'$' || b == b'*') {
                ctx.nontrivial(w);
            }
            // all prefixes, not only one step (inputs are small)
            for p in 0..=w.len() {
                check_one_input(&w[..p], ctx).map_err(|e| format!("prefix {}: {}", p, e))?;
            }
            Ok(())
        },
    );

    // ---- (c) streams in fragments
    s.run_cases(
        "gen_streams",
        s.scale(20_000, 1_000_000),
        || {
            (
                proptest::collection::vec(reply_tree(), 1..6),
                proptest::collection::vec(any::<u16>(), 0..8),
            )
                .prop_map(|(frames, cuts)| StreamCase { frames, cuts })
        },
        |c, ctx| {
            let mut stream = Vec::new();
            for f in &c.frames {
                f.encode(&mut stream);
            }
            let mut cuts: Vec<usize> = c
                .cuts
                .iter()
                .map(|&x| (x as usize * (stream.len() + 1)) >> 16)
                .collect();
            cuts.sort();
            let whole = feed_fragments(&stream, &[])?;
            if whole != c.frames {
                return Err(format!(
                    "whole-stream decode differs from the encoded frames: got {} frames, expected {}",
                    whole.len(),
                    c.frames.len()
                ));
            }
            let frag = feed_fragments(&stream, &cuts)?;
            if frag != whole {
                return Err(format!(
                    "fragmented feeding {:?} yields {:?}, whole feeding yields {:?}",
                    cuts,
                    frag.iter().map(|r| r.show()).collect::<Vec<_>>(),
                    whole.iter().map(|r| r.show()).collect::<Vec<_>>()
                ));
            }
            // byte-at-a-time as well
            let all: Vec<usize> = (1..stream.len()).collect();
            let single = feed_fragments(&stream, &all)?;
            if single != whole {
                return Err("byte-at-a-time feeding differs from whole feeding".to_string());
            }
            if c.frames.len() >= 2 && !cuts.is_empty() {
                ctx.nontrivial(&(stream.clone(), cuts.clone()));
            }
            Ok(())
        },
    );

    // ---- (d) encoders
    s.run_cases(
        "enc_trees",
        s.scale(20_000, 1_000_000),
        || {
            prop_oneof![
                8 => reply_tree(),
                1 => proptest::collection::vec(prop_oneof![Just(b'\r'), Just(b'\n'), Just(b'+'), Just(b'a'), Just(b':'), Just(b'1')], 1..8)
                    .prop_map(Reply::Error),
                1 => (reply_tree(), proptest::collection::vec(prop_oneof![Just(b'\r'), Just(b'\n'), Just(b'x')], 1..5))
                    .prop_map(|(t, l)| Reply::Array(vec![Reply::Simple(l), t])),
            ]
            .prop_map(|value| EncCase { value })
        },
        |c, ctx| {
            if matches!(&c.value, Reply::Array(a) if !a.is_empty()) {
                ctx.nontrivial(&c.value);
            }
            check_encoders(&c.value)
        },
    );
    s.run_cases(
        "enc_exec",
        s.scale(1_500, 60_000),
        || {
            // no expiry-bearing commands: both servers here run on the wall clock
            // (ProductionTimeSource), and a verdict must not depend on it
            let o = vcore::gen::GenOpts {
                random: false,
                expiry: false,
                ..Default::default()
            };
            let cmd = prop_oneof![
                20 => vcore::gen::data_command(&o),
                1 => Just(vec![b"PING".to_vec()]),
                1 => Just(vec![b"NOSUCHCMD".to_vec(), b"x".to_vec()]),
                1 => Just(vec![b"FOO\r\n+BAR".to_vec()]),
                // client text with a bare CR / bare LF quoted in an error line
                1 => prop_oneof![
                    Just(b"FOO\rBAR".to_vec()), Just(b"FOOBAR\r".to_vec()), Just(b"A\nB".to_vec()),
                    Just(b"\rX".to_vec()), Just(b"X\n".to_vec()), Just(b"A\r\rB".to_vec()),
                ].prop_map(|n| vec![n, b"arg".to_vec()]),
                1 => Just(vec![b"GET".to_vec()]),
            ];
            proptest::collection::vec(cmd, 1..12).prop_map(|cmds| ExecEncCase { cmds })
        },
        check_exec_encoders,
    );

    // ---- (d2) size classes: line and bulk lengths aimed at powers of two +- 1
    s.describe_check(
        "size_classes",
        "status / error / integer-prefixed / bulk / array frames whose text or element count is 2^k-1, 2^k, 2^k+1 for k up to 20 (16 for arrays): both decoders on the whole frame and on splits, both public encoders; fixed enumeration",
    );
    let mut size_cases: Vec<SizeCase> = Vec::new();
    for k in [8u32, 12, 14, 15, 16, 17, 20] {
        for d in [-2i64, -1, 0, 1, 2] {
            let n = ((1i64 << k) + d) as usize;
            for kind in ["simple", "error", "bulk"] {
                size_cases.push(SizeCase { kind: kind.to_string(), n });
            }
            if k <= 16 {
                size_cases.push(SizeCase { kind: "array".to_string(), n });
            }
        }
    }
    s.run_enumerated("size_classes", size_cases.into_iter(), |c, ctx| {
        ctx.nontrivial(&(c.kind.clone(), c.n));
        let v = match c.kind.as_str() {
            "simple" => Reply::Simple(vec![b'a'; c.n]),
            "error" => Reply::Error(vec![b'e'; c.n]),
            "bulk" => Reply::Bulk(vec![0xabu8; c.n]),
            _ => Reply::Array((0..c.n).map(|i| Reply::Int(i as i64 % 10)).collect()),
        };
        let mut enc = Vec::new();
        v.encode(&mut enc);
        // followed by a second frame: the stream must yield both
        let mut stream = enc.clone();
        stream.extend_from_slice(b"+PONG\r\n");
        for (name, out) in [("RespCodec", run_codec(&enc)?.0), ("RespParser", run_parser(&enc)?.0)] {
            if out != Out::Frame(v.clone(), enc.len()) {
                return Err(format!(
                    "{}: a complete {} frame of {} bytes ({} of length {}) does not decode to itself: {}",
                    name, c.kind, enc.len(), c.kind, c.n,
                    match out { Out::Frame(_, n) => format!("a frame of {} bytes", n), Out::NeedMore => "need more data".into(), Out::Error(e) => format!("error {}", e) }
                ));
            }
        }
        for cut in [1usize, enc.len() / 2, enc.len() - 1, enc.len(), enc.len() + 1] {
            let frames = feed_fragments(&stream, &[cut.min(stream.len())])?;
            if frames.len() != 2 || frames[0] != v {
                return Err(format!(
                    "stream of a {} frame (length {}) + PING reply cut at {}: decoded {} frames",
                    c.kind, c.n, cut, frames.len()
                ));
            }
        }
        check_encoders(&v)
    });

    // ---- (e) child-process cases
    let mut child_cases = Vec::new();
    for n in [100u64, 1_000, 5_000, 20_000, 40_000, 100_000] {
        child_cases.push(ChildCase { kind: "nest".into(), n });
        child_cases.push(ChildCase { kind: "nest_open".into(), n });
    }
    for n in [1u64 << 20, 1 << 27, 1 << 31, 1 << 40, (1 << 62) - 1 + (1 << 62)] {
        child_cases.push(ChildCase { kind: "array_len".into(), n });
        child_cases.push(ChildCase { kind: "array_len_elems".into(), n });
        child_cases.push(ChildCase { kind: "bulk_len".into(), n });
    }
    for n in [2u64, 3, 100, 1 << 40, (1 << 62) - 1 + (1 << 62)] {
        child_cases.push(ChildCase { kind: "neg_array".into(), n });
        child_cases.push(ChildCase { kind: "neg_bulk".into(), n });
    }
    let kf4 = s.findings.is_open("KF-C15-04");
    s.run_enumerated("child_limits", child_cases.into_iter(), |c, ctx| {
        ctx.nontrivial(&(c.kind.clone(), c.n));
        for which in ["codec", "parser"] {
            if let Err(e) = run_child(c, which) {
                let id = match c.kind.as_str() {
                    "nest" | "nest_open" if kf4 => Some("KF-C15-04"),
                    "neg_array" | "neg_bulk" if kf1 => Some("KF-C15-01"),
                    "array_len" | "array_len_elems" if kf2 && which == "codec" => Some("KF-C15-02"),
                    _ => None,
                };
                match id {
                    Some(id) if ctx.tolerate(id) => continue,
                    _ => return Err(e),
                }
            }
        }
        Ok(())
    });

    s.finish();
}

/// Exact input classes of the open decoder findings (excluded by construction, counted):
///  KF-C15-01: a `$` or `*` header whose length is negative and not -1
///  KF-C15-02: a `*` header whose declared length exceeds the number of bytes that follow
fn known_class(w: &[u8], kf1: bool, kf2: bool) -> Option<&'static str> {
    if !kf1 && !kf2 {
        return None;
    }
    let mut i = 0;
    while i < w.len() {
        if w[i] == b'$' || w[i] == b'*' {
            // header only if at start or right after CRLF (a position a decoder can reach)
            let at_frame_start = i == 0 || (i >= 2 && &w[i - 2..i] == b"\r\n");
            if at_frame_start {
                if let Some(end) = w[i..].windows(2).position(|p| p == b"\r\n") {
                    let num = &w[i + 1..i + end];
                    if let Ok(s) = std::str::from_utf8(num) {
                        if let Ok(n) = s.parse::<i64>() {
                            if kf1 && n < -1 {
                                return Some("KF-C15-01");
                            }
                            if kf2 && w[i] == b'*' && n > 0 && (n as u64) > (w.len() - i) as u64 {
                                return Some("KF-C15-02");
                            }
                        }
                    }
                }
            }
        }
        i += 1;
    }
    None
}
