//! Per-key linearizability checker (DESIGN.md appendix B): Wing–Gong search with Lowe's
//! memoisation over a sequential model of one Redis string key.
//!
//! Model state of a key: `Option<Vec<u8>>` (missing / string value). Every history entry is one
//! atomic operation on one key with the reply the implementation gave and an invocation and a
//! response stamp taken from one harness logical clock (`inv < res`).

use serde::{Deserialize, Serialize};
use std::collections::BTreeSet;
use vcore::resp::Reply;

#[derive(Clone, Debug, PartialEq, Eq, PartialOrd, Ord, Hash, Serialize, Deserialize)]
pub enum MOp {
    Get,
    Set(Vec<u8>),
    SetNx(Vec<u8>),
    GetSet(Vec<u8>),
    Del,
    Incr,
    Append(Vec<u8>),
    /// EVAL compare-and-set: if value == expect then value := new, 1 else 0
    Cas { expect: Vec<u8>, new: Vec<u8> },
    /// EVAL read-modify-write: value := (value or "") .. suffix, returns the old value (or "")
    Rmw(Vec<u8>),
}

impl MOp {
    pub fn is_read(&self) -> bool {
        matches!(self, MOp::Get)
    }
    pub fn is_write(&self) -> bool {
        !self.is_read()
    }
    pub fn show(&self) -> String {
        let s = |b: &Vec<u8>| vcore::show(b);
        match self {
            MOp::Get => "GET".into(),
            MOp::Set(v) => format!("SET {}", s(v)),
            MOp::SetNx(v) => format!("SETNX {}", s(v)),
            MOp::GetSet(v) => format!("GETSET {}", s(v)),
            MOp::Del => "DEL".into(),
            MOp::Incr => "INCR".into(),
            MOp::Append(v) => format!("APPEND {}", s(v)),
            MOp::Cas { expect, new } => format!("EVAL cas({} -> {})", s(expect), s(new)),
            MOp::Rmw(v) => format!("EVAL rmw(.. {})", s(v)),
        }
    }
}

#[derive(Clone, Debug, PartialEq, Eq, Hash, Serialize, Deserialize)]
pub struct Entry {
    pub client: usize,
    pub key: usize,
    pub op: MOp,
    pub reply: Reply,
    pub inv: u64,
    pub res: u64,
    /// The request was cancelled in flight (its future was dropped / its connection was cut):
    /// there is no response. Such an op may take effect at any instant after `inv`, or never;
    /// `reply` is meaningless and `res` is `u64::MAX`. Only writes are recorded this way
    /// (a cancelled read is simply not part of the history).
    #[serde(default)]
    pub pending: bool,
}

pub type St = Option<Vec<u8>>;

fn bulk_or_nil(s: &St) -> Reply {
    match s {
        Some(v) => Reply::Bulk(v.clone()),
        None => Reply::Nil,
    }
}

/// Redis' canonical integer text (what INCR accepts for the values this harness writes).
fn as_int(v: &[u8]) -> Option<i64> {
    let s = std::str::from_utf8(v).ok()?;
    let n: i64 = s.parse().ok()?;
    if n.to_string() == s {
        Some(n)
    } else {
        None
    }
}

pub const INCR_ERR: &[u8] = b"ERR value is not an integer or out of range";

/// Sequential specification: reply and successor state of `op` applied in `state`.
pub fn spec(state: &St, op: &MOp) -> (Reply, St) {
    match op {
        MOp::Get => (bulk_or_nil(state), state.clone()),
        MOp::Set(v) => (Reply::ok(), Some(v.clone())),
        MOp::SetNx(v) => match state {
            None => (Reply::Int(1), Some(v.clone())),
            Some(_) => (Reply::Int(0), state.clone()),
        },
        MOp::GetSet(v) => (bulk_or_nil(state), Some(v.clone())),
        MOp::Del => match state {
            None => (Reply::Int(0), None),
            Some(_) => (Reply::Int(1), None),
        },
        MOp::Incr => match state {
            None => (Reply::Int(1), Some(b"1".to_vec())),
            Some(v) => match as_int(v).and_then(|n| n.checked_add(1)) {
                Some(n) => (Reply::Int(n), Some(n.to_string().into_bytes())),
                None => (Reply::Error(INCR_ERR.to_vec()), state.clone()),
            },
        },
        MOp::Append(s) => {
            let mut v = state.clone().unwrap_or_default();
            v.extend_from_slice(s);
            (Reply::Int(v.len() as i64), Some(v))
        }
        MOp::Cas { expect, new } => {
            if state.as_ref() == Some(expect) {
                (Reply::Int(1), Some(new.clone()))
            } else {
                (Reply::Int(0), state.clone())
            }
        }
        MOp::Rmw(s) => {
            let old = state.clone().unwrap_or_default();
            let mut v = old.clone();
            v.extend_from_slice(s);
            (Reply::Bulk(old), Some(v))
        }
    }
}

/// Does the recorded reply match the specified one? Error replies are compared by their code
/// word only (the exact text is C01's concern).
fn reply_matches(spec: &Reply, got: &Reply) -> bool {
    match (spec, got) {
        (Reply::Error(_), Reply::Error(_)) => spec.error_code() == got.error_code(),
        _ => spec == got,
    }
}

/// Successor state iff the recorded reply is what the operation returns in `state`.
/// An op without response (`pending`) has no reply to contradict: it just takes effect.
pub fn step_entry(state: &St, e: &Entry) -> Option<St> {
    if e.pending {
        Some(spec(state, &e.op).1)
    } else {
        step(state, &e.op, &e.reply)
    }
}

/// Successor state iff the recorded reply is what the operation returns in `state`.
pub fn step(state: &St, op: &MOp, reply: &Reply) -> Option<St> {
    let (r, s) = spec(state, op);
    if reply_matches(&r, reply) {
        Some(s)
    } else {
        None
    }
}

pub const MAX_OPS: usize = 512;

#[derive(Clone, Copy, PartialEq, Eq, PartialOrd, Ord, Hash, Default)]
struct Bits([u64; MAX_OPS / 64]);

impl Bits {
    fn has(&self, i: usize) -> bool {
        self.0[i / 64] >> (i % 64) & 1 == 1
    }
    fn with(&self, i: usize) -> Bits {
        let mut b = *self;
        b.0[i / 64] |= 1 << (i % 64);
        b
    }
    /// number of ops of `of` that are in `self`
    fn count_in(&self, of: &Bits) -> usize {
        self.0.iter().zip(of.0.iter()).map(|(w, m)| (w & m).count_ones() as usize).sum()
    }
}

#[derive(Debug, Clone, PartialEq, Eq)]
pub enum Verdict {
    Linearizable,
    /// no linearization exists; the explanation names the longest linearised prefix found
    NotLinearizable(String),
    /// search budget exhausted or history too large: no verdict
    Budget,
}

/// Wing–Gong / Lowe: repeatedly pick a *minimal* remaining operation (one whose invocation
/// precedes every remaining operation's response), apply it if its recorded reply matches the
/// model, recurse; memoise on (set of linearised ops, model state).
///
/// Ops without response (`pending`, `res = u64::MAX`) are optional: they never constrain another
/// op's position from above, may be linearised anywhere after their invocation, and the search
/// succeeds as soon as every op *with* a response has been ordered.
pub fn check_key(entries: &[Entry], initial: &St, budget: usize) -> Verdict {
    let n = entries.len();
    if n == 0 {
        return Verdict::Linearizable;
    }
    if n > MAX_OPS {
        return Verdict::Budget;
    }
    let mut order: Vec<usize> = (0..n).collect();
    order.sort_by_key(|&i| (entries[i].inv, entries[i].res));
    let es: Vec<&Entry> = order.iter().map(|&i| &entries[i]).collect();
    let mut required = Bits::default();
    for (i, e) in es.iter().enumerate() {
        if !e.pending {
            required = required.with(i);
        }
    }
    let n_required = required.count_in(&required);
    if n_required == 0 {
        return Verdict::Linearizable;
    }

    let candidates = |done: &Bits| -> Vec<usize> {
        let mut min_res = u64::MAX;
        for (i, e) in es.iter().enumerate() {
            if !done.has(i) && e.res < min_res {
                min_res = e.res;
            }
        }
        let mut c = Vec::new();
        for (i, e) in es.iter().enumerate() {
            if e.inv >= min_res {
                break; // sorted by inv
            }
            if !done.has(i) {
                c.push(i);
            }
        }
        c
    };

    struct Frame {
        done: Bits,
        state: St,
        cands: Vec<usize>,
        pos: usize,
    }
    let mut visited: BTreeSet<(Bits, St)> = BTreeSet::new();
    let start = Bits::default();
    visited.insert((start, initial.clone()));
    let mut stack = vec![Frame {
        done: start,
        state: initial.clone(),
        cands: candidates(&start),
        pos: 0,
    }];
    let mut best: (usize, Bits, St) = (0, start, initial.clone());

    while let Some(top) = stack.last_mut() {
        if top.pos >= top.cands.len() {
            stack.pop();
            continue;
        }
        let i = top.cands[top.pos];
        top.pos += 1;
        let Some(next_state) = step_entry(&top.state, es[i]) else {
            continue;
        };
        let done = top.done.with(i);
        let cnt = done.count_in(&required);
        if cnt == n_required {
            return Verdict::Linearizable;
        }
        if !visited.insert((done, next_state.clone())) {
            continue;
        }
        if visited.len() > budget {
            return Verdict::Budget;
        }
        if cnt > best.0 {
            best = (cnt, done, next_state.clone());
        }
        let cands = candidates(&done);
        stack.push(Frame {
            done,
            state: next_state,
            cands,
            pos: 0,
        });
    }

    // explanation: at the deepest point reached, why can none of the minimal ops go next?
    let (cnt, done, state) = best;
    let mut why = format!(
        "no linearization: at most {} of {} answered operations can be ordered; then the key holds {} and every operation that may come next contradicts its recorded reply:\n",
        cnt,
        n_required,
        match &state {
            Some(v) => format!("\"{}\"", vcore::show(v)),
            None => "(missing)".to_string(),
        }
    );
    for i in candidates(&done) {
        let e = es[i];
        if e.pending {
            continue;
        }
        let (r, _) = spec(&state, &e.op);
        why.push_str(&format!(
            "        {} [{},{}] {} replied {} but would reply {} here\n",
            if e.client == usize::MAX { "final read".to_string() } else { format!("client {}", e.client) },
            e.inv,
            e.res,
            e.op.show(),
            e.reply.show(),
            r.show()
        ));
    }
    Verdict::NotLinearizable(why)
}

pub fn show_history(entries: &[Entry]) -> String {
    let mut v: Vec<&Entry> = entries.iter().collect();
    v.sort_by_key(|e| (e.inv, e.res));
    let mut s = String::new();
    for e in v {
        if e.pending {
            s.push_str(&format!(
                "        [{:>4},   ∞) {} {} -> (cancelled in flight: no response)\n",
                e.inv,
                if e.client == usize::MAX { "final read".to_string() } else { format!("client {}", e.client) },
                e.op.show()
            ));
            continue;
        }
        s.push_str(&format!(
            "        [{:>4},{:>4}] {} {} -> {}\n",
            e.inv,
            e.res,
            if e.client == usize::MAX { "final read".to_string() } else { format!("client {}", e.client) },
            e.op.show(),
            e.reply.show()
        ));
    }
    s
}
