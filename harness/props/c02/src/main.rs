//! C02 — Concurrent clients on one node see a linearizable per-key history.
//!
//! Checks (DESIGN.md §3 C02, appendix B):
//!   checker_hand   hand-written linearizable / non-linearizable histories (the checker itself);
//!                  also the replay target for histories recorded by the stress tier
//!   checker_seq    generated sequential histories with widened intervals must be accepted; the
//!                  same history with one read of a never-written value must be rejected
//!   sched          2–5 client programs (5–25 ops) over 1–3 shared keys on one
//!                  `ShardedActorState<VerifTime>` (1, 2, 4, 16 shards; generated response-pool
//!                  size), every client a task on a current-thread runtime with generated
//!                  `yield_now` counts before each step, so the interleaving of clients and shard
//!                  actors is a deterministic function of the case. History of
//!                  (client, op, reply, inv, res) from one logical clock; per key a Wing–Gong/Lowe
//!                  search against a sequential string-register model. Violation = no linearization.
//!                  ~7 % of the steps are cancelled in flight (future polled 0-3 times, then dropped);
//!                  a cancelled write is an op without response the search may place later or omit.
//!   conn_clients   the same programs through concurrent connection handlers (hook) sharing one
//!                  ShardedActorState; each client talks over an in-memory duplex stream
//!   seq_ttl        one client, TTL-bearing commands and forward-only clock steps aimed at deadlines on
//!                  1/2/4/16 shards; every reply must equal the sequential model with a deadline per key
//!   stress         (thorough) 8–16 clients on a multi-thread runtime; the replay artefact is the
//!                  recorded history (check `checker_hand`)

mod lin;

use bytes::Bytes;
use lin::{check_key, show_history, spec, Entry, MOp, St, Verdict};
use proptest::prelude::*;
use redis_sim::production::{
    verif_hooks, ConnectionConfig, PerformanceConfig, ResponsePoolConfig, ShardConfig, ShardedActorState,
};
use serde::{Deserialize, Serialize};
use serde_json::json;
use std::collections::BTreeSet;
use std::hash::{Hash, Hasher};
use std::sync::atomic::{AtomicU64, Ordering};
use std::sync::{Arc, Mutex, OnceLock};
use tokio::io::{AsyncReadExt, AsyncWriteExt};
use vcore::resp::{decode_reply, encode_command, parse_zc, Argv, DecodeError, Reply};
use vcore::time::VerifTime;
use vcore::{CaseCtx, Level, Session};

type State = ShardedActorState<VerifTime>;

const KF_HASH: &str = "KF-C02-01";
const KF_STALE: &str = "KF-C02-02";
const SEARCH_BUDGET: usize = 400_000;

// ---------------------------------------------------------------------------------------
// routing replica (classification only): which keys do the two routers place differently?
// ---------------------------------------------------------------------------------------

#[derive(Clone, Copy, Debug, PartialEq, Eq)]
enum HashMode {
    Str,
    Raw,
}

fn shard_of(mode: HashMode, key: &[u8], n: usize) -> usize {
    let mut h = std::collections::hash_map::DefaultHasher::new();
    match mode {
        HashMode::Str => {
            let s = String::from_utf8_lossy(key);
            let s: &str = s.as_ref();
            s.hash(&mut h)
        }
        HashMode::Raw => key.hash(&mut h),
    }
    (h.finish() as usize) % n
}

#[derive(Clone, Copy, Debug)]
struct Routing {
    generic: HashMode,
    fast: HashMode,
    calibrated: bool,
}

impl Routing {
    fn split(&self, key: &[u8], n: usize) -> bool {
        shard_of(self.generic, key, n) != shard_of(self.fast, key, n)
    }
}

static ROUTING: OnceLock<Routing> = OnceLock::new();
static KEY_NAMES: OnceLock<Vec<Vec<u8>>> = OnceLock::new();

fn routing() -> Routing {
    *ROUTING.get().expect("calibrated in main")
}

fn a(parts: &[&[u8]]) -> Argv {
    parts.iter().map(|p| p.to_vec()).collect()
}

fn perf(n: usize, pool: (usize, usize)) -> PerformanceConfig {
    PerformanceConfig {
        num_shards: n,
        response_pool: ResponsePoolConfig {
            capacity: pool.0.max(1),
            prewarm: pool.1.min(pool.0.max(1)),
        },
        ..PerformanceConfig::default()
    }
}

fn mk_state(n: usize, pool: (usize, usize), time: &VerifTime) -> State {
    ShardedActorState::with_perf_config_and_time_source(&perf(n, pool), ShardConfig::with_shards(n), time.clone())
}

async fn exec_generic<T: redis_sim::io::TimeSource>(st: &ShardedActorState<T>, argv: &Argv) -> Reply {
    match parse_zc(argv) {
        Ok(cmd) => Reply::from_resp(&st.execute(&cmd).await),
        Err(e) => Reply::Error(format!("(parse) {}", e).into_bytes()),
    }
}

/// Same calibration as C03: RANDOMKEY looks at shard 0 only, which tells whether a key written
/// through a given router landed on shard 0. Falls back to the replica read from the source.
fn calibrate() -> Routing {
    let names: Vec<Vec<u8>> = (0..16).map(|i| format!("k{}", i).into_bytes()).collect();
    let obs: Vec<(usize, Vec<u8>, bool, bool)> = vcore::block_on(async {
        let mut out = Vec::new();
        for n in [2usize, 4] {
            let time = VerifTime::new(0);
            let st = mk_state(n, (256, 64), &time);
            for k in &names {
                exec_generic(&st, &a(&[b"FLUSHALL"])).await;
                exec_generic(&st, &a(&[b"SET", k, b"1"])).await;
                let g = exec_generic(&st, &a(&[b"RANDOMKEY"])).await != Reply::Nil;
                exec_generic(&st, &a(&[b"FLUSHALL"])).await;
                st.fast_set(Bytes::copy_from_slice(k), Bytes::from_static(b"1")).await;
                let f = exec_generic(&st, &a(&[b"RANDOMKEY"])).await != Reply::Nil;
                out.push((n, k.clone(), g, f));
            }
        }
        out
    });
    use HashMode::*;
    for (g, f) in [(Str, Raw), (Str, Str), (Raw, Raw), (Raw, Str)] {
        if obs
            .iter()
            .all(|(n, k, og, of)| (shard_of(g, k, *n) == 0) == *og && (shard_of(f, k, *n) == 0) == *of)
        {
            return Routing {
                generic: g,
                fast: f,
                calibrated: true,
            };
        }
    }
    Routing {
        generic: Str,
        fast: Raw,
        calibrated: false,
    }
}

/// Key names: three on which both routers agree for 2, 4 and 16 shards (so entry paths can be
/// mixed on them on every shard count even while the routing finding is open) + three ordinary.
fn build_key_names(r: &Routing) -> Vec<Vec<u8>> {
    let mut out: Vec<Vec<u8>> = Vec::new();
    let mut i = 0u32;
    while out.len() < 3 && i < 100_000 {
        let k = format!("lk{}", i).into_bytes();
        if !r.split(&k, 16) && !r.split(&k, 4) && !r.split(&k, 2) {
            out.push(k);
        }
        i += 1;
    }
    out.push(b"k0".to_vec());
    out.push(b"k1".to_vec());
    out.push(b"key two".to_vec());
    // unusual but legal names: a router that looks inside the name (hash tags, prefixes, length)
    // on one entry path only gives such a key two homes
    out.push(b"{user:1}:visits".to_vec());
    out.push(b"a{tag}z".to_vec());
    out.push(b"{}".to_vec());
    out.push(b"{t}".to_vec());
    out.push("\u{43a}\u{43b}\u{44e}\u{447}".as_bytes().to_vec());
    out.push(b"a-much-longer-key-name-that-exceeds-any-inline-buffer-0123456789-0123456789-0123456789".to_vec());
    out
}

fn key_names() -> &'static Vec<Vec<u8>> {
    KEY_NAMES.get().expect("built in main")
}

// ---------------------------------------------------------------------------------------
// cases
// ---------------------------------------------------------------------------------------

#[derive(Clone, Copy, Debug, PartialEq, Eq, Hash, Serialize, Deserialize)]
enum Path {
    Generic,
    Fast,
    Pooled,
    Batch,
}

#[derive(Clone, Copy, Debug, PartialEq, Eq, Hash, Serialize, Deserialize)]
enum Kind {
    Get(Path),
    Set(Path),
    Incr,
    Append,
    GetSet,
    SetNx,
    Del,
    Cas,
    Rmw,
    /// fast_batch_get_pipeline over all keys of the case
    BatchGet,
    /// fast_batch_set_pipeline over all keys of the case
    BatchSet,
    MGet,
    MSet,
}

#[derive(Clone, Debug, Serialize, Deserialize)]
struct OpSpec {
    kind: Kind,
    /// key selector, mapped monotonically onto the case's keys
    key: u8,
    /// written value is a unique integer (so INCR has something to do) instead of a unique string
    numeric: bool,
    /// CAS: selects the expected value among the values the case writes to that key
    pick: u16,
    /// number of `yield_now` before the step (the schedule)
    yields: u8,
    /// request cancellation: `Some((polls, gap))` = start the op, poll its future at most `polls`
    /// times with `gap` yields between two polls, and DROP it if it has not completed by then
    /// (conn_clients: write the command, then cut the connection without reading the reply)
    #[serde(default)]
    cancel: Option<(u8, u8)>,
}

/// one resolved client step
#[derive(Clone, Debug)]
struct PStep {
    yields: u8,
    cancel: Option<(u8, u8)>,
    op: ROp,
}

type Prog = Vec<PStep>;

#[derive(Clone, Debug, Serialize, Deserialize)]
struct Case {
    shard_counts: Vec<usize>,
    /// explicit key names (1–3)
    keys: Vec<Vec<u8>>,
    /// response pool (capacity, prewarm)
    pool: (usize, usize),
    clients: Vec<Vec<OpSpec>>,
}

/// fully resolved operation
#[derive(Clone, Debug)]
enum ROp {
    Get { k: usize, path: Path },
    Set { k: usize, v: Vec<u8>, path: Path },
    Incr { k: usize },
    Append { k: usize, s: Vec<u8> },
    GetSet { k: usize, v: Vec<u8> },
    SetNx { k: usize, v: Vec<u8> },
    Del { k: usize },
    Cas { k: usize, expect: Vec<u8>, new: Vec<u8> },
    Rmw { k: usize, s: Vec<u8> },
    BatchGet { ks: Vec<usize> },
    BatchSet { kvs: Vec<(usize, Vec<u8>)> },
    MGet { ks: Vec<usize> },
    MSet { kvs: Vec<(usize, Vec<u8>)> },
}

fn key_index(sel: u8, nkeys: usize) -> usize {
    (sel as usize * nkeys) >> 8
}

fn unique_value(c: usize, i: usize, numeric: bool) -> Vec<u8> {
    if numeric {
        (((c + 1) * 100 + i) * 1000).to_string().into_bytes()
    } else {
        format!("v{}_{}", c, i).into_bytes()
    }
}

fn multi_value(c: usize, i: usize, k: usize) -> Vec<u8> {
    format!("m{}_{}k{}", c, i, k).into_bytes()
}

/// every value some set-like op of the case writes to key k (CAS picks its expectation here)
fn written_values(case: &Case) -> Vec<Vec<Vec<u8>>> {
    let nk = case.keys.len();
    let mut out = vec![Vec::new(); nk];
    for (c, prog) in case.clients.iter().enumerate() {
        for (i, op) in prog.iter().enumerate() {
            let k = key_index(op.key, nk);
            match op.kind {
                Kind::Set(_) | Kind::GetSet | Kind::SetNx => out[k].push(unique_value(c, i, op.numeric)),
                Kind::Cas => out[k].push(format!("x{}_{}", c, i).into_bytes()),
                Kind::BatchSet | Kind::MSet => {
                    for kk in 0..nk {
                        out[kk].push(multi_value(c, i, kk));
                    }
                }
                _ => {}
            }
        }
    }
    out
}

const CAS_SCRIPT: &[u8] = b"local v = redis.call('GET', KEYS[1]); if v == ARGV[1] then redis.call('SET', KEYS[1], ARGV[2]); return 1 else return 0 end";
const RMW_SCRIPT: &[u8] = b"local v = redis.call('GET', KEYS[1]); if not v then v = '' end; redis.call('SET', KEYS[1], v .. ARGV[1]); return v";

/// Resolve a client's program. `coerce(k)` = the fast-family router may not be used for key k
/// (only while the routing finding is open); returns the number of coerced ops.
fn resolve(case: &Case, c: usize, coerce: &dyn Fn(usize) -> bool, coerced: &mut u64) -> Prog {
    let nk = case.keys.len();
    let written = written_values(case);
    let all: Vec<usize> = (0..nk).collect();
    let any_coerce = all.iter().any(|&k| coerce(k));
    let mut out = Vec::new();
    for (i, op) in case.clients[c].iter().enumerate() {
        let k = key_index(op.key, nk);
        let fix = |p: Path, coerced: &mut u64| {
            if p != Path::Generic && coerce(k) {
                *coerced += 1;
                Path::Generic
            } else {
                p
            }
        };
        let r = match op.kind {
            Kind::Get(p) => ROp::Get { k, path: fix(p, coerced) },
            Kind::Set(p) => ROp::Set { k, v: unique_value(c, i, op.numeric), path: fix(p, coerced) },
            Kind::Incr => ROp::Incr { k },
            Kind::Append => ROp::Append { k, s: format!("+a{}_{}", c, i).into_bytes() },
            Kind::GetSet => ROp::GetSet { k, v: unique_value(c, i, op.numeric) },
            Kind::SetNx => ROp::SetNx { k, v: unique_value(c, i, op.numeric) },
            Kind::Del => ROp::Del { k },
            Kind::Cas => {
                let w = &written[k];
                let expect = if w.is_empty() {
                    b"none".to_vec()
                } else {
                    w[(op.pick as usize * w.len()) >> 16].clone()
                };
                ROp::Cas { k, expect, new: format!("x{}_{}", c, i).into_bytes() }
            }
            Kind::Rmw => ROp::Rmw { k, s: format!("~r{}_{}", c, i).into_bytes() },
            Kind::BatchGet if any_coerce => {
                *coerced += 1;
                ROp::MGet { ks: all.clone() }
            }
            Kind::BatchGet => ROp::BatchGet { ks: all.clone() },
            Kind::MGet => ROp::MGet { ks: all.clone() },
            Kind::BatchSet if any_coerce => {
                *coerced += 1;
                ROp::MSet { kvs: all.iter().map(|&kk| (kk, multi_value(c, i, kk))).collect() }
            }
            Kind::BatchSet => ROp::BatchSet { kvs: all.iter().map(|&kk| (kk, multi_value(c, i, kk))).collect() },
            Kind::MSet => ROp::MSet { kvs: all.iter().map(|&kk| (kk, multi_value(c, i, kk))).collect() },
        };
        out.push(PStep { yields: op.yields, cancel: op.cancel, op: r });
    }
    out
}

fn one(mut v: Vec<redis_sim::redis::RespValue>) -> Result<Reply, String> {
    if v.len() == 1 {
        Ok(Reply::from_resp(&v.remove(0)))
    } else {
        Err(format!("a one-element batch pipeline answered {} replies", v.len()))
    }
}

/// Execute one resolved op; returns its per-key projections (key, model op, reply).
async fn run_op(st: &State, keys: &[Vec<u8>], op: &ROp) -> Result<Vec<(usize, MOp, Reply)>, String> {
    let kb = |k: usize| Bytes::copy_from_slice(&keys[k]);
    Ok(match op {
        ROp::Get { k, path } => {
            let r = match path {
                Path::Generic => exec_generic(st, &a(&[b"GET", &keys[*k]])).await,
                Path::Fast => Reply::from_resp(&st.fast_get(kb(*k)).await),
                Path::Pooled => Reply::from_resp(&st.pooled_fast_get(kb(*k)).await),
                Path::Batch => one(st.fast_batch_get_pipeline(vec![kb(*k)]).await)?,
            };
            vec![(*k, MOp::Get, r)]
        }
        ROp::Set { k, v, path } => {
            let vb = Bytes::copy_from_slice(v);
            let r = match path {
                Path::Generic => exec_generic(st, &a(&[b"SET", &keys[*k], v])).await,
                Path::Fast => Reply::from_resp(&st.fast_set(kb(*k), vb).await),
                Path::Pooled => Reply::from_resp(&st.pooled_fast_set(kb(*k), vb).await),
                Path::Batch => one(st.fast_batch_set_pipeline(vec![(kb(*k), vb)]).await)?,
            };
            vec![(*k, MOp::Set(v.clone()), r)]
        }
        ROp::BatchGet { ks } => {
            let rs = st.fast_batch_get_pipeline(ks.iter().map(|&k| kb(k)).collect()).await;
            if rs.len() != ks.len() {
                return Err(format!("fast_batch_get_pipeline of {} keys answered {} replies", ks.len(), rs.len()));
            }
            ks.iter().zip(rs.iter()).map(|(&k, r)| (k, MOp::Get, Reply::from_resp(r))).collect()
        }
        ROp::BatchSet { kvs } => {
            let rs = st
                .fast_batch_set_pipeline(kvs.iter().map(|(k, v)| (kb(*k), Bytes::copy_from_slice(v))).collect())
                .await;
            if rs.len() != kvs.len() {
                return Err(format!("fast_batch_set_pipeline of {} pairs answered {} replies", kvs.len(), rs.len()));
            }
            kvs.iter().zip(rs.iter()).map(|((k, v), r)| (*k, MOp::Set(v.clone()), Reply::from_resp(r))).collect()
        }
        other => {
            let argv = argv_of(keys, other, true);
            let r = exec_generic(st, &argv).await;
            project(other, r)?
        }
    })
}

/// argv of an op for the generic entry / the wire. `exact_case` = GET/SET spelled so that the
/// connection's fast-path recogniser would accept them (Path != Generic), else mixed case.
fn argv_of(keys: &[Vec<u8>], op: &ROp, _exact_case: bool) -> Argv {
    match op {
        ROp::Get { k, path } => a(&[if *path == Path::Generic { b"Get" } else { b"GET" }, &keys[*k]]),
        ROp::Set { k, v, path } => a(&[if *path == Path::Generic { b"Set" } else { b"SET" }, &keys[*k], v]),
        ROp::Incr { k } => a(&[b"INCR", &keys[*k]]),
        ROp::Append { k, s } => a(&[b"APPEND", &keys[*k], s]),
        // the same operation has two spellings: GETSET k v and SET k v GET (one in two)
        ROp::GetSet { k, v } => {
            if v.iter().map(|b| *b as usize).sum::<usize>() % 2 == 0 {
                a(&[b"SET", &keys[*k], v, b"GET"])
            } else {
                a(&[b"GETSET", &keys[*k], v])
            }
        }
        // likewise SETNX k v and the one-pair MSETNX k v (same reply, same effect; the multi-key
        // command has its own route through the sharded state)
        ROp::SetNx { k, v } => {
            if v.iter().map(|b| *b as usize).sum::<usize>() % 2 == 0 {
                a(&[b"MSETNX", &keys[*k], v])
            } else {
                a(&[b"SETNX", &keys[*k], v])
            }
        }
        ROp::Del { k } => a(&[b"DEL", &keys[*k]]),
        ROp::Cas { k, expect, new } => a(&[b"EVAL", CAS_SCRIPT, b"1", &keys[*k], expect, new]),
        ROp::Rmw { k, s } => a(&[b"EVAL", RMW_SCRIPT, b"1", &keys[*k], s]),
        ROp::BatchGet { ks } | ROp::MGet { ks } => {
            let mut v = a(&[b"MGET"]);
            v.extend(ks.iter().map(|&k| keys[k].clone()));
            v
        }
        ROp::BatchSet { kvs } | ROp::MSet { kvs } => {
            let mut v = a(&[b"MSET"]);
            for (k, val) in kvs {
                v.push(keys[*k].clone());
                v.push(val.clone());
            }
            v
        }
    }
}

/// per-key projections of a single-command op given its reply
fn project(op: &ROp, r: Reply) -> Result<Vec<(usize, MOp, Reply)>, String> {
    Ok(match op {
        ROp::Get { k, .. } => vec![(*k, MOp::Get, r)],
        ROp::Set { k, v, .. } => vec![(*k, MOp::Set(v.clone()), r)],
        ROp::Incr { k } => vec![(*k, MOp::Incr, r)],
        ROp::Append { k, s } => vec![(*k, MOp::Append(s.clone()), r)],
        ROp::GetSet { k, v } => vec![(*k, MOp::GetSet(v.clone()), r)],
        ROp::SetNx { k, v } => vec![(*k, MOp::SetNx(v.clone()), r)],
        ROp::Del { k } => vec![(*k, MOp::Del, r)],
        ROp::Cas { k, expect, new } => vec![(*k, MOp::Cas { expect: expect.clone(), new: new.clone() }, r)],
        ROp::Rmw { k, s } => vec![(*k, MOp::Rmw(s.clone()), r)],
        ROp::BatchGet { ks } | ROp::MGet { ks } => match r {
            Reply::Array(rs) if rs.len() == ks.len() => {
                ks.iter().zip(rs.into_iter()).map(|(&k, r)| (k, MOp::Get, r)).collect()
            }
            other => return Err(format!("MGET of {} keys answered {}", ks.len(), other.show())),
        },
        ROp::BatchSet { kvs } | ROp::MSet { kvs } => {
            kvs.iter().map(|(k, v)| (*k, MOp::Set(v.clone()), r.clone())).collect()
        }
    })
}

// ---------------------------------------------------------------------------------------
// running a case
// ---------------------------------------------------------------------------------------

struct Recorder {
    clock: AtomicU64,
    hist: Mutex<Vec<Entry>>,
}

impl Recorder {
    fn new() -> Arc<Recorder> {
        Arc::new(Recorder {
            clock: AtomicU64::new(1),
            hist: Mutex::new(Vec::new()),
        })
    }
    fn stamp(&self) -> u64 {
        self.clock.fetch_add(1, Ordering::SeqCst)
    }
    fn record(&self, client: usize, inv: u64, res: u64, out: Vec<(usize, MOp, Reply)>) {
        let mut h = self.hist.lock().unwrap();
        for (key, op, reply) in out {
            h.push(Entry { client, key, op, reply, inv, res, pending: false });
        }
    }
    /// a request cancelled in flight: its writes may take effect at any later instant, or never
    fn record_cancelled(&self, client: usize, inv: u64, op: &ROp) {
        let mut h = self.hist.lock().unwrap();
        for (key, op) in pending_writes(op) {
            h.push(Entry { client, key, op, reply: Reply::Nil, inv, res: u64::MAX, pending: true });
        }
    }
}

/// per-key write projections of an op whose reply is unknown (reads project to nothing)
fn pending_writes(op: &ROp) -> Vec<(usize, MOp)> {
    match op {
        ROp::Get { .. } | ROp::BatchGet { .. } | ROp::MGet { .. } => vec![],
        ROp::Set { k, v, .. } => vec![(*k, MOp::Set(v.clone()))],
        ROp::Incr { k } => vec![(*k, MOp::Incr)],
        ROp::Append { k, s } => vec![(*k, MOp::Append(s.clone()))],
        ROp::GetSet { k, v } => vec![(*k, MOp::GetSet(v.clone()))],
        ROp::SetNx { k, v } => vec![(*k, MOp::SetNx(v.clone()))],
        ROp::Del { k } => vec![(*k, MOp::Del)],
        ROp::Cas { k, expect, new } => vec![(*k, MOp::Cas { expect: expect.clone(), new: new.clone() })],
        ROp::Rmw { k, s } => vec![(*k, MOp::Rmw(s.clone()))],
        ROp::BatchSet { kvs } | ROp::MSet { kvs } => kvs.iter().map(|(k, v)| (*k, MOp::Set(v.clone()))).collect(),
    }
}

/// Poll `fut` at most `polls` times (yielding `gap` times between two polls, so that the shard
/// actor may or may not run in between); `None` = still pending after the last poll, and the
/// future is dropped right there, i.e. the request is cancelled in flight: whatever it already
/// sent to a shard mailbox stays there.
async fn poll_then_drop<F: std::future::Future>(fut: F, polls: u8, gap: u8) -> Option<F::Output> {
    let mut fut = Box::pin(fut);
    for i in 0..polls {
        if i > 0 {
            for _ in 0..gap {
                tokio::task::yield_now().await;
            }
        }
        let r = std::future::poll_fn(|cx| std::task::Poll::Ready(fut.as_mut().poll(cx))).await;
        if let std::task::Poll::Ready(v) = r {
            return Some(v);
        }
    }
    None
}

async fn api_client(c: usize, prog: Prog, st: State, keys: Arc<Vec<Vec<u8>>>, rec: Arc<Recorder>) -> Result<(), String> {
    for PStep { yields, cancel, op } in prog {
        for _ in 0..yields {
            tokio::task::yield_now().await;
        }
        let inv = rec.stamp();
        let out = match cancel {
            None => Some(run_op(&st, &keys, &op).await),
            Some((polls, gap)) => poll_then_drop(run_op(&st, &keys, &op), polls, gap).await,
        };
        match out {
            Some(out) => {
                let out = out?;
                let res = rec.stamp();
                rec.record(c, inv, res, out);
            }
            None => rec.record_cancelled(c, inv, &op),
        }
    }
    Ok(())
}


/// Wait for the client tasks. A reply that never arrives (lost wake-up, reply handed to another
/// requester) must not hang the check: on a current-thread runtime with no timers and no I/O,
/// nothing can change once every task is parked, so "no stamp was taken during `IDLE_ROUNDS`
/// consecutive scheduler rounds" is a structural deadlock verdict, not a timer. On the
/// multi-thread runtime the same loop sleeps 1 ms per round (wall clock only bounds the wait).
const IDLE_ROUNDS: u32 = 4000;

async fn drive(handles: Vec<tokio::task::JoinHandle<Result<(), String>>>, rec: &Recorder, multi_thread: bool) -> Result<(), String> {
    let mut idle = 0u32;
    let mut last = rec.clock.load(Ordering::SeqCst);
    let limit = if multi_thread { 120_000 } else { IDLE_ROUNDS };
    while !handles.iter().all(|h| h.is_finished()) {
        if multi_thread {
            tokio::time::sleep(std::time::Duration::from_millis(1)).await;
        } else {
            tokio::task::yield_now().await;
        }
        let now = rec.clock.load(Ordering::SeqCst);
        if now == last {
            idle += 1;
        } else {
            idle = 0;
            last = now;
        }
        if idle > limit {
            let stuck: Vec<usize> = handles.iter().enumerate().filter(|(_, h)| !h.is_finished()).map(|(c, _)| c).collect();
            for h in &handles {
                h.abort();
            }
            let done = rec.hist.lock().unwrap().clone();
            return Err(format!(
                "clients {:?} never received a reply: no client made progress during {} scheduler rounds although nothing else can happen (lost wake-up, or the reply was handed to another requester)\n    history so far:\n{}",
                stuck, limit, show_history(&done)
            ));
        }
    }
    for (c, h) in handles.into_iter().enumerate() {
        match h.await {
            Ok(Ok(())) => {}
            Ok(Err(e)) => return Err(format!("client {}: {}", c, e)),
            Err(e) => return Err(format!("client {} task failed: {}", c, e)),
        }
    }
    Ok(())
}

async fn api_history(case: &Case, n: usize, progs: Vec<Prog>, multi_thread: bool) -> Result<Vec<Entry>, String> {
    let time = VerifTime::new(0);
    let st = mk_state(n, case.pool, &time);
    let keys = Arc::new(case.keys.clone());
    let rec = Recorder::new();
    let mut handles = Vec::new();
    for (c, prog) in progs.into_iter().enumerate() {
        handles.push(tokio::spawn(api_client(c, prog, st.clone(), keys.clone(), rec.clone())));
    }
    drive(handles, &rec, multi_thread).await?;
    // a final read of every key after everything returned (pins the final state)
    for k in 0..case.keys.len() {
        let inv = rec.stamp();
        let r = exec_generic(&st, &a(&[b"GET", &keys[k]])).await;
        let res = rec.stamp();
        rec.record(usize::MAX, inv, res, vec![(k, MOp::Get, r)]);
    }
    let h = rec.hist.lock().unwrap().clone();
    Ok(h)
}

type ProdState = ShardedActorState;
type ServerHandles = Arc<Mutex<Vec<tokio::task::JoinHandle<()>>>>;

fn connect(st: &ProdState, servers: &ServerHandles) -> tokio::io::DuplexStream {
    let (client_end, server_end) = tokio::io::duplex(1 << 16);
    let state = st.clone();
    let h = tokio::spawn(async move { verif_hooks::run_connection(server_end, state, ConnectionConfig::default()).await });
    servers.lock().unwrap().push(h);
    client_end
}

/// one client of the connection tier: writes one command, reads exactly one reply. A cancelled
/// step writes the command and cuts the connection without reading; the rest of the program
/// continues on a fresh connection.
async fn conn_client(c: usize, prog: Prog, st: ProdState, servers: ServerHandles, keys: Arc<Vec<Vec<u8>>>, rec: Arc<Recorder>) -> Result<(), String> {
    let mut io = connect(&st, &servers);
    let mut buf: Vec<u8> = Vec::new();
    let mut tmp = [0u8; 4096];
    for PStep { yields, cancel, op } in prog {
        for _ in 0..yields {
            tokio::task::yield_now().await;
        }
        let argv = argv_of(&keys, &op, true);
        let inv = rec.stamp();
        if let Some((polls, gap)) = cancel {
            if polls > 0 {
                io.write_all(&encode_command(&argv)).await.map_err(|e| format!("write: {}", e))?;
                for _ in 0..(polls - 1) * gap {
                    tokio::task::yield_now().await;
                }
            }
            drop(io);
            buf.clear();
            rec.record_cancelled(c, inv, &op);
            io = connect(&st, &servers);
            continue;
        }
        io.write_all(&encode_command(&argv)).await.map_err(|e| format!("write: {}", e))?;
        let reply = loop {
            match decode_reply(&buf) {
                Ok((r, used)) => {
                    buf.drain(..used);
                    break r;
                }
                Err(DecodeError::Incomplete) => {
                    let got = io.read(&mut tmp).await.map_err(|e| format!("read: {}", e))?;
                    if got == 0 {
                        return Err(format!("connection closed while waiting for the reply to {}", vcore::resp::show_argv(&argv)));
                    }
                    buf.extend_from_slice(&tmp[..got]);
                }
                Err(DecodeError::Malformed(m)) => return Err(format!("malformed reply: {}", m)),
            }
        };
        let res = rec.stamp();
        if !buf.is_empty() {
            return Err(format!("{} surplus reply bytes after the reply to {}", buf.len(), vcore::resp::show_argv(&argv)));
        }
        rec.record(c, inv, res, project(&op, reply)?);
    }
    Ok(())
}

async fn conn_history(case: &Case, n: usize, progs: Vec<Prog>) -> Result<Vec<Entry>, String> {
    let st = ShardedActorState::with_perf_config(&perf(n, case.pool));
    let keys = Arc::new(case.keys.clone());
    let rec = Recorder::new();
    let servers: ServerHandles = Arc::new(Mutex::new(Vec::new()));
    let mut clients = Vec::new();
    for (c, prog) in progs.into_iter().enumerate() {
        clients.push(tokio::spawn(conn_client(c, prog, st.clone(), servers.clone(), keys.clone(), rec.clone())));
    }
    drive(clients, &rec, false).await?;
    let handles: Vec<_> = std::mem::take(&mut *servers.lock().unwrap());
    for (c, h) in handles.into_iter().enumerate() {
        if let Err(e) = h.await {
            return Err(format!("connection handler {} failed: {}", c, e));
        }
    }
    for k in 0..case.keys.len() {
        let inv = rec.stamp();
        let r = exec_generic(&st, &a(&[b"GET", &keys[k]])).await;
        let res = rec.stamp();
        rec.record(usize::MAX, inv, res, vec![(k, MOp::Get, r)]);
    }
    let h = rec.hist.lock().unwrap().clone();
    Ok(h)
}

#[derive(Clone, Copy, PartialEq, Eq)]
enum Mode {
    /// current-thread runtime, harness-owned schedule
    Sched,
    /// concurrent connection handlers, current-thread runtime
    Conn,
    /// multi-thread runtime
    Stress,
}

/// ≥ 2 clients overlap in time on one key with ≥ 1 write and ≥ 1 read among the overlapping ops
fn has_rw_overlap(h: &[Entry]) -> bool {
    for x in h {
        if !x.op.is_read() || x.client == usize::MAX {
            continue;
        }
        for y in h {
            if y.key == x.key && y.client != x.client && y.client != usize::MAX && !y.pending && y.op.is_write() && x.inv < y.res && y.inv < x.res {
                return true;
            }
        }
    }
    false
}

fn judge(h: &[Entry], nkeys: usize, ctx: &mut CaseCtx<'_>, what: &str) -> Result<(), (String, Vec<Entry>)> {
    for k in 0..nkeys {
        let hk: Vec<Entry> = h.iter().filter(|e| e.key == k).cloned().collect();
        match check_key(&hk, &None, SEARCH_BUDGET) {
            Verdict::Linearizable => {}
            Verdict::Budget => ctx.label("search_budget_exhausted"),
            Verdict::NotLinearizable(why) => {
                return Err((
                    format!(
                        "{}: the history of key #{} is not linearizable\n    {}    history of the key (stamps from one logical clock):\n{}",
                        what, k, why, show_history(&hk)
                    ),
                    hk,
                ))
            }
        }
    }
    Ok(())
}

fn check_case(case: &Case, mode: Mode, session: &Session, ctx: &mut CaseCtx<'_>) -> Result<(), String> {
    if case.keys.is_empty() || case.clients.is_empty() {
        return Ok(());
    }
    let r = routing();
    let kf_open = ctx.finding_open(KF_HASH);
    let mut fp: Vec<Entry> = Vec::new();
    let mut nontrivial = false;
    for &n in &case.shard_counts {
        if n == 0 || n > 256 {
            continue;
        }
        // KF-C02-01 (= KF-C03-01): while open, a key the two routers place differently at this
        // shard count is only reached through the generic router (excluded by construction).
        let split: Vec<bool> = case.keys.iter().map(|k| kf_open && r.split(k, n)).collect();
        let coerce = |k: usize| split[k];
        let mut coerced = 0u64;
        let progs: Vec<Prog> = (0..case.clients.len()).map(|c| resolve(case, c, &coerce, &mut coerced)).collect();
        for _ in 0..coerced {
            ctx.tolerate(KF_HASH);
        }
        if coerced > 0 {
            ctx.label("ops_coerced_to_generic");
        }
        let mixes_paths = progs.iter().flatten().any(|st| {
            matches!(&st.op, ROp::Get { path, .. } | ROp::Set { path, .. } if *path != Path::Generic)
                || matches!(&st.op, ROp::BatchGet { .. } | ROp::BatchSet { .. })
        });
        let cancels = progs.iter().flatten().filter(|st| st.cancel.is_some()).count();
        let pooled_cancels = progs
            .iter()
            .flatten()
            .filter(|st| st.cancel.is_some() && matches!(&st.op, ROp::Get { path: Path::Pooled, .. } | ROp::Set { path: Path::Pooled, .. }))
            .count();
        let run = |progs: Vec<Prog>| -> Result<Vec<Entry>, String> {
            match mode {
                Mode::Sched => vcore::block_on(api_history(case, n, progs, false)),
                Mode::Conn => vcore::block_on(conn_history(case, n, progs)),
                Mode::Stress => {
                    let rt = tokio::runtime::Builder::new_multi_thread()
                        .worker_threads(4)
                        .enable_all()
                        .build()
                        .map_err(|e| e.to_string())?;
                    let out = rt.block_on(api_history(case, n, progs, true));
                    drop(rt);
                    out
                }
            }
        };
        let h = run(progs.clone()).map_err(|e| format!("{} shard(s): {}", n, e))?;
        // the schedule is meant to be a function of the case: sample-check that
        if mode == Mode::Sched && (h.len() + n) % 8 == 0 {
            let h2 = run(progs).map_err(|e| format!("{} shard(s), second run: {}", n, e))?;
            if h2 != h {
                // measured cause: MGET/MSET fan-out iterates a std HashMap (RandomState) inside the
                // code under test, so the order in which shards are messaged varies per process run
                let fanout = case.clients.iter().flatten().any(|o| matches!(o.kind, Kind::MGet | Kind::MSet | Kind::BatchGet | Kind::BatchSet));
                ctx.label(if fanout && n > 1 { "schedule_not_reproducible(fanout_op_present)" } else { "schedule_not_reproducible(other)" });
            } else {
                ctx.label("schedule_reproduced");
            }
        }
        let what = format!(
            "{} shard(s), {} clients, response pool {:?}{}",
            n,
            case.clients.len(),
            case.pool,
            match mode {
                Mode::Sched => "",
                Mode::Conn => ", through connection handlers",
                Mode::Stress => ", multi-thread runtime",
            }
        );
        if let Err((msg, hk)) = judge(&h, case.keys.len(), ctx, &what) {
            if mode == Mode::Stress {
                // the schedule is not reproducible: save the recorded history as the replay
                session.violation(
                    "checker_hand",
                    &HistCase { name: format!("recorded by stress: {}", what), entries: hk, linearizable: true },
                    &msg,
                );
                return Ok(());
            }
            return Err(msg);
        }
        ctx.add_evaluations(1);
        ctx.label(&format!("n={}", n));
        if mixes_paths {
            ctx.label(if n > 1 { "fast_family_paths_used(n>1)" } else { "fast_family_paths_used(n=1)" });
        }
        if cancels > 0 {
            ctx.label("request_cancelled");
        }
        if pooled_cancels > 0 {
            ctx.label("pooled_request_cancelled");
        }
        if h.iter().any(|e| e.pending) {
            ctx.label("history_has_op_without_response");
        }
        if has_rw_overlap(&h) {
            nontrivial = true;
            ctx.label("rw_overlap");
        }
        fp.extend(h);
    }
    if nontrivial {
        ctx.nontrivial(&fp);
    }
    Ok(())
}

// ---------------------------------------------------------------------------------------
// generators
// ---------------------------------------------------------------------------------------

fn op_spec() -> BoxedStrategy<OpSpec> {
    let path = || {
        prop_oneof![
            3 => Just(Path::Generic),
            2 => Just(Path::Fast),
            3 => Just(Path::Pooled),
            2 => Just(Path::Batch),
        ]
    };
    let kind = prop_oneof![
        10 => path().prop_map(Kind::Get),
        8 => path().prop_map(Kind::Set),
        4 => Just(Kind::Incr),
        3 => Just(Kind::Append),
        3 => Just(Kind::GetSet),
        2 => Just(Kind::SetNx),
        3 => Just(Kind::Del),
        3 => Just(Kind::Cas),
        2 => Just(Kind::Rmw),
        2 => Just(Kind::BatchGet),
        2 => Just(Kind::BatchSet),
        1 => Just(Kind::MGet),
        1 => Just(Kind::MSet),
    ];
    let yields = prop_oneof![5 => Just(0u8), 4 => 1u8..4, 1 => 4u8..12];
    // request cancellation (≈ 7 % of the steps): polls before the drop 0 (never sent), 1 (sent,
    // dropped before the actor can run), 2-3 with 0-2 yields between polls (gap 0: still dropped
    // in flight; gap > 0: the actor usually answers first and the op completes normally)
    let cancel = prop_oneof![
        13 => Just(None),
        1 => (prop_oneof![1 => Just(0u8), 5 => Just(1u8), 2 => Just(2u8), 1 => Just(3u8)], 0u8..3).prop_map(Some),
    ];
    (kind, any::<u8>(), any::<bool>(), any::<u16>(), yields, cancel)
        .prop_map(|(kind, key, numeric, pick, yields, cancel)| OpSpec { kind, key, numeric, pick, yields, cancel })
        .boxed()
}

fn case_strategy(clients: std::ops::RangeInclusive<usize>, ops: std::ops::RangeInclusive<usize>, shard_counts: Vec<usize>) -> BoxedStrategy<Case> {
    let names = key_names().clone();
    let keys = proptest::collection::vec(any::<u16>(), 1..=3).prop_map(move |sel| {
        let mut out: Vec<Vec<u8>> = Vec::new();
        for s in sel {
            let k = names[(s as usize * names.len()) >> 16].clone();
            if !out.contains(&k) {
                out.push(k);
            }
        }
        out
    });
    // tiny pools make a recycled slot come back within a few requests
    let pool = prop_oneof![
        3 => Just((256usize, 64usize)),
        3 => Just((1usize, 1usize)),
        2 => Just((2usize, 1usize)),
        1 => Just((2usize, 0usize)),
        2 => Just((3usize, 3usize)),
        1 => Just((3usize, 1usize)),
        // roomy pools that start (almost) empty: the pool has to grow under the first few
        // concurrent requests - the path a pre-warmed default pool only takes above 64 in flight
        1 => Just((16usize, 0usize)),
        1 => Just((64usize, 1usize)),
        1 => Just((256usize, 0usize)),
        1 => Just((256usize, 2usize)),
    ];
    (
        keys,
        pool,
        proptest::collection::vec(proptest::collection::vec(op_spec(), ops), clients),
    )
        .prop_map(move |(keys, pool, clients)| Case { shard_counts: shard_counts.clone(), keys, pool, clients })
        .boxed()
}


// ---------------------------------------------------------------------------------------
// seq_ttl: one client, TTL-bearing commands, a harness clock that only moves forward
// ---------------------------------------------------------------------------------------
//
// Concurrent histories with expiry cannot be judged soundly here: the time a command runs at is
// sampled in the client task before the message is queued, `set_time` is an assignment (a later
// message may carry an earlier time), and the fast paths carry no time at all. What can be
// judged exactly is the sequential case: one client, every reply must be the one the sequential
// model gives at the harness clock value. A violation is a "sequential witness" (e.g. EXISTS 0,
// then DEL 1 with no write in between): no total order of the commands explains it, for any
// number of clients.

#[derive(Clone, Copy, Debug, PartialEq, Eq, Hash, Serialize, Deserialize)]
enum TKind {
    Get(Path),
    Set(Path),
    SetPx,
    PExpire,
    Persist,
    Pttl,
    Ttl,
    Exists,
    Del,
    Incr,
    Append,
    SetNx,
    MSetNx,
    EvalDel,
}

#[derive(Clone, Debug, Serialize, Deserialize)]
enum TStep {
    Op { kind: TKind, key: u8, ms: u16, numeric: bool },
    /// advance the harness clock; `tick` = the TTL manager runs (evict_expired_all_shards)
    Clock { ms: u64, tick: bool },
}

#[derive(Clone, Debug, Serialize, Deserialize)]
struct TtlCase {
    shards: usize,
    pool: (usize, usize),
    keys: Vec<Vec<u8>>,
    steps: Vec<TStep>,
}

const DEL_SCRIPT: &[u8] = b"return redis.call('DEL', KEYS[1])";

fn show_tstep(keys: &[Vec<u8>], i: usize, st: &TStep) -> String {
    match st {
        TStep::Clock { ms, tick } => format!("clock += {} ms{}", ms, if *tick { " + TTL tick" } else { "" }),
        TStep::Op { kind, key, ms, .. } => {
            let k = vcore::show(&keys[key_index(*key, keys.len())]);
            match kind {
                TKind::Get(p) => format!("GET {} [{:?}]", k, p),
                TKind::Set(p) => format!("SET {} t{} [{:?}]", k, i, p),
                TKind::SetPx => format!("SET {} t{} PX {}", k, i, ms),
                TKind::PExpire => format!("PEXPIRE {} {}", k, ms),
                TKind::Persist => format!("PERSIST {}", k),
                TKind::Pttl => format!("PTTL {}", k),
                TKind::Ttl => format!("TTL {}", k),
                TKind::Exists => format!("EXISTS {}", k),
                TKind::Del => format!("DEL {}", k),
                TKind::Incr => format!("INCR {}", k),
                TKind::Append => format!("APPEND {} +a{}", k, i),
                TKind::SetNx => format!("SETNX {} t{}", k, i),
                TKind::MSetNx => format!("MSETNX {} t{}", k, i),
                TKind::EvalDel => format!("EVAL \"return redis.call('DEL', KEYS[1])\" 1 {}", k),
            }
        }
    }
}

fn check_ttl(case: &TtlCase, ctx: &mut CaseCtx<'_>) -> Result<(), String> {
    if case.keys.is_empty() || case.shards == 0 || case.shards > 256 {
        return Ok(());
    }
    vcore::block_on(run_ttl(case, ctx))
}

async fn run_ttl(case: &TtlCase, ctx: &mut CaseCtx<'_>) -> Result<(), String> {
    let time = VerifTime::new(0);
    let st = mk_state(case.shards, case.pool, &time);
    let keys = &case.keys;
    let nk = keys.len();
    // sequential model: value and optional deadline (harness clock, ms) per key
    let mut model: Vec<Option<(Vec<u8>, Option<u64>)>> = vec![None; nk];
    let mut now = 0u64;
    let mut stale = false;
    let mut observed_expiry = false;
    let kf_stale_open = ctx.finding_open(KF_STALE);
    let program = |upto: usize| {
        let from = upto.saturating_sub(16);
        let mut s = String::new();
        for (i, t) in case.steps.iter().enumerate().take(upto + 1).skip(from) {
            s.push_str(&format!("      #{:<3} {}\n", i, show_tstep(keys, i, t)));
        }
        s
    };
    for (i, step) in case.steps.iter().enumerate() {
        let (kind, key, ms, numeric) = match step {
            TStep::Clock { ms, tick } => {
                now = time.advance(*ms);
                if *tick {
                    st.evict_expired_all_shards().await;
                    stale = false;
                } else if *ms > 0 {
                    stale = true;
                }
                continue;
            }
            TStep::Op { kind, key, ms, numeric } => (*kind, key_index(*key, nk), (*ms).max(1) as u64, *numeric),
        };
        let k = &keys[key];
        // lazily drop what has expired in the model
        if let Some((_, Some(d))) = &model[key] {
            if *d <= now {
                model[key] = None;
                observed_expiry = true;
            }
        }
        let val: Vec<u8> = if numeric { ((i + 1) * 1000).to_string().into_bytes() } else { format!("t{}", i).into_bytes() };
        let kb = Bytes::copy_from_slice(k);
        let int = |n: i64| Reply::Int(n);
        // expected reply + model update
        let (expect, got): (Reply, Reply) = match kind {
            TKind::Get(mut path) => {
                // KF-C02-02 (= KF-C01-14 / KF-C03-05): fast-family reads do not refresh the
                // shard clock; while a clock step without TTL tick is pending they may serve an
                // expired key. Excluded by construction while open (generic entry), counted.
                if path != Path::Generic && stale && kf_stale_open && ctx.tolerate(KF_STALE) {
                    path = Path::Generic;
                }
                let e = match &model[key] {
                    Some((v, _)) => Reply::Bulk(v.clone()),
                    None => Reply::Nil,
                };
                let g = match path {
                    Path::Generic => exec_generic(&st, &a(&[b"GET", k])).await,
                    Path::Fast => Reply::from_resp(&st.fast_get(kb).await),
                    Path::Pooled => Reply::from_resp(&st.pooled_fast_get(kb).await),
                    Path::Batch => one(st.fast_batch_get_pipeline(vec![kb]).await)?,
                };
                (e, g)
            }
            TKind::Set(path) => {
                model[key] = Some((val.clone(), None));
                let vb = Bytes::copy_from_slice(&val);
                let g = match path {
                    Path::Generic => exec_generic(&st, &a(&[b"SET", k, &val])).await,
                    Path::Fast => Reply::from_resp(&st.fast_set(kb, vb).await),
                    Path::Pooled => Reply::from_resp(&st.pooled_fast_set(kb, vb).await),
                    Path::Batch => one(st.fast_batch_set_pipeline(vec![(kb, vb)]).await)?,
                };
                (Reply::ok(), g)
            }
            TKind::SetPx => {
                model[key] = Some((val.clone(), Some(now + ms)));
                (Reply::ok(), exec_generic(&st, &a(&[b"SET", k, &val, b"PX", ms.to_string().as_bytes()])).await)
            }
            TKind::PExpire => {
                let e = match &mut model[key] {
                    Some((_, d)) => {
                        *d = Some(now + ms);
                        int(1)
                    }
                    None => int(0),
                };
                (e, exec_generic(&st, &a(&[b"PEXPIRE", k, ms.to_string().as_bytes()])).await)
            }
            TKind::Persist => {
                let e = match &mut model[key] {
                    Some((_, d)) if d.is_some() => {
                        *d = None;
                        int(1)
                    }
                    _ => int(0),
                };
                (e, exec_generic(&st, &a(&[b"PERSIST", k])).await)
            }
            TKind::Pttl | TKind::Ttl => {
                let e = match &model[key] {
                    None => int(-2),
                    Some((_, None)) => int(-1),
                    Some((_, Some(d))) => {
                        let rem = (*d - now) as i64;
                        if kind == TKind::Pttl { int(rem) } else { int((rem + 500) / 1000) }
                    }
                };
                let name: &[u8] = if kind == TKind::Pttl { b"PTTL" } else { b"TTL" };
                (e, exec_generic(&st, &a(&[name, k])).await)
            }
            TKind::Exists => (int(model[key].is_some() as i64), exec_generic(&st, &a(&[b"EXISTS", k])).await),
            TKind::Del | TKind::EvalDel => {
                let e = int(model[key].is_some() as i64);
                model[key] = None;
                let g = if kind == TKind::Del {
                    exec_generic(&st, &a(&[b"DEL", k])).await
                } else {
                    exec_generic(&st, &a(&[b"EVAL", DEL_SCRIPT, b"1", k])).await
                };
                (e, g)
            }
            TKind::Incr => {
                let (r, next) = spec(&model[key].as_ref().map(|(v, _)| v.clone()), &MOp::Incr);
                let d = model[key].as_ref().and_then(|(_, d)| *d);
                model[key] = next.map(|v| (v, d));
                (r, exec_generic(&st, &a(&[b"INCR", k])).await)
            }
            TKind::Append => {
                let suffix = format!("+a{}", i).into_bytes();
                let (r, next) = spec(&model[key].as_ref().map(|(v, _)| v.clone()), &MOp::Append(suffix.clone()));
                let d = model[key].as_ref().and_then(|(_, d)| *d);
                model[key] = next.map(|v| (v, d));
                (r, exec_generic(&st, &a(&[b"APPEND", k, &suffix])).await)
            }
            TKind::SetNx | TKind::MSetNx => {
                let e = if model[key].is_some() {
                    int(0)
                } else {
                    model[key] = Some((val.clone(), None));
                    int(1)
                };
                let name: &[u8] = if kind == TKind::SetNx { b"SETNX" } else { b"MSETNX" };
                (e, exec_generic(&st, &a(&[name, k, &val])).await)
            }
        };
        let same = match (&expect, &got) {
            (Reply::Error(_), Reply::Error(_)) => expect.error_code() == got.error_code(),
            _ => expect == got,
        };
        if !same {
            return Err(format!(
                "{} shard(s), response pool {:?}, one client, harness clock {} ms: step #{} {} replied {} but the sequential model (value + deadline per key) gives {} — no order of these commands explains the reply\n    program:\n{}",
                case.shards, case.pool, now, i, show_tstep(keys, i, step), got.show(), expect.show(), program(i)
            ));
        }
    }
    ctx.label(&format!("n={}", case.shards));
    if observed_expiry {
        ctx.label("command_after_elapsed_ttl");
        ctx.nontrivial(&serde_json::to_string(case).unwrap_or_default());
    }
    Ok(())
}

fn ttl_case() -> BoxedStrategy<TtlCase> {
    let names = key_names().clone();
    let keys = proptest::collection::vec(any::<u16>(), 1..=3).prop_map(move |sel| {
        let mut out: Vec<Vec<u8>> = Vec::new();
        for s in sel {
            let k = names[(s as usize * names.len()) >> 16].clone();
            if !out.contains(&k) {
                out.push(k);
            }
        }
        out
    });
    let path = || prop_oneof![3 => Just(Path::Generic), 2 => Just(Path::Fast), 2 => Just(Path::Pooled), 2 => Just(Path::Batch)];
    let kind = move || {
        prop_oneof![
            6 => path().prop_map(TKind::Get),
            4 => path().prop_map(TKind::Set),
            4 => Just(TKind::SetPx),
            3 => Just(TKind::PExpire),
            2 => Just(TKind::Persist),
            3 => Just(TKind::Pttl),
            1 => Just(TKind::Ttl),
            3 => Just(TKind::Exists),
            3 => Just(TKind::Del),
            2 => Just(TKind::Incr),
            1 => Just(TKind::Append),
            2 => Just(TKind::SetNx),
            1 => Just(TKind::MSetNx),
            1 => Just(TKind::EvalDel),
        ]
    };
    let op = move || (kind(), any::<u8>(), 1u16..60, any::<bool>()).prop_map(|(kind, key, ms, numeric)| TStep::Op { kind, key, ms, numeric });
    let clock = prop_oneof![3 => 0u64..5, 3 => 1u64..70, 1 => 500u64..2500].prop_flat_map(|ms| any::<bool>().prop_map(move |tick| TStep::Clock { ms, tick }));
    // aimed: arm a deadline, step the clock to deadline-1 / deadline / deadline+1 (tick or not),
    // then look at the key and try to remove or recreate it
    let aimed = (any::<u8>(), 1u16..60, 0u8..3, any::<bool>(), any::<bool>(), proptest::collection::vec(kind(), 2..5)).prop_map(
        |(key, ms, rel, by_pexpire, tick, after)| {
            let mut v = Vec::new();
            if by_pexpire {
                v.push(TStep::Op { kind: TKind::Set(Path::Generic), key, ms, numeric: false });
                v.push(TStep::Op { kind: TKind::PExpire, key, ms, numeric: false });
            } else {
                v.push(TStep::Op { kind: TKind::SetPx, key, ms, numeric: false });
            }
            let step = match rel {
                0 => ms as u64 - 1,
                1 => ms as u64,
                _ => ms as u64 + 1,
            };
            v.push(TStep::Clock { ms: step, tick });
            for k in after {
                v.push(TStep::Op { kind: k, key, ms, numeric: false });
            }
            v
        },
    );
    let group = prop_oneof![
        8 => op().prop_map(|s| vec![s]),
        2 => clock.prop_map(|s| vec![s]),
        2 => aimed,
    ];
    let pool = prop_oneof![2 => Just((256usize, 64usize)), 1 => Just((1usize, 1usize)), 1 => Just((2usize, 1usize))];
    (
        prop_oneof![Just(1usize), Just(2usize), Just(4usize), Just(16usize)],
        pool,
        keys,
        proptest::collection::vec(group, 1..14),
    )
        .prop_map(|(shards, pool, keys, groups)| TtlCase { shards, pool, keys, steps: groups.into_iter().flatten().collect() })
        .boxed()
}

// ---------------------------------------------------------------------------------------
// the checker's own tests
// ---------------------------------------------------------------------------------------

#[derive(Clone, Debug, Serialize, Deserialize)]
struct HistCase {
    name: String,
    entries: Vec<Entry>,
    linearizable: bool,
}

fn e(client: usize, op: MOp, reply: Reply, inv: u64, res: u64) -> Entry {
    Entry { client, key: 0, op, reply, inv, res, pending: false }
}

/// an op without response (request cancelled in flight)
fn pend(client: usize, op: MOp, inv: u64) -> Entry {
    Entry { client, key: 0, op, reply: Reply::Nil, inv, res: u64::MAX, pending: true }
}

fn hand_histories() -> Vec<HistCase> {
    let b = |s: &str| Reply::Bulk(s.as_bytes().to_vec());
    let v = |s: &str| s.as_bytes().to_vec();
    let ok = Reply::ok;
    let mut out = Vec::new();
    let mut add = |name: &str, linearizable: bool, entries: Vec<Entry>| {
        out.push(HistCase { name: name.to_string(), entries, linearizable })
    };
    add("empty", true, vec![]);
    add("sequential set/get", true, vec![e(0, MOp::Set(v("a")), ok(), 1, 2), e(1, MOp::Get, b("a"), 3, 4)]);
    add("read of nil after a completed set", false, vec![e(0, MOp::Set(v("a")), ok(), 1, 2), e(1, MOp::Get, Reply::Nil, 3, 4)]);
    add("concurrent set/get may see either (nil)", true, vec![e(0, MOp::Set(v("a")), ok(), 1, 4), e(1, MOp::Get, Reply::Nil, 2, 3)]);
    add("concurrent set/get may see either (a)", true, vec![e(0, MOp::Set(v("a")), ok(), 1, 4), e(1, MOp::Get, b("a"), 2, 3)]);
    add("read of a value never written", false, vec![e(0, MOp::Set(v("a")), ok(), 1, 4), e(1, MOp::Get, b("zz"), 2, 3)]);
    add(
        "stale read: new value seen, then old value by a later read",
        false,
        vec![
            e(0, MOp::Set(v("a")), ok(), 1, 2),
            e(0, MOp::Set(v("b")), ok(), 3, 10),
            e(1, MOp::Get, b("b"), 4, 5),
            e(2, MOp::Get, b("a"), 6, 7),
        ],
    );
    add(
        "two reads overlapping a write in either order",
        true,
        vec![
            e(0, MOp::Set(v("a")), ok(), 1, 2),
            e(0, MOp::Set(v("b")), ok(), 3, 10),
            e(1, MOp::Get, b("a"), 4, 5),
            e(2, MOp::Get, b("b"), 6, 7),
        ],
    );
    add(
        "lost update: two concurrent INCRs both reply 1",
        false,
        vec![e(0, MOp::Incr, Reply::Int(1), 1, 4), e(1, MOp::Incr, Reply::Int(1), 2, 3)],
    );
    add(
        "two concurrent INCRs reply 1 and 2",
        true,
        vec![e(0, MOp::Incr, Reply::Int(2), 1, 4), e(1, MOp::Incr, Reply::Int(1), 2, 3), e(2, MOp::Get, b("2"), 5, 6)],
    );
    add(
        "both SETNX win",
        false,
        vec![e(0, MOp::SetNx(v("a")), Reply::Int(1), 1, 4), e(1, MOp::SetNx(v("b")), Reply::Int(1), 2, 3)],
    );
    add(
        "GETSET chain",
        true,
        vec![
            e(0, MOp::GetSet(v("a")), Reply::Nil, 1, 5),
            e(1, MOp::GetSet(v("b")), b("a"), 2, 6),
            e(2, MOp::Get, b("b"), 7, 8),
        ],
    );
    add(
        "GETSET returns a value that was already replaced before it started",
        false,
        vec![
            e(0, MOp::Set(v("a")), ok(), 1, 2),
            e(0, MOp::Set(v("b")), ok(), 3, 4),
            e(1, MOp::GetSet(v("c")), b("a"), 5, 6),
        ],
    );
    add(
        "DEL and APPEND interleave",
        true,
        vec![
            e(0, MOp::Append(v("xy")), Reply::Int(2), 1, 2),
            e(1, MOp::Del, Reply::Int(1), 3, 8),
            e(2, MOp::Append(v("z")), Reply::Int(1), 4, 7),
            e(3, MOp::Get, b("z"), 9, 10),
        ],
    );
    add(
        "APPEND length that no order explains",
        false,
        vec![e(0, MOp::Append(v("xy")), Reply::Int(2), 1, 4), e(1, MOp::Append(v("z")), Reply::Int(1), 2, 3), e(2, MOp::Get, b("xy"), 5, 6)],
    );
    add(
        "CAS succeeds twice on the same expectation",
        false,
        vec![
            e(0, MOp::Set(v("a")), ok(), 1, 2),
            e(1, MOp::Cas { expect: v("a"), new: v("b") }, Reply::Int(1), 3, 6),
            e(2, MOp::Cas { expect: v("a"), new: v("c") }, Reply::Int(1), 4, 5),
        ],
    );
    add(
        "CAS: one wins, one loses",
        true,
        vec![
            e(0, MOp::Set(v("a")), ok(), 1, 2),
            e(1, MOp::Cas { expect: v("a"), new: v("b") }, Reply::Int(1), 3, 6),
            e(2, MOp::Cas { expect: v("a"), new: v("c") }, Reply::Int(0), 4, 5),
            e(3, MOp::Get, b("b"), 7, 8),
        ],
    );
    add(
        "RMW scripts are atomic: second sees the first's suffix",
        true,
        vec![e(0, MOp::Rmw(v("~1")), b(""), 1, 4), e(1, MOp::Rmw(v("~2")), b("~1"), 2, 5), e(2, MOp::Get, b("~1~2"), 6, 7)],
    );
    add(
        "RMW scripts interleaved (both read the empty value)",
        false,
        vec![e(0, MOp::Rmw(v("~1")), b(""), 1, 4), e(1, MOp::Rmw(v("~2")), b(""), 2, 5)],
    );
    add(
        "INCR on a non-integer errors and changes nothing",
        true,
        vec![
            e(0, MOp::Set(v("abc")), ok(), 1, 2),
            e(1, MOp::Incr, Reply::Error(lin::INCR_ERR.to_vec()), 3, 4),
            e(2, MOp::Get, b("abc"), 5, 6),
        ],
    );
    add(
        "reply handed to the wrong requester (two pooled GETs swap replies of different keys' values)",
        false,
        vec![e(0, MOp::Set(v("a")), ok(), 1, 2), e(1, MOp::Get, b("other-key-value"), 3, 4)],
    );
    add("error reply where the model has a value", false, vec![e(0, MOp::Get, Reply::Error(b"ERR shard unavailable".to_vec()), 1, 2)]);
    // ---- ops without response (request cancelled in flight): optional, any time after inv
    add("only a cancelled write", true, vec![pend(0, MOp::Set(v("a")), 1)]);
    add("cancelled SET took effect", true, vec![pend(0, MOp::Set(v("a")), 1), e(1, MOp::Get, b("a"), 2, 3)]);
    add("cancelled SET never took effect", true, vec![pend(0, MOp::Set(v("a")), 1), e(1, MOp::Get, Reply::Nil, 2, 3), e(1, MOp::Get, Reply::Nil, 4, 5)]);
    add(
        "cancelled SET took effect late (after a read that missed it)",
        true,
        vec![pend(0, MOp::Set(v("a")), 1), e(1, MOp::Get, Reply::Nil, 2, 3), e(1, MOp::Get, b("a"), 4, 5)],
    );
    add(
        "cancelled SET seen, then gone again without any other write",
        false,
        vec![pend(0, MOp::Set(v("a")), 1), e(1, MOp::Get, b("a"), 2, 3), e(1, MOp::Get, Reply::Nil, 4, 5)],
    );
    add(
        "cancelled SET observed before it was invoked",
        false,
        vec![e(1, MOp::Get, b("a"), 1, 2), pend(0, MOp::Set(v("a")), 5)],
    );
    add(
        "cancelled SET may be ordered after a later completed SET",
        true,
        vec![pend(0, MOp::Set(v("a")), 1), e(1, MOp::Set(v("b")), ok(), 2, 3), e(2, MOp::Get, b("a"), 4, 5)],
    );
    add(
        "cancelled SET may be ordered before a later completed SET",
        true,
        vec![pend(0, MOp::Set(v("a")), 1), e(1, MOp::Set(v("b")), ok(), 2, 3), e(2, MOp::Get, b("b"), 4, 5), e(2, MOp::Get, b("b"), 6, 7)],
    );
    add(
        "cancelled SET applied twice (a, b, a again)",
        false,
        vec![
            pend(0, MOp::Set(v("a")), 1),
            e(2, MOp::Get, b("a"), 2, 3),
            e(1, MOp::Set(v("b")), ok(), 4, 5),
            e(2, MOp::Get, b("b"), 6, 7),
            e(2, MOp::Get, b("a"), 8, 9),
        ],
    );
    add("cancelled INCR applied once", true, vec![pend(0, MOp::Incr, 1), e(1, MOp::Get, b("1"), 2, 3), e(1, MOp::Incr, Reply::Int(2), 4, 5)]);
    add("cancelled INCR applied twice", false, vec![pend(0, MOp::Incr, 1), e(1, MOp::Get, b("2"), 2, 3)]);
    add(
        "cancelled DEL: value, then gone",
        true,
        vec![e(0, MOp::Set(v("a")), ok(), 1, 2), pend(1, MOp::Del, 3), e(2, MOp::Get, b("a"), 4, 5), e(2, MOp::Get, Reply::Nil, 6, 7)],
    );
    add(
        "cancelled DEL: gone, then back without a write",
        false,
        vec![e(0, MOp::Set(v("a")), ok(), 1, 2), pend(1, MOp::Del, 3), e(2, MOp::Get, Reply::Nil, 4, 5), e(2, MOp::Get, b("a"), 6, 7)],
    );
    add(
        "two cancelled writes and a CAS that needs one of them",
        true,
        vec![
            pend(0, MOp::Set(v("a")), 1),
            pend(1, MOp::Append(v("+x")), 2),
            e(2, MOp::Cas { expect: v("a"), new: v("c") }, Reply::Int(1), 3, 4),
            e(2, MOp::Get, b("c+x"), 5, 6),
        ],
    );
    add(
        "stale reply from a recycled slot: SET answered with the value a cancelled GET fetched",
        false,
        vec![e(0, MOp::Set(v("a")), ok(), 1, 2), e(1, MOp::Set(v("b")), b("a"), 5, 6)],
    );
    add(
        "stale reply from a recycled slot: GET answered with +OK",
        false,
        vec![e(0, MOp::Set(v("a")), ok(), 1, 2), e(1, MOp::Get, Reply::ok(), 3, 4)],
    );
    add(
        "stale read long after an acknowledged SET (reply shifted by one in the pool)",
        false,
        vec![e(0, MOp::Set(v("a")), ok(), 1, 2), pend(9, MOp::Set(v("z")), 3), e(0, MOp::Set(v("b")), ok(), 4, 5), e(0, MOp::Get, b("a"), 6, 7)],
    );
    out
}

#[derive(Clone, Debug, Serialize, Deserialize)]
struct SeqCase {
    ops: Vec<(u8, u8)>, // (op kind selector, value selector)
    widen: Vec<(u8, u8)>,
    /// index selector of the GET to corrupt
    corrupt: u16,
    /// per op: 1 = the write was cancelled in flight but took effect (no response),
    /// 2 = cancelled and never took effect (no response, not applied); else answered
    #[serde(default)]
    lost: Vec<u8>,
}

fn seq_op(kind: u8, val: u8, i: usize) -> MOp {
    let uniq = |p: &str| format!("{}{}", p, i).into_bytes();
    match kind % 10 {
        0 | 1 => MOp::Get,
        2 => MOp::Set(if val % 2 == 0 { (1000 * (i + 1)).to_string().into_bytes() } else { uniq("s") }),
        3 => MOp::SetNx(uniq("n")),
        4 => MOp::GetSet(uniq("g")),
        5 => MOp::Del,
        6 => MOp::Incr,
        7 => MOp::Append(uniq("+a")),
        8 => MOp::Cas { expect: format!("s{}", (val as usize) % (i + 1)).into_bytes(), new: uniq("x") },
        _ => MOp::Rmw(uniq("~r")),
    }
}

fn check_seq(case: &SeqCase, ctx: &mut CaseCtx<'_>) -> Result<(), String> {
    // sequential execution against the specification
    let mut state: St = None;
    let mut hist: Vec<Entry> = Vec::new();
    for (i, (kind, val)) in case.ops.iter().enumerate() {
        let op = seq_op(*kind, *val, i);
        let (reply, next) = spec(&state, &op);
        let t = 100 * (i as u64 + 1);
        let lost = if op.is_write() { case.lost.get(i).copied().unwrap_or(0) } else { 0 };
        if lost != 2 {
            state = next;
        }
        if lost == 1 || lost == 2 {
            hist.push(Entry { client: i % 4, key: 0, op, reply: Reply::Nil, inv: t, res: u64::MAX, pending: true });
        } else {
            hist.push(Entry { client: i % 4, key: 0, op, reply, inv: t, res: t + 1, pending: false });
        }
    }
    // widening intervals keeps the sequential order admissible
    let mut wide = hist.clone();
    for (i, en) in wide.iter_mut().enumerate() {
        let (l, r) = case.widen.get(i).copied().unwrap_or((0, 0));
        en.inv = en.inv.saturating_sub(l as u64 * 7);
        en.res = en.res.saturating_add(r as u64 * 7);
    }
    match check_key(&wide, &None, SEARCH_BUDGET) {
        Verdict::Linearizable => {}
        Verdict::Budget => ctx.label("search_budget_exhausted"),
        Verdict::NotLinearizable(why) => {
            return Err(format!("CHECKER DEFECT: a sequential history with widened intervals was rejected\n    {}\n{}", why, show_history(&wide)))
        }
    }
    // a read of a value that was never written must be rejected (exact sequential stamps)
    let gets: Vec<usize> = hist.iter().enumerate().filter(|(_, en)| en.op == MOp::Get).map(|(i, _)| i).collect();
    if !gets.is_empty() {
        let g = gets[(case.corrupt as usize * gets.len()) >> 16];
        let mut bad = wide.clone();
        bad[g].reply = Reply::Bulk(b"never-written".to_vec());
        match check_key(&bad, &None, SEARCH_BUDGET) {
            Verdict::NotLinearizable(_) => {}
            Verdict::Budget => ctx.label("search_budget_exhausted"),
            Verdict::Linearizable => {
                return Err(format!("CHECKER DEFECT: a history with a read of a never-written value was accepted\n{}", show_history(&bad)))
            }
        }
        if case.ops.len() >= 4 {
            ctx.nontrivial(&(case.ops.clone(), case.widen.clone()));
        }
    }
    Ok(())
}

fn main() {
    let args = vcore::parse_args();
    let s = Session::new(
        "C02",
        Level::Exploration,
        "2-5 client programs (5-25 ops: GET/SET via generic|fast|pooled|batch entry, INCR, APPEND, GETSET, SETNX, DEL, EVAL compare-and-set, EVAL read-modify-write, \
         batch pipelines and MGET/MSET as per-key projections) over 1-3 shared keys with unique written values; shard counts 1,2,4,16; response pool sizes 1..256; \
         schedule = generated yield_now counts before every client step on a current-thread runtime (conn_clients: through concurrent connection handlers; stress: multi-thread runtime). \
         non-trivial = in the recorded history at least two different clients overlap in time on one key with one of the overlapping ops a read and another a write; \
         distinct by the full recorded histories (ops, replies, stamps) of the case",
        &args,
    );
    let r = calibrate();
    let _ = ROUTING.set(r);
    let _ = KEY_NAMES.set(build_key_names(&r));
    s.note(
        "routing_replica",
        json!({"generic": format!("{:?}", r.generic), "fast": format!("{:?}", r.fast), "calibrated_against_randomkey_shard0": r.calibrated,
               "keys": key_names().iter().map(|k| vcore::show(k)).collect::<Vec<_>>()}),
    );
    s.assume("sequential model of one string key (GET, SET, SETNX, GETSET, DEL, INCR on canonical integers, APPEND, two fixed Lua scripts); written values are unique per history");
    s.assume("the tokio current-thread scheduler is deterministic for tasks that only use channels and yield_now (sample-checked: label schedule_reproduced / schedule_not_reproducible)");
    s.assume("TTL-bearing commands are not part of the op set (shard clocks are not part of this property's model); the harness clock stays at 0");
    s.assume("multi-key ops (MGET/MSET/batch pipelines) are judged through their per-key projections only, not as atomic multi-key operations");
    s.assume("key classification for the known-finding exclusion replicates hash_key/hash_key_bytes (std DefaultHasher over str / [u8])");

    // ---- the routing finding, seen from this property: even a sequential history breaks
    s.probe(
        KF_HASH,
        json!({"shards": 16, "history": ["client 0: fast_set k0 v0_0", "client 0: GET k0 (generic)"]}),
        || {
            let case = Case {
                shard_counts: vec![16],
                keys: vec![b"k0".to_vec()],
                pool: (256, 64),
                clients: vec![vec![
                    OpSpec { kind: Kind::Set(Path::Fast), key: 0, numeric: false, pick: 0, yields: 0, cancel: None },
                    OpSpec { kind: Kind::Get(Path::Generic), key: 0, numeric: false, pick: 0, yields: 0, cancel: None },
                ]],
            };
            s.strict_eval(|ctx| check_case(&case, Mode::Sched, &s, ctx)).err()
        },
    );

    // ---- fast-family reads with a stale shard clock (same root cause as KF-C01-14 / KF-C03-05)
    s.probe(
        KF_STALE,
        json!({"shards": 1, "steps": ["SET k0 t0 PX 10", "clock += 20 ms (no TTL tick)", "fast_get k0"]}),
        || {
            let case = TtlCase {
                shards: 1,
                pool: (256, 64),
                keys: vec![b"k0".to_vec()],
                steps: vec![
                    TStep::Op { kind: TKind::SetPx, key: 0, ms: 10, numeric: false },
                    TStep::Clock { ms: 20, tick: false },
                    TStep::Op { kind: TKind::Get(Path::Fast), key: 0, ms: 1, numeric: false },
                ],
            };
            s.strict_eval(|ctx| check_ttl(&case, ctx)).err()
        },
    );

    // ---- the checker itself
    s.describe_check("checker_hand", "hand-written histories with known verdicts; replay target for histories recorded by the stress tier");
    s.run_enumerated("checker_hand", hand_histories().into_iter(), |c: &HistCase, ctx| {
        let keys: BTreeSet<usize> = c.entries.iter().map(|e| e.key).collect();
        ctx.nontrivial(&c.name);
        for k in keys {
            let hk: Vec<Entry> = c.entries.iter().filter(|e| e.key == k).cloned().collect();
            let v = check_key(&hk, &None, SEARCH_BUDGET);
            match (&v, c.linearizable) {
                (Verdict::Linearizable, true) | (Verdict::NotLinearizable(_), false) => {}
                (Verdict::NotLinearizable(why), true) => {
                    return Err(format!("history '{}' is not linearizable\n    {}\n{}", c.name, why, show_history(&hk)))
                }
                (Verdict::Linearizable, false) => {
                    return Err(format!("CHECKER DEFECT: history '{}' must be rejected but was accepted\n{}", c.name, show_history(&hk)))
                }
                (Verdict::Budget, _) => return Err(format!("history '{}': search budget exhausted", c.name)),
            }
        }
        Ok(())
    });
    s.describe_check("checker_seq", "every sequential history (intervals widened; some writes turned into ops without response that did or did not take effect) accepted; one read of a never-written value rejected");
    s.run_cases(
        "checker_seq",
        s.scale(20_000, 400_000),
        || {
            (
                proptest::collection::vec((any::<u8>(), any::<u8>()), 1..40),
                proptest::collection::vec((0u8..40, 0u8..40), 0..40),
                any::<u16>(),
                proptest::collection::vec(prop_oneof![6 => Just(0u8), 1 => Just(1u8), 1 => Just(2u8)], 0..40),
            )
                .prop_map(|(ops, widen, corrupt, lost)| SeqCase { ops, widen, corrupt, lost })
        },
        check_seq,
    );

    // ---- the property
    let shard_counts = vec![1usize, 2, 4, 16];
    s.describe_check("sched", "client tasks + shard actors on a current-thread runtime, schedule = generated yield counts; one history per shard count");
    s.run_cases(
        "sched",
        s.scale(30_000, 1_000_000),
        || case_strategy(2..=5, 1..=25, shard_counts.clone()),
        |c, ctx| check_case(c, Mode::Sched, &s, ctx),
    );
    s.describe_check("conn_clients", "the same programs through concurrent connection handlers (hook) over in-memory duplex streams, sharing one ShardedActorState");
    s.run_cases(
        "conn_clients",
        s.scale(8_000, 250_000),
        || case_strategy(2..=5, 1..=20, vec![1usize, 4, 16]),
        |c, ctx| check_case(c, Mode::Conn, &s, ctx),
    );
    s.describe_check(
        "seq_ttl",
        "one client, TTL-bearing commands (SET PX, PEXPIRE, PERSIST, TTL/PTTL, EXISTS, DEL, SETNX, MSETNX, INCR, APPEND, Lua DEL; GET/SET through every entry path) and forward-only clock steps aimed at deadlines (tick or no tick) on 1/2/4/16 shards: every reply equals the sequential model's",
    );
    s.run_cases("seq_ttl", s.scale(20_000, 600_000), ttl_case, check_ttl);
    if s.thorough() || s.is_replay() {
        s.describe_check("stress", "8-16 clients on a 4-worker multi-thread runtime; a violating history is saved for replay through checker_hand");
        s.run_cases(
            "stress",
            s.scale(0, 2_000),
            || case_strategy(8..=16, 10..=25, vec![1usize, 2, 4, 16]),
            |c, ctx| check_case(c, Mode::Stress, &s, ctx),
        );
    }
    s.finish();
}
