//! C07 — CRDT merge is commutative, associative and idempotent in all it exposes.
//!
//! Values are *reachable by operations*: a "world" is one consistent history of three replicas
//! (`ShardReplicaState`, ids 1..=3) over two keys, driven through the real API
//! (`record_write / record_delete / record_hash_write / record_hash_delete /
//! apply_remote_delta`, plus the G/PN counter and G/OR set mutators behind
//! `ReplicatedValue::with_crdt` + `crdt_mut()`). Every distinct value a replica ever held for
//! the key goes into the world's pool; pairs and triples are drawn from ONE world's pool (values
//! of two different worlds are not co-reachable: the same Lamport stamp would carry two
//! different payloads).
//!
//! Oracle (on `vcore::proj::peer_view`, reported per `peer_components`):
//!   merge(a,b) = merge(b,a);  merge(a,merge(b,c)) = merge(merge(a,b),c);  merge(a,a) = a.
//!
//! Sub-checks:
//!   gen_triples   generated worlds (<= 16 ops, 3 replicas, Causal/Eventual mix) x <= 8 triples,
//!                 optionally with one operand replaced by the merge of two pool values
//!   shard_fold    every kind of pool value (and fresh, unmutated with_crdt counters/sets, stamp
//!                 (0, creator)) delivered through `ShardReplicaState::apply_remote_delta` to
//!                 FRESH replicas whose ids lie below / at / above the creators', as first and as
//!                 later delta, in two orders: after every step `get_replicated` must equal the
//!                 fold of `merge` over the delivered values (first contact = merge with a
//!                 neutral element), and the two orders must agree
//!   enum_worlds2  ALL words of length L over an 18-symbol op alphabet (2 replicas) and, for
//!                 each world, ALL pairs/triples of its pool (L = 4 quick, 5 thorough)
//!   enum_worlds3  the same with 3 replicas, 30 symbols (L = 3 quick, 4 thorough)

use proptest::prelude::*;
use redis_sim::redis::SDS;
use redis_sim::replication::lattice::{LamportClock, ReplicaId};
use redis_sim::replication::state::{
    CrdtValue, ReplicatedValue, ReplicationDelta, ShardReplicaState,
};
use redis_sim::replication::ConsistencyLevel;
use serde::{Deserialize, Serialize};
use serde_json::{json, Value as J};
use vcore::proj::{peer_components, peer_view};
use vcore::{CaseCtx, Level, Session};

const PAYLOADS: [&str; 3] = ["x", "y", ""];
const FIELDS: [&str; 3] = ["f", "g", "h"];
const ELEMS: [&str; 3] = ["e0", "e1", "e2"];
const KEYS: [&str; 2] = ["k", "o"];
const EXPIRY: [Option<u64>; 3] = [None, Some(100), Some(200)];
const NREP: u8 = 3;

const KF_STAMP: &str = "KF-C07-01";
const KF_MISMATCH: &str = "KF-C07-02";

// ---------------------------------------------------------------------------------------
// worlds
// ---------------------------------------------------------------------------------------

#[derive(Clone, Debug, Serialize, Deserialize, PartialEq)]
enum Op {
    /// SET key payload [PX expiry]  -> record_write
    Write { r: u8, key: u8, p: u8, exp: u8 },
    /// DEL key -> record_delete
    Delete { r: u8, key: u8 },
    /// HSET key f v [f v] -> record_hash_write
    HSet { r: u8, key: u8, fields: Vec<(u8, u8)> },
    /// HDEL key f [f] -> record_hash_delete
    HDel { r: u8, key: u8, fields: Vec<u8> },
    /// counter / set mutators behind with_crdt + crdt_mut():
    /// kind 0 GCounter, 1 PNCounter, 2 GSet, 3 ORSet. `stamp`: the outer stamp is set to the
    /// replica's ticked Lamport clock (as `set`/`hash_set` do and as the tree's own
    /// type-mismatch tests build counter values); otherwise it stays what `with_crdt` made it.
    Crdt { r: u8, key: u8, kind: u8, act: u8, arg: u8, stamp: bool },
    /// `with_replication_factor`
    SetRf { r: u8, key: u8, rf: u8 },
    /// gossip / anti-entropy: `from`'s current value for the key is applied at `to`
    Sync { to: u8, from: u8, key: u8 },
    /// delayed / re-ordered delivery: an earlier snapshot (index into the snapshots so far,
    /// mapped monotonically) is applied at `to`
    Deliver { to: u8, snap: u16 },
}

#[derive(Clone, Debug, Serialize, Deserialize)]
struct World {
    /// bit i set: replica i runs in Causal mode (vector clocks), else Eventual
    causal: u8,
    ops: Vec<Op>,
}

struct Snap {
    key: u8,
    holder: u8,
    /// produced by a merge (apply_remote_delta onto an existing value)
    merged: bool,
    value: ReplicatedValue,
    view: J,
}

fn kind_of(c: &CrdtValue) -> u8 {
    match c {
        CrdtValue::GCounter(_) => 0,
        CrdtValue::PNCounter(_) => 1,
        CrdtValue::GSet(_) => 2,
        CrdtValue::ORSet(_) => 3,
        CrdtValue::Lww(_) => 4,
        CrdtValue::Hash(_) => 5,
    }
}

fn new_of_kind(kind: u8) -> CrdtValue {
    match kind {
        0 => CrdtValue::new_gcounter(),
        1 => CrdtValue::new_pncounter(),
        2 => CrdtValue::new_gset(),
        _ => CrdtValue::new_orset(),
    }
}

fn crdt_op(st: &mut ShardReplicaState, key: &str, kind: u8, act: u8, arg: u8, stamp: bool) {
    let rid = st.replica_id;
    let kind = kind % 4;
    let mut rv = match st.replicated_keys.remove(key) {
        Some(v) if kind_of(&v.crdt) == kind => v,
        // absent, or the key changes type: a fresh value from the public constructor
        _ => ReplicatedValue::with_crdt(new_of_kind(kind), rid),
    };
    let elem = ELEMS[arg as usize % ELEMS.len()].to_string();
    match rv.crdt_mut() {
        CrdtValue::GCounter(g) => {
            if act % 2 == 0 {
                g.increment(rid)
            } else {
                g.increment_by(rid, 1 + arg as u64)
            }
        }
        CrdtValue::PNCounter(p) => match act % 3 {
            0 => p.increment(rid),
            1 => p.decrement(rid),
            _ => p.decrement_by(rid, 1 + arg as u64),
        },
        CrdtValue::GSet(s) => {
            s.add(elem);
        }
        CrdtValue::ORSet(s) => {
            if act % 3 == 2 {
                s.remove(&elem);
            } else {
                s.add(elem, rid);
            }
        }
        _ => unreachable!(),
    }
    if stamp {
        rv.timestamp = st.lamport_clock.tick();
    }
    st.replicated_keys.insert(key.to_string(), rv);
}

fn run_world(w: &World) -> Vec<Snap> {
    let mut reps: Vec<ShardReplicaState> = (0..NREP)
        .map(|i| {
            let lvl = if w.causal & (1 << i) != 0 {
                ConsistencyLevel::Causal
            } else {
                ConsistencyLevel::Eventual
            };
            ShardReplicaState::new(ReplicaId::new(i as u64 + 1), lvl)
        })
        .collect();
    let mut snaps: Vec<Snap> = Vec::new();
    for op in &w.ops {
        // (replica touched, key, was a merge)
        let touched: Option<(u8, u8, bool)> = match op {
            Op::Write { r, key, p, exp } => {
                let (r, key) = (*r % NREP, *key % 2);
                reps[r as usize].record_write(
                    KEYS[key as usize].to_string(),
                    SDS::from_str(PAYLOADS[*p as usize % 3]),
                    EXPIRY[*exp as usize % 3],
                );
                Some((r, key, false))
            }
            Op::Delete { r, key } => {
                let (r, key) = (*r % NREP, *key % 2);
                reps[r as usize].record_delete(KEYS[key as usize].to_string());
                Some((r, key, false))
            }
            Op::HSet { r, key, fields } => {
                let (r, key) = (*r % NREP, *key % 2);
                if fields.is_empty() {
                    None
                } else {
                    let fs: Vec<(String, SDS)> = fields
                        .iter()
                        .map(|(f, p)| {
                            (
                                FIELDS[*f as usize % 3].to_string(),
                                SDS::from_str(PAYLOADS[*p as usize % 3]),
                            )
                        })
                        .collect();
                    reps[r as usize].record_hash_write(KEYS[key as usize].to_string(), fs);
                    Some((r, key, false))
                }
            }
            Op::HDel { r, key, fields } => {
                let (r, key) = (*r % NREP, *key % 2);
                if fields.is_empty() {
                    None
                } else {
                    let fs: Vec<String> = fields
                        .iter()
                        .map(|f| FIELDS[*f as usize % 3].to_string())
                        .collect();
                    reps[r as usize].record_hash_delete(KEYS[key as usize].to_string(), fs);
                    Some((r, key, false))
                }
            }
            Op::Crdt { r, key, kind, act, arg, stamp } => {
                let (r, key) = (*r % NREP, *key % 2);
                crdt_op(&mut reps[r as usize], KEYS[key as usize], *kind, *act, *arg, *stamp);
                Some((r, key, false))
            }
            Op::SetRf { r, key, rf } => {
                let (r, key) = (*r % NREP, *key % 2);
                let k = KEYS[key as usize];
                if let Some(v) = reps[r as usize].replicated_keys.remove(k) {
                    reps[r as usize]
                        .replicated_keys
                        .insert(k.to_string(), v.with_replication_factor(1 + *rf % 3));
                    Some((r, key, false))
                } else {
                    None
                }
            }
            Op::Sync { to, from, key } => {
                let (to, from, key) = (*to % NREP, *from % NREP, *key % 2);
                let k = KEYS[key as usize];
                if to == from {
                    None
                } else if let Some(v) = reps[from as usize].replicated_keys.get(k).cloned() {
                    let had = reps[to as usize].replicated_keys.contains_key(k);
                    let src = reps[from as usize].replica_id;
                    reps[to as usize]
                        .apply_remote_delta(ReplicationDelta::new(k.to_string(), v, src));
                    Some((to, key, had))
                } else {
                    None
                }
            }
            Op::Deliver { to, snap } => {
                let to = *to % NREP;
                if snaps.is_empty() {
                    None
                } else {
                    let idx = (*snap as usize * snaps.len()) >> 16;
                    let s = &snaps[idx];
                    let key = s.key;
                    let k = KEYS[key as usize];
                    let had = reps[to as usize].replicated_keys.contains_key(k);
                    let d = ReplicationDelta::new(
                        k.to_string(),
                        s.value.clone(),
                        ReplicaId::new(s.holder as u64 + 1),
                    );
                    reps[to as usize].apply_remote_delta(d);
                    Some((to, key, had))
                }
            }
        };
        if let Some((r, key, merged)) = touched {
            if let Some(v) = reps[r as usize].replicated_keys.get(KEYS[key as usize]) {
                let view = peer_view(v);
                if !snaps.iter().any(|s| s.key == key && s.view == view) {
                    snaps.push(Snap {
                        key,
                        holder: r,
                        merged,
                        value: v.clone(),
                        view,
                    });
                }
            }
        }
    }
    snaps
}

// ---------------------------------------------------------------------------------------
// the laws
// ---------------------------------------------------------------------------------------

fn show_val(v: &ReplicatedValue) -> String {
    peer_view(v).to_string()
}

fn ts_json(t: &LamportClock) -> String {
    format!("({},r{})", t.time, t.replica_id.0)
}

/// Exact signature of KF-C07-01 on a commutativity mismatch in the `timestamp` component:
/// both results carry the maximum time, each keeps the replica id of its own left operand,
/// and the operands' replica ids differ.
fn kf_stamp_signature(
    a: &ReplicatedValue,
    b: &ReplicatedValue,
    ab: &ReplicatedValue,
    ba: &ReplicatedValue,
) -> bool {
    let max_t = a.timestamp.time.max(b.timestamp.time);
    ab.timestamp.time == max_t
        && ba.timestamp.time == max_t
        && ab.timestamp.replica_id == a.timestamp.replica_id
        && ba.timestamp.replica_id == b.timestamp.replica_id
        && a.timestamp.replica_id != b.timestamp.replica_id
}

fn first_diff(
    x: &ReplicatedValue,
    y: &ReplicatedValue,
) -> Vec<(&'static str, J, J)> {
    let cx = peer_components(x);
    let cy = peer_components(y);
    cx.into_iter()
        .zip(cy)
        .filter(|(p, q)| p.1 != q.1)
        .map(|(p, q)| (p.0, p.1, q.1))
        .collect()
}

/// Counts a tolerated finding once per case (the evidence then says in how many cases a listed
/// discrepancy was met, not how many comparisons met it).
#[derive(Default)]
struct Tol {
    seen: [bool; 2],
}

impl Tol {
    fn tolerate(&mut self, ctx: &mut CaseCtx<'_>, id: &str) -> bool {
        let i = if id == KF_STAMP { 0 } else { 1 };
        if self.seen[i] {
            return true;
        }
        let t = ctx.tolerate(id);
        self.seen[i] = t;
        t
    }
}

fn check_comm(
    a: &ReplicatedValue,
    b: &ReplicatedValue,
    ctx: &mut CaseCtx<'_>,
    tol: &mut Tol,
) -> Result<(), String> {
    let ab = a.merge(b);
    let ba = b.merge(a);
    // KF-C07-02 delimited by its exact rule: for operands of different CRDT kinds the listed
    // behaviour is "the operand with the newer outer stamp is kept whole, ties keep self". The
    // non-associativity that follows from this rule is tolerated below; any OTHER resolution of a
    // kind mismatch (one that looks inside the operands, prefers a kind, or merges halves) is not
    // the listed finding and is reported here, pair by pair, whatever the laws then say.
    if kind_of(&a.crdt) != kind_of(&b.crdt) {
        for (x, y, xy, name) in [(a, b, &ab, "merge(a,b)"), (b, a, &ba, "merge(b,a)")] {
            let keep = if y.timestamp > x.timestamp { y } else { x };
            let want = peer_view(keep)["crdt"].clone();
            let got = peer_view(xy)["crdt"].clone();
            if want != got {
                return Err(format!(
                    "kind mismatch resolved differently from the listed rule (newer outer stamp kept whole, ties keep self):\n  {}.crdt = {}\n  the rule keeps {}\n  a = {}\n  b = {}\n  (outer stamps a={} b={}, kinds a={} b={})",
                    name, got, want,
                    show_val(a), show_val(b),
                    ts_json(&a.timestamp), ts_json(&b.timestamp),
                    a.crdt.type_name(), b.crdt.type_name()
                ));
            }
        }
        ctx.label("mixed_kinds_pair_follows_listed_rule");
    }
    if peer_view(&ab) == peer_view(&ba) {
        return Ok(());
    }
    for (name, x, y) in first_diff(&ab, &ba) {
        let tolerated = match name {
            "timestamp" => kf_stamp_signature(a, b, &ab, &ba) && tol.tolerate(ctx, KF_STAMP),
            // type mismatch resolved by "newer outer stamp wins, ties keep self": on a tie of
            // the outer stamps each side keeps its own value
            "crdt" => {
                kind_of(&a.crdt) != kind_of(&b.crdt)
                    && a.timestamp == b.timestamp
                    && tol.tolerate(ctx, KF_MISMATCH)
            }
            _ => false,
        };
        if !tolerated {
            return Err(format!(
                "commutativity violated in component '{}':\n  merge(a,b).{} = {}\n  merge(b,a).{} = {}\n  a = {}\n  b = {}\n  (outer stamps a={} b={}, kinds a={} b={})",
                name, name, x, name, y,
                show_val(a), show_val(b),
                ts_json(&a.timestamp), ts_json(&b.timestamp),
                a.crdt.type_name(), b.crdt.type_name()
            ));
        }
    }
    Ok(())
}

fn check_idem(a: &ReplicatedValue) -> Result<(), String> {
    let aa = a.merge(a);
    if peer_view(&aa) == peer_view(a) {
        return Ok(());
    }
    let d = first_diff(&aa, a);
    let (name, x, y) = &d[0];
    Err(format!(
        "idempotence violated in component '{}':\n  merge(a,a).{} = {}\n  a.{} = {}\n  a = {}",
        name, name, x, name, y, show_val(a)
    ))
}

fn check_assoc(
    a: &ReplicatedValue,
    b: &ReplicatedValue,
    c: &ReplicatedValue,
    ctx: &mut CaseCtx<'_>,
    tol: &mut Tol,
) -> Result<(), String> {
    let l = a.merge(&b.merge(c));
    let r = a.merge(b).merge(c);
    if peer_view(&l) == peer_view(&r) {
        return Ok(());
    }
    let (ka, kb, kc) = (kind_of(&a.crdt), kind_of(&b.crdt), kind_of(&c.crdt));
    for (name, x, y) in first_diff(&l, &r) {
        let tolerated = match name {
            // dropping one side of a type mismatch is not a join: which operands survive
            // depends on the grouping
            "crdt" => !(ka == kb && kb == kc) && tol.tolerate(ctx, KF_MISMATCH),
            _ => false,
        };
        if !tolerated {
            return Err(format!(
                "associativity violated in component '{}':\n  merge(a,merge(b,c)).{} = {}\n  merge(merge(a,b),c).{} = {}\n  a = {}\n  b = {}\n  c = {}\n  (outer stamps a={} b={} c={}, kinds {} {} {})",
                name, name, x, name, y,
                show_val(a), show_val(b), show_val(c),
                ts_json(&a.timestamp), ts_json(&b.timestamp), ts_json(&c.timestamp),
                a.crdt.type_name(), b.crdt.type_name(), c.crdt.type_name()
            ));
        }
    }
    Ok(())
}

fn label_pair(a: &Snap, b: &Snap, ctx: &mut CaseCtx<'_>) {
    let (va, vb) = (&a.value, &b.value);
    if kind_of(&va.crdt) == kind_of(&vb.crdt) {
        ctx.label(&format!("same_kind:{}", va.crdt.type_name()));
    } else {
        ctx.label("mixed_kinds");
        if va.timestamp == vb.timestamp {
            ctx.label("mixed_kinds_tied_outer_stamp");
        }
    }
    if va.timestamp.time == vb.timestamp.time && va.timestamp.replica_id != vb.timestamp.replica_id {
        ctx.label("equal_time_different_replica");
    }
    if va.is_tombstone() || vb.is_tombstone() {
        ctx.label("tombstone");
    }
    if va.expiry_ms.is_some() != vb.expiry_ms.is_some() || va.expiry_ms != vb.expiry_ms {
        ctx.label("expiry_differs");
    }
    if va.vector_clock.is_some() || vb.vector_clock.is_some() {
        ctx.label("vector_clock");
    }
    if a.merged || b.merged {
        ctx.label("operand_is_merge_result");
    }
    if va.replication_factor.is_some() || vb.replication_factor.is_some() {
        ctx.label("replication_factor");
    }
}

// ---------------------------------------------------------------------------------------
// generated triples
// ---------------------------------------------------------------------------------------

#[derive(Clone, Debug, Serialize, Deserialize)]
struct Pick {
    /// indices into the pool of key "k", mapped monotonically
    a: u16,
    b: u16,
    c: u16,
    /// a fourth pool value for derived operands
    m: u16,
    /// 0..=5 plain; 6: a := pool[a].merge(pool[m]); 7: c := pool[c].merge(pool[m]) — what a
    /// fresh replica holds after receiving the two values in that order
    mode: u8,
}

#[derive(Clone, Debug, Serialize, Deserialize)]
struct Case {
    world: World,
    picks: Vec<Pick>,
}

fn op_strategy() -> impl Strategy<Value = Op> {
    let r = || 0u8..NREP;
    let key = || prop_oneof![7 => Just(0u8), 1 => Just(1u8)];
    prop_oneof![
        4 => (r(), key(), 0u8..3, 0u8..3).prop_map(|(r, key, p, exp)| Op::Write { r, key, p, exp }),
        2 => (r(), key()).prop_map(|(r, key)| Op::Delete { r, key }),
        3 => (r(), key(), proptest::collection::vec((0u8..3, 0u8..3), 1..3))
            .prop_map(|(r, key, fields)| Op::HSet { r, key, fields }),
        2 => (r(), key(), proptest::collection::vec(0u8..3, 1..3))
            .prop_map(|(r, key, fields)| Op::HDel { r, key, fields }),
        3 => (r(), key(), 0u8..4, 0u8..3, 0u8..3, any::<bool>())
            .prop_map(|(r, key, kind, act, arg, stamp)| Op::Crdt { r, key, kind, act, arg, stamp }),
        1 => (r(), key(), 0u8..3).prop_map(|(r, key, rf)| Op::SetRf { r, key, rf }),
        6 => (r(), r(), key()).prop_map(|(to, from, key)| Op::Sync { to, from, key }),
        3 => (r(), any::<u16>()).prop_map(|(to, snap)| Op::Deliver { to, snap }),
    ]
}

fn case_strategy() -> impl Strategy<Value = Case> {
    let pick = (any::<u16>(), any::<u16>(), any::<u16>(), any::<u16>(), 0u8..8)
        .prop_map(|(a, b, c, m, mode)| Pick { a, b, c, m, mode });
    (
        0u8..8,
        proptest::collection::vec(op_strategy(), 2..17),
        proptest::collection::vec(pick, 1..9),
    )
        .prop_map(|(causal, ops, picks)| Case {
            world: World { causal, ops },
            picks,
        })
}

fn check_case(case: &Case, ctx: &mut CaseCtx<'_>) -> Result<(), String> {
    let snaps = run_world(&case.world);
    let pool: Vec<&Snap> = snaps.iter().filter(|s| s.key == 0).collect();
    if pool.is_empty() {
        ctx.label("empty_pool");
        return Ok(());
    }
    let n = pool.len();
    let at = |i: u16| pool[(i as usize * n) >> 16];
    let mut tol = Tol::default();
    let mut nt: Vec<String> = Vec::new();
    for p in &case.picks {
        let (sa, sb, sc, sm) = (at(p.a), at(p.b), at(p.c), at(p.m));
        let derived_a;
        let derived_c;
        let (a, b, c): (&ReplicatedValue, &ReplicatedValue, &ReplicatedValue) = match p.mode {
            6 => {
                ctx.label("derived_operand");
                derived_a = sa.value.merge(&sm.value);
                (&derived_a, &sb.value, &sc.value)
            }
            7 => {
                ctx.label("derived_operand");
                derived_c = sc.value.merge(&sm.value);
                (&sa.value, &sb.value, &derived_c)
            }
            _ => (&sa.value, &sb.value, &sc.value),
        };
        label_pair(sa, sb, ctx);
        let (ka, kb, kc) = (kind_of(&a.crdt), kind_of(&b.crdt), kind_of(&c.crdt));
        if !(ka == kb && kb == kc) {
            ctx.label("mixed_kinds_triple");
        }
        if sa.view != sb.view && sa.holder != sb.holder {
            nt.push(format!("{}|{}|{}", peer_view(a), sb.view, peer_view(c)));
        }
        check_idem(a)?;
        check_comm(a, b, ctx, &mut tol)?;
        check_comm(b, c, ctx, &mut tol)?;
        check_comm(a, c, ctx, &mut tol)?;
        check_assoc(a, b, c, ctx, &mut tol)?;
        ctx.add_evaluations(1);
    }
    if !nt.is_empty() {
        nt.sort();
        ctx.nontrivial(&nt);
    }
    Ok(())
}

// ---------------------------------------------------------------------------------------
// the shard entry point: apply_remote_delta on fresh replicas = fold of merge
// ---------------------------------------------------------------------------------------

#[derive(Clone, Debug, Serialize, Deserialize)]
enum Dv {
    /// a value of the world's pool for key "k" (index mapped monotonically)
    Pool(u16),
    /// `ReplicatedValue::with_crdt(<empty G/PN counter, G/OR set>, creator)`: never mutated, stamp (0, creator)
    Fresh { kind: u8, creator: u8 },
}

#[derive(Clone, Debug, Serialize, Deserialize)]
struct FoldCase {
    world: World,
    /// ids (1..=5) and modes of the two fresh receiving replicas; the writers are 1..=3
    target: (u8, u8),
    causal: (bool, bool),
    deliveries: Vec<Dv>,
    /// sort keys: the second replica receives the deliveries ordered by (perm[i], i)
    perm: Vec<u16>,
}

fn fresh_shard(id: u8, causal: bool) -> ShardReplicaState {
    ShardReplicaState::new(
        ReplicaId::new(1 + (id % 5) as u64),
        if causal { ConsistencyLevel::Causal } else { ConsistencyLevel::Eventual },
    )
}

/// Deliver `vals` in order through `apply_remote_delta`; after every step the stored value must
/// be the left fold of `merge` over what was delivered so far (step 0: the value itself).
fn deliver_and_check(
    shard: &mut ShardReplicaState,
    vals: &[&ReplicatedValue],
    ctx: &mut CaseCtx<'_>,
) -> Result<Option<ReplicatedValue>, String> {
    let me = shard.replica_id.0;
    let mut want: Option<ReplicatedValue> = None;
    for (i, v) in vals.iter().enumerate() {
        let w = match &want {
            None => (*v).clone(),
            Some(acc) => acc.merge(v),
        };
        if i == 0 {
            ctx.label(&format!("first_delta_kind:{}", v.crdt.type_name()));
            if v.timestamp.time == 0 {
                ctx.label(match me.cmp(&v.timestamp.replica_id.0) {
                    std::cmp::Ordering::Less => "first_delta_stamp_time0:receiver_id_below_creator",
                    std::cmp::Ordering::Equal => "first_delta_stamp_time0:receiver_id_equals_creator",
                    std::cmp::Ordering::Greater => "first_delta_stamp_time0:receiver_id_above_creator",
                });
            }
        } else if v.timestamp.time == 0 {
            ctx.label("later_delta_stamp_time0");
        }
        shard.apply_remote_delta(ReplicationDelta::new(
            KEYS[0].to_string(),
            (*v).clone(),
            v.timestamp.replica_id,
        ));
        let got = shard.get_replicated(KEYS[0]);
        let same = got.map(|g| peer_view(g) == peer_view(&w)).unwrap_or(false);
        if !same {
            let (comp, x, y) = match got {
                Some(g) => first_diff(g, &w)
                    .into_iter()
                    .next()
                    .map(|(n, x, y)| (n, x.to_string(), y.to_string()))
                    .unwrap_or(("?", String::new(), String::new())),
                None => ("(key absent)", "-".to_string(), "-".to_string()),
            };
            return Err(format!(
                "apply_remote_delta on replica r{} (fresh before this sequence): after delivery #{} ({}) get_replicated differs from the fold of merge over the delivered values in component '{}':\n  stored.{} = {}\n  fold.{}   = {}\n  delivered #{}: {}\n  stored: {}\n  fold:   {}\n  all deliveries: {:?}",
                me,
                i,
                if i == 0 { "the first delta for the key: must be adopted as is" } else { "a later delta: must be merged into the stored value" },
                comp, comp, x, comp, y,
                i, show_val(v),
                got.map(show_val).unwrap_or_else(|| "absent".to_string()),
                show_val(&w),
                vals.iter().map(|v| show_val(v)).collect::<Vec<_>>()
            ));
        }
        want = Some(w);
    }
    Ok(want)
}

fn check_fold(case: &FoldCase, ctx: &mut CaseCtx<'_>) -> Result<(), String> {
    let snaps = run_world(&case.world);
    let pool: Vec<&Snap> = snaps.iter().filter(|s| s.key == 0).collect();
    let mut owned: Vec<ReplicatedValue> = Vec::new();
    for d in &case.deliveries {
        match d {
            Dv::Pool(i) => {
                if !pool.is_empty() {
                    owned.push(pool[(*i as usize * pool.len()) >> 16].value.clone());
                }
            }
            Dv::Fresh { kind, creator } => {
                ctx.label("fresh_unmutated_with_crdt_value");
                owned.push(ReplicatedValue::with_crdt(
                    new_of_kind(*kind % 4),
                    ReplicaId::new(1 + (*creator % NREP) as u64),
                ));
            }
        }
    }
    if owned.is_empty() {
        ctx.label("nothing_delivered");
        return Ok(());
    }
    let vals: Vec<&ReplicatedValue> = owned.iter().collect();
    let mut order: Vec<usize> = (0..vals.len()).collect();
    order.sort_by_key(|i| (case.perm.get(*i).copied().unwrap_or(0), *i));
    let vals2: Vec<&ReplicatedValue> = order.iter().map(|i| vals[*i]).collect();

    let mut s1 = fresh_shard(case.target.0, case.causal.0);
    let mut s2 = fresh_shard(case.target.1, case.causal.1);
    let r1 = deliver_and_check(&mut s1, &vals, ctx)?.expect("non-empty");
    let r2 = deliver_and_check(&mut s2, &vals2, ctx)?.expect("non-empty");
    ctx.add_evaluations(2 * vals.len() as u64);

    // the two replicas received the same values (in two orders): same state, up to the listed
    // merge findings
    let kinds: std::collections::BTreeSet<u8> = vals.iter().map(|v| kind_of(&v.crdt)).collect();
    let mut tol = Tol::default();
    for (name, x, y) in first_diff(&r1, &r2) {
        let tolerated = name == "crdt" && kinds.len() > 1 && tol.tolerate(ctx, KF_MISMATCH);
        if !tolerated {
            return Err(format!(
                "two fresh replicas (r{}, r{}) that received the same values in two orders differ in component '{}':\n  first:  {}\n  second: {}\n  deliveries: {:?}\n  second order: {:?}",
                s1.replica_id.0, s2.replica_id.0, name, x, y,
                vals.iter().map(|v| show_val(v)).collect::<Vec<_>>(),
                order
            ));
        }
    }
    if kinds.len() > 1 {
        ctx.label("mixed_kinds_delivered");
    }
    let distinct: std::collections::BTreeSet<String> = vals.iter().map(|v| show_val(v)).collect();
    let non_lww = vals.iter().any(|v| kind_of(&v.crdt) < 4);
    if distinct.len() >= 2 || non_lww {
        ctx.nontrivial(&(
            s1.replica_id.0,
            s2.replica_id.0,
            vals.iter().map(|v| show_val(v)).collect::<Vec<_>>(),
            order,
        ));
    }
    Ok(())
}

fn fold_strategy() -> impl Strategy<Value = FoldCase> {
    let dv = prop_oneof![
        5 => any::<u16>().prop_map(Dv::Pool),
        1 => (0u8..4, 0u8..NREP).prop_map(|(kind, creator)| Dv::Fresh { kind, creator }),
    ];
    // worlds rich in counters/sets: the generic op mix plus extra Crdt ops
    let op = prop_oneof![
        3 => op_strategy(),
        2 => (0u8..NREP, 0u8..4, 0u8..3, 0u8..3, prop::bool::weighted(0.3))
            .prop_map(|(r, kind, act, arg, stamp)| Op::Crdt { r, key: 0, kind, act, arg, stamp }),
    ];
    (
        0u8..8,
        proptest::collection::vec(op, 1..13),
        (0u8..5, 0u8..5),
        (any::<bool>(), any::<bool>()),
        proptest::collection::vec(dv, 1..6),
        proptest::collection::vec(any::<u16>(), 0..6),
    )
        .prop_map(|(causal_mask, ops, target, causal, deliveries, perm)| FoldCase {
            world: World { causal: causal_mask, ops },
            target,
            causal,
            deliveries,
            perm,
        })
}

// ---------------------------------------------------------------------------------------
// enumerated worlds
// ---------------------------------------------------------------------------------------

#[derive(Clone, Debug, Serialize, Deserialize)]
struct EnumCase {
    /// symbols of the alphabet (see `alphabet`)
    word: Vec<u8>,
}

/// Operations on key "k" per replica: SET x, SET y PX, DEL, HSET f, HSET g, HDEL f, gossip from
/// each other replica, GCounter incr (stamped), ORSet add (with_crdt stamp).
/// 2 replicas: 9 x 2 = 18 symbols; 3 replicas: 10 x 3 = 30 symbols.
fn alphabet(nrep: u8) -> Vec<Op> {
    let mut v = Vec::new();
    for r in 0u8..nrep {
        v.push(Op::Write { r, key: 0, p: 0, exp: 0 });
        v.push(Op::Write { r, key: 0, p: 1, exp: 1 });
        v.push(Op::Delete { r, key: 0 });
        v.push(Op::HSet { r, key: 0, fields: vec![(0, 0)] });
        v.push(Op::HSet { r, key: 0, fields: vec![(1, 1)] });
        v.push(Op::HDel { r, key: 0, fields: vec![0] });
        for d in 1..nrep {
            v.push(Op::Sync { to: r, from: (r + d) % nrep, key: 0 });
        }
        v.push(Op::Crdt { r, key: 0, kind: 0, act: 0, arg: 0, stamp: true });
        v.push(Op::Crdt { r, key: 0, kind: 3, act: 0, arg: 0, stamp: false });
    }
    v
}

fn check_enum(case: &EnumCase, alpha: &[Op], ctx: &mut CaseCtx<'_>) -> Result<(), String> {
    let ops: Vec<Op> = case
        .word
        .iter()
        .map(|s| alpha[*s as usize % alpha.len()].clone())
        .collect();
    // replica 0 Causal, the others Eventual: vector clocks both present and absent
    let snaps = run_world(&World { causal: 1, ops });
    let pool: Vec<&Snap> = snaps.iter().filter(|s| s.key == 0).collect();
    let n = pool.len();
    let mut nt = false;
    let mut tol = Tol::default();
    for (ia, a) in pool.iter().enumerate() {
        check_idem(&a.value).map_err(|e| format!("[a=#{}] {}", ia, e))?;
        for (ib, b) in pool.iter().enumerate() {
            if a.view != b.view && a.holder != b.holder {
                nt = true;
            }
            label_pair(a, b, ctx);
            check_comm(&a.value, &b.value, ctx, &mut tol)
                .map_err(|e| format!("[a=#{} b=#{}] {}", ia, ib, e))?;
            for (ic, c) in pool.iter().enumerate() {
                check_assoc(&a.value, &b.value, &c.value, ctx, &mut tol)
                    .map_err(|e| format!("[a=#{} b=#{} c=#{}] {}", ia, ib, ic, e))?;
            }
        }
    }
    // the shard entry point on fresh replicas with ids 1..=4 (writers are 1..=2 or 1..=3): every
    // value as first delta, every ordered pair as first + later delta
    for (ia, a) in pool.iter().enumerate() {
        for t in 0u8..4 {
            let mut sh = fresh_shard(t, t % 2 == 0);
            deliver_and_check(&mut sh, &[&a.value], ctx).map_err(|e| format!("[a=#{}] {}", ia, e))?;
        }
        for (ib, b) in pool.iter().enumerate() {
            for t in [0u8, 3] {
                let mut sh = fresh_shard(t, false);
                deliver_and_check(&mut sh, &[&a.value, &b.value], ctx)
                    .map_err(|e| format!("[a=#{} b=#{}] {}", ia, ib, e))?;
            }
        }
    }
    ctx.add_evaluations((n * n * n + 4 * n + 2 * n * n) as u64);
    if nt {
        ctx.nontrivial(&case.word);
    }
    Ok(())
}

fn words(len: usize, base: usize) -> impl Iterator<Item = EnumCase> + Send {
    let total = (base as u64).pow(len as u32);
    (0..total).map(move |mut idx| {
        let mut w = Vec::with_capacity(len);
        for _ in 0..len {
            w.push((idx % base as u64) as u8);
            idx /= base as u64;
        }
        EnumCase { word: w }
    })
}

// ---------------------------------------------------------------------------------------

fn pool_of(ops: Vec<Op>) -> Vec<ReplicatedValue> {
    run_world(&World { causal: 0, ops })
        .into_iter()
        .filter(|s| s.key == 0)
        .map(|s| s.value)
        .collect()
}

fn main() {
    let args = vcore::parse_args();
    let s = Session::new(
        "C07",
        Level::Exploration,
        "a case is one consistent world: a generated op sequence over 3 replicas (ShardReplicaState, Causal/Eventual mix), 2 keys, \
         3 payloads, 3 hash fields, 3 expiries, G/PN counters and G/OR sets through their mutators, gossip (Sync) and delayed delivery of \
         earlier snapshots (Deliver); every distinct value a replica held for key 'k' forms the pool and <= 8 triples are drawn from it, \
         optionally with one operand replaced by the merge of two pool values (gen_triples), or ALL pairs/triples of the pool for ALL op \
         words of a fixed length over an 18-symbol (2 replicas) / 30-symbol (3 replicas) alphabet (enum_worlds2 / enum_worlds3); \
         shard_fold delivers 1-5 pool values / fresh with_crdt values through ShardReplicaState::apply_remote_delta to two fresh replicas \
         (ids 1..=5) in two orders and compares get_replicated with the fold of merge after every step (the enumerations do the same for \
         every value and ordered pair, receiver ids 1..=4). \
         non-trivial = some drawn pair differs in the peer view and was held by different replicas (shard_fold: >= 2 distinct values or a \
         counter/set delivered); distinct by the operands' peer views (gen_triples, shard_fold) / by op word (enum_worlds*)",
        &args,
    );
    s.assume("values compared through vcore::proj::peer_view (serde image of ReplicatedValue with hash sets/maps canonically ordered)");
    s.assume("counter/set values are produced by ReplicatedValue::with_crdt + crdt_mut() mutators called with the replica's own id; their outer stamp is either the ticked replica clock or left as with_crdt built it (no production path constructs them)");
    s.assume("operands of one comparison come from one world (one consistent history): Lamport stamps (time, replica) identify one write");

    // ---- probes
    s.probe(
        KF_STAMP,
        json!({"world": ["r1: SET k x", "r2: SET k y"], "law": "merge(a,b) vs merge(b,a)", "component": "timestamp"}),
        || {
            let pool = pool_of(vec![
                Op::Write { r: 0, key: 0, p: 0, exp: 0 },
                Op::Write { r: 1, key: 0, p: 1, exp: 0 },
            ]);
            if pool.len() != 2 {
                return Some(format!("probe world produced {} values", pool.len()));
            }
            s.strict_eval(|ctx| check_comm(&pool[0], &pool[1], ctx, &mut Tol::default()))
                .err()
        },
    );
    s.probe(
        KF_MISMATCH,
        json!({"world": ["r1: HSET k f x", "r2: SET k x", "r2: HSET k g y"],
               "law": "merge(a,merge(b,c)) vs merge(merge(a,b),c)", "a": "string@(1,r2)", "b": "hash{f}@(1,r1)", "c": "hash{g}@(2,r2)",
               "component": "crdt"}),
        || {
            let pool = pool_of(vec![
                Op::HSet { r: 0, key: 0, fields: vec![(0, 0)] },
                Op::Write { r: 1, key: 0, p: 0, exp: 0 },
                Op::HSet { r: 1, key: 0, fields: vec![(1, 1)] },
            ]);
            if pool.len() != 3 {
                return Some(format!("probe world produced {} values", pool.len()));
            }
            s.strict_eval(|ctx| {
                check_assoc(&pool[1], &pool[0], &pool[2], ctx, &mut Tol::default())
            })
            .err()
        },
    );

    // ---- generated worlds and triples
    s.describe_check(
        "gen_triples",
        "generated worlds (2..16 ops over 3 replicas) and up to 8 triples of the pool of key 'k': idempotence of a, commutativity of (a,b), (b,c), (a,c), associativity of (a,b,c)",
    );
    s.run_cases("gen_triples", s.scale(200_000, 6_000_000), case_strategy, check_case);

    s.describe_check(
        "shard_fold",
        "1-5 values (pool values of every kind incl. counters/sets with stamp (0, creator), and fresh unmutated with_crdt values) delivered through apply_remote_delta to two fresh replicas with ids 1..=5 (writers 1..=3) in two orders: after every delivery get_replicated = left fold of merge over the delivered values; both replicas agree",
    );
    s.run_cases("shard_fold", s.scale(40_000, 2_000_000), fold_strategy, check_fold);

    // ---- exhaustive bounded universes
    let (len2, len3) = if s.thorough() { (5, 4) } else { (4, 3) };
    let alpha2 = alphabet(2);
    let alpha3 = alphabet(3);
    let rule = "every op word of the fixed length over {SET x, SET y PX, DEL, HSET f, HSET g, HDEL f, gossip from each other replica, GCounter incr (stamped), ORSet add (with_crdt stamp)} x replicas (r1 Causal, others Eventual); for each world every value, ordered pair and ordered triple of its pool (pools of all shorter words are sub-pools); plus every value / ordered pair delivered through apply_remote_delta to fresh replicas r1..r4 (= the value / the merge)";
    s.describe_check("enum_worlds2", rule);
    s.describe_check("enum_worlds3", rule);
    s.note(
        "exhaustive_scope",
        json!(format!(
            "coverage.exhaustive refers to the sub-checks enum_worlds2 (all {}^{} op words, 2 replicas) and enum_worlds3 (all {}^{} op words, 3 replicas), all triples of each world's pool; gen_triples is a generated search",
            alpha2.len(), len2, alpha3.len(), len3
        )),
    );
    s.run_enumerated("enum_worlds2", words(len2, alpha2.len()), |c, ctx| {
        check_enum(c, &alpha2, ctx)
    });
    s.run_enumerated("enum_worlds3", words(len3, alpha3.len()), |c, ctx| {
        check_enum(c, &alpha3, ctx)
    });
    s.set_exhaustive(true);

    s.finish();
}
