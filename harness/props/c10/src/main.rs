//! C10 — WAL recovery yields only intact appended entries; truncation keeps newer ones.
//!
//! Checks (see DESIGN.md §3 C10 and /verif/notes/C10.md):
//!   images        a generated entry sequence is written through `WalRotator` (generated rotation
//!                 threshold and restarts) into an in-memory store; then, per image, ENUMERATED:
//!                 every truncation length of every file, single-bit flips (all header bits +
//!                 sampled payload bits; thorough: all bits), generated multi-byte overwrites,
//!                 zero fills, appended tails, every file swap, every file deletion. After each
//!                 mutation `recover_all_entries` is compared with the exact expected list.
//!   truncate      same images; `truncate_before(T)` for every distinct stamp T ∪ {0, max+1},
//!                 on the writing rotator (active file) and on a fresh rotator (no active file).
//!   entries_after `recover_entries_after(T)` on delta-only images = the stamp >= T filter.

mod store;

use proptest::prelude::*;
use redis_sim::redis::SDS;
use redis_sim::replication::lattice::{LamportClock, ReplicaId};
use redis_sim::replication::state::{ReplicatedValue, ReplicationDelta};
use redis_sim::streaming::wal::{WalEntry, WalReader, WalRotator, WalWriter, WAL_ENTRY_OVERHEAD, WAL_HEADER_SIZE};
use redis_sim::streaming::wal_actor::spawn_wal_actor;
use redis_sim::streaming::wal_config::{FsyncPolicy, WalConfig};
use redis_sim::streaming::wal_store::WalStore;
use redis_sim::streaming::{InMemoryObjectStore, RecoveryManager};
use std::sync::Arc;
use serde::{Deserialize, Serialize};
use serde_json::json;
use std::collections::{BTreeMap, BTreeSet};
use store::{ImgStore, ReadFault};
use vcore::runner::catch;
use vcore::{CaseCtx, Level, Session};

const KF_STAMP: &str = "KF-C10-01";
const KF_ZERO: &str = "KF-C10-02";

// ---------------------------------------------------------------------------------------
// independent CRC-32 (IEEE 802.3, reflected, as the format documents "CRC32")
// ---------------------------------------------------------------------------------------

const fn crc_table() -> [u32; 256] {
    let mut t = [0u32; 256];
    let mut i = 0;
    while i < 256 {
        let mut c = i as u32;
        let mut k = 0;
        while k < 8 {
            c = if c & 1 != 0 { (c >> 1) ^ 0xedb8_8320 } else { c >> 1 };
            k += 1;
        }
        t[i] = c;
        i += 1;
    }
    t
}

static CRC_TABLE: [u32; 256] = crc_table();

fn crc32(data: &[u8]) -> u32 {
    let mut crc: u32 = 0xffff_ffff;
    for &b in data {
        crc = CRC_TABLE[((crc ^ b as u32) & 0xff) as usize] ^ (crc >> 8);
    }
    !crc
}

/// The documented on-disk entry layout: len u32 LE | stamp u64 LE | crc32(data) u32 LE | data.
fn encode_entry(data: &[u8], stamp: u64) -> Vec<u8> {
    let mut v = Vec::with_capacity(16 + data.len());
    v.extend_from_slice(&(data.len() as u32).to_le_bytes());
    v.extend_from_slice(&stamp.to_le_bytes());
    v.extend_from_slice(&crc32(data).to_le_bytes());
    v.extend_from_slice(data);
    v
}

// ---------------------------------------------------------------------------------------
// case
// ---------------------------------------------------------------------------------------

#[derive(Clone, Debug, Serialize, Deserialize)]
struct EntrySpec {
    /// payload bytes exactly as handed to the WAL (for kind "delta": bincode of a ReplicationDelta)
    data: Vec<u8>,
    stamp: u64,
    /// the process restarts before this entry: a new `WalRotator` over the same store
    restart_before: bool,
    kind: String,
    /// > 0: a large entry whose payload is not stored in the case but generated: kind
    /// "big_raw" = `big_len` pattern bytes seeded by `data[0]`; kind "big_delta" = bincode of a
    /// real ReplicationDelta whose SERIALIZED size is exactly `big_len`
    #[serde(default)]
    big_len: u32,
}

#[derive(Clone, Debug, Serialize, Deserialize)]
struct Overwrite {
    /// which file (fraction of the file count)
    file: u16,
    /// where (fraction of the file length)
    pos: u16,
    bytes: Vec<u8>,
}

/// A 16-byte entry header with generated field values, written AT an entry boundary (or
/// behind the last entry): structured damage, as opposed to random bytes at a random offset.
#[derive(Clone, Debug, Serialize, Deserialize)]
struct Crafted {
    /// which file (fraction of the file count)
    file: u16,
    /// which entry boundary (fraction of entries-in-file + 1; the last one = end of the file)
    entry: u16,
    len: u32,
    stamp: u64,
    crc: u32,
    /// what is behind the header: 0 = the old bytes, 1 = nothing (the file ends there),
    /// 2 = everything up to the old end of the file reads as zero, 3 = 32 zero bytes, then the end
    rest: u8,
}

#[derive(Clone, Debug, Serialize, Deserialize)]
struct ImageCase {
    entries: Vec<EntrySpec>,
    max_file_size: u32,
    overwrites: Vec<Overwrite>,
    /// sampled payload bit positions (fractions of the file's bit length), quick tier
    bit_samples: Vec<u16>,
    /// > 0: the log does not start at sequence 1: a header-only file with this sequence
    /// already exists (aimed at the 8-hex-digit boundary of the file name)
    #[serde(default)]
    start_seq: u64,
    /// generated entry headers placed at entry boundaries
    #[serde(default)]
    crafted: Vec<Crafted>,
}

/// Header field values: the degenerate ones (0, 1, all ones, "a few bytes") far more often
/// than arbitrary ones; every field independently of the others.
fn crafted() -> impl Strategy<Value = Crafted> {
    (
        any::<u16>(),
        any::<u16>(),
        prop_oneof![
            4 => Just(0u32),
            2 => 1u32..=4,
            2 => 5u32..=64,
            1 => Just(u32::MAX),
            1 => any::<u32>(),
        ],
        stamp(),
        prop_oneof![
            3 => Just(0u32),
            1 => Just(u32::MAX),
            // crc32 of one zero byte: self-consistent only with len 1 in front of a zero byte
            1 => Just(0xd202_ef8du32),
            1 => any::<u32>(),
        ],
        0u8..4,
    )
        .prop_map(|(file, entry, len, stamp, crc, rest)| Crafted {
            file,
            entry,
            len,
            stamp,
            crc,
            rest,
        })
}

/// Payload sizes aimed at powers of two and their neighbours.
fn big_size() -> impl Strategy<Value = u32> {
    prop_oneof![
        4 => prop_oneof![Just(65_535u32), Just(65_536u32), Just(65_537u32)],
        6 => (-64i32..=64).prop_map(|d| (1_048_576 + d) as u32),
        3 => prop_oneof![Just(1_048_576u32 - 16), Just(1_048_576u32), Just(1_048_577u32), Just(1_048_576u32 + 16)],
        1 => Just(2 * 1_048_576u32),
        1 => Just(4 * 1_048_576u32 + 1),
        // above the next two powers of four: a reader-side sanity bound on the length field that
        // the writer does not share hides an intact entry (and everything behind it in its file)
        1 => prop_oneof![Just(16 * 1_048_576u32), Just(16 * 1_048_576u32 + 1), Just(8 * 1_048_576u32 + 1)],
    ]
}

fn pattern(len: usize, seed: u8) -> Vec<u8> {
    let mut x: u32 = 0x9e37_79b9 ^ (seed as u32).wrapping_mul(0x0101_0101);
    let mut v = Vec::with_capacity(len);
    for _ in 0..len {
        x = x.wrapping_mul(1_664_525).wrapping_add(1_013_904_223);
        v.push((x >> 24) as u8);
    }
    v
}

/// bincode of a real delta whose serialized size is exactly `target` bytes
fn big_delta(target: usize, seed: u8) -> Vec<u8> {
    let mk = |n: usize| {
        let rid = ReplicaId::new(1 + (seed % 3) as u64);
        let rv = ReplicatedValue::with_value(
            SDS::new(pattern(n, seed)),
            LamportClock {
                time: seed as u64,
                replica_id: rid,
            },
        );
        bincode::serialize(&ReplicationDelta::new(format!("big{}", seed % 7), rv, rid)).expect("bincode of a delta")
    };
    let base = mk(0).len();
    let mut n = target.saturating_sub(base);
    for _ in 0..3 {
        let got = mk(n).len();
        if got == target {
            break;
        }
        n = (n + target).saturating_sub(got);
    }
    mk(n)
}

/// The case with the payloads of its large entries filled in.
fn materialise(case: &ImageCase) -> ImageCase {
    let mut c = case.clone();
    for e in &mut c.entries {
        if e.big_len > 0 {
            let seed = e.data.first().copied().unwrap_or(0);
            e.data = if e.kind == "big_delta" {
                big_delta(e.big_len as usize, seed)
            } else {
                pattern(e.big_len as usize, seed)
            };
        }
    }
    c
}

fn has_big(case: &ImageCase) -> bool {
    case.entries.iter().any(|e| e.big_len > 0)
}

fn delta_payload() -> impl Strategy<Value = Vec<u8>> {
    (
        prop_oneof![
            Just("k".to_string()),
            Just("".to_string()),
            Just("user:1001".to_string()),
            "[a-z0-9:{}]{1,24}",
            "\\PC{0,8}",
        ],
        proptest::collection::vec(any::<u8>(), 0..120),
        prop_oneof![0u64..40, any::<u64>()],
        1u64..5,
        prop_oneof![3 => Just(None), 1 => any::<u64>().prop_map(Some)],
    )
        .prop_map(|(key, value, time, replica, expiry)| {
            let rid = ReplicaId::new(replica);
            let mut rv = ReplicatedValue::with_value(
                SDS::new(value),
                LamportClock {
                    time,
                    replica_id: rid,
                },
            );
            rv.expiry_ms = expiry;
            let delta = ReplicationDelta::new(key, rv, rid);
            bincode::serialize(&delta).expect("bincode of a delta")
        })
}

fn stamp() -> impl Strategy<Value = u64> {
    prop_oneof![
        6 => 0u64..12,
        2 => 0u64..1000,
        1 => Just(u64::MAX),
        1 => Just(u64::MAX - 1),
        1 => any::<u64>(),
    ]
}

fn entry_spec() -> impl Strategy<Value = EntrySpec> {
    let payload = prop_oneof![
        4 => proptest::collection::vec(any::<u8>(), 1..=40).prop_map(|d| (d, "raw")),
        2 => proptest::collection::vec(any::<u8>(), 41..=300).prop_map(|d| (d, "raw_long")),
        1 => (1usize..=300, prop_oneof![Just(0u8), Just(0xffu8), Just(b'R')])
            .prop_map(|(n, b)| (vec![b; n], "fill")),
        4 => delta_payload().prop_map(|d| (d, "delta")),
        // a payload that is itself a well-formed encoded entry (a reader that re-synchronises
        // inside a damaged entry would surface it as an entry that was never appended)
        2 => (proptest::collection::vec(any::<u8>(), 1..60), stamp())
            .prop_map(|(d, s)| (encode_entry(&d, s), "nested")),
        1 => (proptest::collection::vec(any::<u8>(), 1..30), stamp(), proptest::collection::vec(any::<u8>(), 0..20))
            .prop_map(|(d, s, pre)| {
                let mut v = pre;
                v.extend_from_slice(&encode_entry(&d, s));
                v.extend_from_slice(&encode_entry(b"x", 7));
                (v, "nested2")
            }),
        1 => any::<u64>().prop_map(|seq| {
            let mut v = b"RWAL\x01\0\0\0".to_vec();
            v.extend_from_slice(&seq.to_le_bytes());
            (v, "header_like")
        }),
    ];
    (payload, stamp(), prop::bool::weighted(0.15)).prop_map(|((data, kind), stamp, restart_before)| EntrySpec {
        data,
        stamp,
        restart_before,
        kind: kind.to_string(),
        big_len: 0,
    })
}

fn small_image_case() -> impl Strategy<Value = ImageCase> {
    (
        proptest::collection::vec(entry_spec(), 0..=12),
        prop_oneof![
            2 => Just(17u32),
            2 => Just(60u32),
            3 => 17u32..200,
            3 => 200u32..1200,
            2 => Just(1_000_000u32),
        ],
        proptest::collection::vec(
            (
                any::<u16>(),
                any::<u16>(),
                prop_oneof![
                    3 => proptest::collection::vec(any::<u8>(), 2..=8),
                    1 => proptest::collection::vec(any::<u8>(), 9..=40),
                    1 => (2usize..=40).prop_map(|n| vec![0u8; n]),
                    1 => (2usize..=24).prop_map(|n| vec![0xffu8; n]),
                ],
            )
                .prop_map(|(file, pos, bytes)| Overwrite { file, pos, bytes }),
            0..=10,
        ),
        proptest::collection::vec(any::<u16>(), 48),
        proptest::collection::vec(crafted(), 0..=6),
    )
        .prop_map(|(entries, max_file_size, overwrites, bit_samples, crafted)| ImageCase {
            entries,
            max_file_size,
            overwrites,
            bit_samples,
            start_seq: 0,
            crafted,
        })
}

/// 0..4 ordinary entries plus 1..2 large ones (first / middle / last), rotation threshold
/// never / right behind the large entry / tiny, so that the large entry is followed by later
/// entries in its file or sits next to a rotation.
fn large_image_case() -> impl Strategy<Value = ImageCase> {
    (
        proptest::collection::vec(entry_spec(), 0..=4),
        proptest::collection::vec(
            (big_size(), any::<u8>(), prop::bool::ANY, stamp(), prop_oneof![Just(0u16), Just(32768u16), Just(65535u16), any::<u16>()]),
            1..=2,
        ),
        prop_oneof![3 => Just(0u8), 2 => Just(1u8), 1 => Just(2u8), 1 => Just(3u8)],
        proptest::collection::vec(
            (any::<u16>(), any::<u16>(), proptest::collection::vec(any::<u8>(), 2..=8))
                .prop_map(|(file, pos, bytes)| Overwrite { file, pos, bytes }),
            0..=3,
        ),
    )
        .prop_map(|(mut entries, bigs, mfs_mode, overwrites)| {
            let first_big = bigs[0].0;
            for (len, seed, delta, stamp, pos) in bigs {
                let at = ((pos as usize) * (entries.len() + 1)) >> 16;
                entries.insert(
                    at,
                    EntrySpec {
                        data: vec![seed],
                        stamp,
                        restart_before: false,
                        kind: if delta { "big_delta".into() } else { "big_raw".into() },
                        big_len: len,
                    },
                );
            }
            let max_file_size = match mfs_mode {
                0 => 1u32 << 30,
                1 => first_big + 300,
                2 => 17,
                _ => 400,
            };
            ImageCase {
                entries,
                max_file_size,
                overwrites,
                bit_samples: vec![],
                start_seq: 0,
                crafted: vec![],
            }
        })
}

/// `big` = share of large-entry images per 10 000
fn image_case_with(big: u32) -> impl Strategy<Value = ImageCase> {
    prop_oneof![
        9_600 - big => small_image_case(),
        // the file-name width boundary wal-ffffffff.wal -> wal-100000000.wal
        400 => (small_image_case(), prop_oneof![Just(0xffff_fffeu64), Just(0xffff_fffdu64), Just(0xffu64), Just(0xffff_ffff_ffffu64)])
            .prop_map(|(mut c, s)| {
                c.start_seq = s;
                c
            }),
        big => large_image_case(),
    ]
}

// ---------------------------------------------------------------------------------------
// image
// ---------------------------------------------------------------------------------------

type E = (Vec<u8>, u64);

/// the three fields of the 16-byte entry header: (name, first byte, end)
const HEADER_FIELDS: [(&str, usize, usize); 3] = [("length", 0, 4), ("stamp", 4, 12), ("crc", 12, 16)];

struct FileImg {
    name: String,
    seq: u64,
    bytes: Vec<u8>,
    /// indices into ImageCase.entries, in append order
    entries: Vec<usize>,
    /// byte offsets: entry k of this file occupies offs[k]..offs[k+1]
    offs: Vec<usize>,
}

struct Image {
    store: ImgStore,
    files: Vec<FileImg>,
    /// per file (same order as `files`) what was appended to it
    lists: Vec<Vec<E>>,
    /// the rotator that wrote the image (its current writer is the active file, if any)
    writer: WalRotator<ImgStore>,
}

fn file_name(seq: u64) -> String {
    format!("wal-{:08x}.wal", seq)
}

fn wal_entry(e: &EntrySpec) -> WalEntry {
    WalEntry {
        data: e.data.clone(),
        timestamp: e.stamp,
        checksum: crc32(&e.data),
    }
}

fn build(case: &ImageCase) -> Result<Image, String> {
    let store = ImgStore::new();
    let mfs = (case.max_file_size as usize).max(WAL_HEADER_SIZE + 1);
    if case.start_seq > 0 {
        // an older, header-only file: the log continues behind its sequence number
        let w = store.create(&file_name(case.start_seq)).map_err(|e| e.to_string())?;
        WalWriter::new(w, case.start_seq).map_err(|e| format!("WalWriter::new: {}", e))?;
    }
    let mut rot = WalRotator::new(store.clone(), mfs).map_err(|e| format!("WalRotator::new: {}", e))?;
    let mut per_file: BTreeMap<u64, Vec<usize>> = BTreeMap::new();
    for (i, e) in case.entries.iter().enumerate() {
        if e.restart_before && i > 0 {
            rot = WalRotator::new(store.clone(), mfs).map_err(|e| format!("WalRotator::new (restart): {}", e))?;
        }
        let seq = rot
            .append(&wal_entry(e))
            .map_err(|err| format!("append of entry #{} failed on a fault-free store: {}", i, err))?;
        per_file.entry(seq).or_default().push(i);
    }
    let mut files = Vec::new();
    let names = store.names();
    for name in &names {
        let seq = name
            .strip_prefix("wal-")
            .and_then(|s| s.strip_suffix(".wal"))
            .and_then(|s| u64::from_str_radix(s, 16).ok())
            .ok_or_else(|| format!("store holds a file with an unexpected name {:?}", name))?;
        if *name != file_name(seq) {
            return Err(format!("file name {:?} is not the canonical name of sequence {}", name, seq));
        }
        let bytes = store.get(name).unwrap_or_default();
        let entries = per_file.remove(&seq).unwrap_or_default();
        let mut offs = vec![WAL_HEADER_SIZE];
        for &i in &entries {
            let last = *offs.last().unwrap();
            offs.push(last + WAL_ENTRY_OVERHEAD + case.entries[i].data.len());
        }
        if bytes.len() != *offs.last().unwrap() {
            return Err(format!(
                "file {} holds {} bytes, but header + its {} entries occupy {} bytes by the documented layout",
                name,
                bytes.len(),
                entries.len(),
                offs.last().unwrap()
            ));
        }
        // the documented layout, checked once per image so that the offsets used by the
        // oracle are the real ones
        for (k, &i) in entries.iter().enumerate() {
            let want = encode_entry(&case.entries[i].data, case.entries[i].stamp);
            if bytes[offs[k]..offs[k + 1]] != want[..] {
                return Err(format!(
                    "file {} entry {} is not laid out as len|stamp|crc32(data)|data",
                    name, k
                ));
            }
        }
        files.push(FileImg {
            name: name.clone(),
            seq,
            bytes,
            entries,
            offs,
        });
    }
    if let Some((seq, v)) = per_file.iter().next() {
        return Err(format!(
            "append reported sequence {} for {} entries but the store has no such file",
            seq,
            v.len()
        ));
    }
    files.sort_by_key(|f| f.seq);
    let lists = files.iter().map(|f| file_entries(case, f)).collect();
    Ok(Image {
        store,
        files,
        lists,
        writer: rot,
    })
}

fn show_entry(e: &E) -> String {
    format!("(len={} crc={:08x} stamp={})", e.0.len(), crc32(&e.0), e.1)
}

fn show_list(v: &[E]) -> String {
    let parts: Vec<String> = v.iter().map(show_entry).collect();
    format!("[{}]", parts.join(", "))
}

fn to_e(v: Vec<WalEntry>) -> Vec<E> {
    v.into_iter().map(|e| (e.data, e.timestamp)).collect()
}

fn recover(store: &ImgStore) -> Result<Vec<E>, String> {
    let st = store.clone();
    let r = catch(move || {
        let rot = WalRotator::new(st, 1 << 20)?;
        rot.recover_all_entries()
    })
    .map_err(|p| format!("recovery panicked: {}", p))?;
    r.map(to_e).map_err(|e| format!("recovery returned an error: {}", e))
}

fn file_entries(case: &ImageCase, f: &FileImg) -> Vec<E> {
    f.entries
        .iter()
        .map(|&i| (case.entries[i].data.clone(), case.entries[i].stamp))
        .collect()
}

#[derive(Clone, Debug, PartialEq)]
enum St {
    Intact,
    /// only bytes of the 8-byte stamp field differ; the stamp now stored
    StampOnly(u64),
    Damaged,
}

fn entry_status(orig: &[u8], mutd: &[u8], start: usize, end: usize) -> St {
    if mutd.len() < end {
        return St::Damaged;
    }
    if orig[start..end] == mutd[start..end] {
        return St::Intact;
    }
    if orig[start..start + 4] == mutd[start..start + 4] && orig[start + 12..end] == mutd[start + 12..end] {
        let mut b = [0u8; 8];
        b.copy_from_slice(&mutd[start + 4..start + 12]);
        return St::StampOnly(u64::from_le_bytes(b));
    }
    St::Damaged
}

/// Number of whole 16-byte all-zero blocks at `mutd[at..]`.
fn zero_blocks(mutd: &[u8], mut at: usize) -> usize {
    let mut n = 0;
    while at + 16 <= mutd.len() && mutd[at..at + 16].iter().all(|&b| b == 0) {
        n += 1;
        at += 16;
    }
    n
}

/// Reference reader for the documented layout, from offset `pos`: frames len|stamp|crc|data,
/// stops at the first frame that is short or whose CRC-32 does not match. `accept_empty` =
/// false is the documented reader ("an entry never has an empty payload": a frame with
/// len 0 is not an entry, whatever its stamp and crc fields hold -- crc32 of nothing is 0,
/// so `len 0 | any stamp | crc 0` would otherwise be self-consistent); true is the reader
/// as it was before KF-C10-02 was repaired (only used to describe that finding).
fn ref_decode_with(bytes: &[u8], mut pos: usize, accept_empty: bool) -> Vec<E> {
    let mut out = Vec::new();
    while pos + 16 <= bytes.len() {
        let len = u32::from_le_bytes([bytes[pos], bytes[pos + 1], bytes[pos + 2], bytes[pos + 3]]) as usize;
        let mut sb = [0u8; 8];
        sb.copy_from_slice(&bytes[pos + 4..pos + 12]);
        let crc = u32::from_le_bytes([bytes[pos + 12], bytes[pos + 13], bytes[pos + 14], bytes[pos + 15]]);
        if len == 0 && !accept_empty {
            break;
        }
        let end = match (pos + 16).checked_add(len) {
            Some(e) if e <= bytes.len() => e,
            _ => break,
        };
        if crc32(&bytes[pos + 16..end]) != crc {
            break;
        }
        out.push((bytes[pos + 16..end].to_vec(), u64::from_le_bytes(sb)));
        pos = end;
    }
    out
}

fn ref_decode(bytes: &[u8], pos: usize) -> Vec<E> {
    ref_decode_with(bytes, pos, false)
}

struct Outcome {
    /// what the property demands of the mutated file: its first `strict` entries, unchanged
    strict: usize,
    /// what a reader with the two open format findings returns (None if neither applies):
    ///  KF-C10-01  an entry whose only damaged bytes lie in its stamp field is returned with
    ///             the stored (never written) stamp;
    ///  KF-C10-02  where decoding should stop, a 16-byte all-zero block frames as an entry
    ///             (len 0, crc 0 = crc32 of nothing) and reading goes on behind it.
    /// with KF-C10-01 alone (present iff some entry is damaged in its stamp field only)
    tolerant: Option<Vec<E>>,
    /// with KF-C10-02 (and KF-C10-01 if `uses_stamp`); present iff `uses_zero`
    tolerant_zero: Option<Vec<E>>,
    uses_stamp: bool,
    header_damaged: bool,
    /// the first damaged frame is self-consistent (its stored CRC-32 matches its stored data)
    /// without being an all-zero block: no checksum can tell it from an appended entry, the
    /// property cannot demand its rejection -> the comparison of this file is skipped, counted
    forged: bool,
    /// where recovery of the file must stop, the file holds a whole 16-byte header whose length
    /// field is 0 (measured, for the labels)
    stop_len0: bool,
    /// ... and whose crc field is 0 = crc32(b"") while the stamp field is not 0: the only
    /// self-consistent frame that is not an all-zero block and not an entry
    stop_empty_frame: bool,
}

/// Expected recovery of one file whose bytes were `f.bytes` and now are `mutd`.
fn expect_file(all: &[E], f: &FileImg, mutd: &[u8]) -> Outcome {
    let orig = &f.bytes;
    let header_damaged = mutd.len() < WAL_HEADER_SIZE || mutd[..WAL_HEADER_SIZE] != orig[..WAL_HEADER_SIZE];
    let mut strict = 0usize;
    let mut strict_open = true;
    let mut tolerant: Vec<E> = Vec::new();
    let mut uses_stamp = false;
    let mut stop = *f.offs.last().unwrap();
    for k in 0..all.len() {
        match entry_status(orig, mutd, f.offs[k], f.offs[k + 1]) {
            St::Intact => {
                if strict_open {
                    strict += 1;
                }
                tolerant.push(all[k].clone());
            }
            St::StampOnly(s) => {
                strict_open = false;
                uses_stamp = true;
                tolerant.push((all[k].0.clone(), s));
            }
            St::Damaged => {
                stop = f.offs[k];
                break;
            }
        }
    }
    let mut forged = false;
    let mut stop_len0 = false;
    let mut stop_empty_frame = false;
    let mut tolerant_zero: Option<Vec<E>> = None;
    if mutd.len() >= stop {
        if zero_blocks(mutd, stop) > 0 {
            let mut t = tolerant.clone();
            t.extend(ref_decode_with(mutd, stop, true));
            tolerant_zero = Some(t);
        } else if !ref_decode(mutd, stop).is_empty() {
            // self-consistent AND non-empty: a frame with len 0 is never an entry (documented
            // in WalEntry::decode), so `len 0 | stamp | crc 0` is NOT a forgery the reader may
            // accept -- it stays under the strict comparison
            forged = true;
        }
        if mutd.len() >= stop + 16 && mutd[stop..stop + 4] == [0u8; 4] {
            stop_len0 = true;
            stop_empty_frame = mutd[stop + 12..stop + 16] == [0u8; 4] && mutd[stop + 4..stop + 12] != [0u8; 8];
        }
    }
    Outcome {
        stop_len0,
        stop_empty_frame,
        forged,
        strict,
        tolerant: if uses_stamp { Some(tolerant) } else { None },
        tolerant_zero,
        uses_stamp,
        header_damaged,
    }
}

/// Install `mutd` as the bytes of file `m`, recover everything, and compare.
fn check_mutation(
    img: &Image,
    m: usize,
    mutd: &[u8],
    what: &dyn Fn() -> String,
    ctx: &mut CaseCtx<'_>,
) -> Result<(), String> {
    let f = &img.files[m];
    img.store.set(&f.name, mutd.to_vec());
    let got = recover(&img.store).map_err(|e| format!("{}: {}", what(), e))?;
    compare_recovered(img, m, mutd, got, what, ctx)
}

/// Compare what was recovered with what the property demands when file `m` reads as `mutd`.
fn compare_recovered(
    img: &Image,
    m: usize,
    mutd: &[u8],
    got: Vec<E>,
    what: &dyn Fn() -> String,
    ctx: &mut CaseCtx<'_>,
) -> Result<(), String> {
    let f = &img.files[m];
    let n_before: usize = img.lists[..m].iter().map(|l| l.len()).sum();
    let n_after: usize = img.lists[m + 1..].iter().map(|l| l.len()).sum();
    let all = &img.lists[m];
    let exp = expect_file(all, f, mutd);
    let fail = |why: &str| -> String {
        format!(
            "{}: {}\n  appended to this file: {}\n  demanded of this file:  its first {} entries\n  recovered (all files): {}\n  other files hold {} entries before and {} after this file",
            what(),
            why,
            show_list(all),
            exp.strict,
            show_list(&got),
            n_before,
            n_after
        )
    };
    if got.len() < n_before + n_after {
        return Err(fail("entries of undamaged files are missing"));
    }
    let mut at = 0;
    for l in &img.lists[..m] {
        if got[at..at + l.len()] != l[..] {
            return Err(fail("entries of the files before the damaged one are not recovered intact"));
        }
        at += l.len();
    }
    let mut at = got.len() - n_after;
    for l in &img.lists[m + 1..] {
        if got[at..at + l.len()] != l[..] {
            return Err(fail("entries of the files after the damaged one are not recovered intact"));
        }
        at += l.len();
    }
    let mid = &got[n_before..got.len() - n_after];
    if exp.stop_len0 {
        ctx.label("stop_frame:len=0");
    }
    if exp.stop_empty_frame {
        ctx.label("stop_frame:len=0,crc=0,stamp!=0");
    }
    if exp.forged {
        ctx.abstain();
        return Ok(());
    }
    if mid == &all[..exp.strict] {
        return Ok(());
    }
    if exp.header_damaged && mid.is_empty() {
        // a file whose 16-byte header is damaged may be skipped as a whole
        return Ok(());
    }
    if let Some(tol) = &exp.tolerant {
        if mid == &tol[..] {
            if ctx.tolerate(KF_STAMP) {
                return Ok(());
            }
            return Err(fail("mutation inside the stamp field of an entry header is accepted: an entry is returned with a stamp that was never written"));
        }
    }
    if let Some(tol) = &exp.tolerant_zero {
        if mid == &tol[..] {
            let mut ok = ctx.tolerate(KF_ZERO);
            if exp.uses_stamp {
                ok &= ctx.tolerate(KF_STAMP);
            }
            if ok {
                return Ok(());
            }
            let why = if exp.uses_stamp {
                "stamp-field damage accepted and all-zero blocks returned as entries"
            } else {
                "a 16-byte all-zero block is returned as an entry (len 0, crc 0) that was never appended"
            };
            return Err(fail(why));
        }
    }
    Err(fail("recovered list of the damaged file is not the intact prefix"))
}

fn locate(f: &FileImg, off: usize) -> String {
    if off < WAL_HEADER_SIZE {
        return format!("file header byte {}", off);
    }
    for k in 0..f.entries.len() {
        if off >= f.offs[k] && off < f.offs[k + 1] {
            let r = off - f.offs[k];
            let field = match r {
                0..=3 => "length field".to_string(),
                4..=11 => "stamp field".to_string(),
                12..=15 => "crc field".to_string(),
                _ => format!("payload byte {}", r - 16),
            };
            return format!("entry {} of the file, {}", k, field);
        }
    }
    "past the last entry".to_string()
}

fn check_image(case: &ImageCase, ctx: &mut CaseCtx<'_>) -> Result<(), String> {
    let thorough = ctx.tier() == vcore::Tier::Thorough;
    let big = has_big(case);
    let case = &materialise(case);
    let img = build(case)?;
    if big {
        ctx.label("large_entry(aimed_mutations_only)");
    }
    if case.start_seq > 0 {
        ctx.label("start_seq_aimed_at_name_width");
    }
    let n_entries = case.entries.len();
    ctx.label(&format!("files={}", img.files.len().min(6)));
    ctx.label(&format!("entries={}", if n_entries >= 8 { "8+".to_string() } else { n_entries.to_string() }));
    for e in &case.entries {
        ctx.label(&format!("payload:{}", e.kind));
    }
    let stamps: Vec<u64> = case.entries.iter().map(|e| e.stamp).collect();
    if stamps.windows(2).any(|w| w[0] > w[1]) {
        ctx.label("stamps_non_monotone");
    }
    if img.files.len() >= 2 && n_entries >= 3 {
        let fp: Vec<(&String, &Vec<u8>)> = img.files.iter().map(|f| (&f.name, &f.bytes)).collect();
        ctx.nontrivial(&fp);
    }

    // baseline: the unmutated image recovers everything, in append order
    let all: Vec<E> = img.files.iter().flat_map(|f| file_entries(case, f)).collect();
    let got = recover(&img.store)?;
    if got != all {
        return Err(format!(
            "unmutated image: recovered {} but appended {}",
            show_list(&got),
            show_list(&all)
        ));
    }
    // per-file reader agrees
    for f in &img.files {
        let rd = img.store.open_read(&f.name).map_err(|e| e.to_string())?;
        let r = WalReader::open(rd).map_err(|e| format!("WalReader::open({}) on an intact file: {}", f.name, e))?;
        if r.sequence() != f.seq {
            return Err(format!("{}: header sequence {} != file sequence {}", f.name, r.sequence(), f.seq));
        }
        if to_e(r.entries()) != file_entries(case, f) {
            return Err(format!("{}: WalReader::entries differs from what was appended", f.name));
        }
    }

    let mut evals: u64 = 0;
    let mut field_evals: u64 = 0;
    let mut sparse_evals: u64 = 0;
    for m in 0..img.files.len() {
        let f = &img.files[m];
        let orig = f.bytes.clone();

        // ---- every truncation length (a file holding a large entry: aimed lengths only)
        let big_file = orig.len() > 32_768;
        let lengths: Vec<usize> = if !big_file {
            (0..orig.len()).rev().collect()
        } else {
            let mut v: BTreeSet<usize> = [0usize, 1, 15, 16, 17].into_iter().collect();
            for k in 0..f.entries.len() {
                let (a, b) = (f.offs[k], f.offs[k + 1]);
                for d in [0usize, 1, 15, 16, 17, 16 + 65_535, 16 + 65_536, 16 + 65_537, 16 + (1 << 20) - 1, 16 + (1 << 20), 16 + (1 << 20) + 1] {
                    if a + d < b {
                        v.insert(a + d);
                    }
                }
                v.insert(a.saturating_sub(1));
                v.insert(b - 1);
                v.insert((a + b) / 2);
            }
            v.into_iter().filter(|&l| l < orig.len()).rev().collect()
        };
        for l in lengths {
            evals += 1;
            check_mutation(&img, m, &orig[..l], &|| {
                format!("{} ({} bytes, {} entries) truncated to {} bytes ({})", f.name, orig.len(), f.entries.len(), l, locate(f, l))
            }, ctx)?;
        }

        // ---- single-bit flips
        let mut bits: BTreeSet<usize> = BTreeSet::new();
        if big_file {
            // one bit per header field (incl. the 2^16 / 2^20 / 2^21 / 2^31 bits of the length
            // field), first and last payload bit, middle of the payload
            for k in 0..f.entries.len() {
                let a = f.offs[k] * 8;
                for d in [0usize, 20, 21, 32, 96, 128] {
                    bits.insert(a + d);
                }
                bits.insert(f.offs[k + 1] * 8 - 1);
                bits.insert((f.offs[k] + f.offs[k + 1]) * 4);
            }
            bits.insert(64);
        } else if thorough {
            bits.extend(0..orig.len() * 8);
        } else {
            bits.extend(0..WAL_HEADER_SIZE.min(orig.len()) * 8);
            for k in 0..f.entries.len() {
                bits.extend(f.offs[k] * 8..(f.offs[k] + WAL_ENTRY_OVERHEAD) * 8);
                // first and last payload bit
                bits.insert((f.offs[k] + WAL_ENTRY_OVERHEAD) * 8);
                bits.insert(f.offs[k + 1] * 8 - 1);
            }
            for &s in &case.bit_samples {
                bits.insert((s as usize * orig.len() * 8) >> 16);
            }
        }
        let mut work = orig.clone();
        for &b in &bits {
            if b / 8 >= work.len() {
                continue;
            }
            evals += 1;
            work[b / 8] ^= 1 << (b % 8);
            check_mutation(&img, m, &work, &|| {
                format!("{} ({} bytes, {} entries): bit {} of byte {} flipped ({})", f.name, orig.len(), f.entries.len(), b % 8, b / 8, locate(f, b / 8))
            }, ctx)?;
            work[b / 8] ^= 1 << (b % 8);
        }

        // ---- zero fill from every entry start (to the end of the entry / of the file), and
        //      zero / garbage tails appended after the last entry
        for k in 0..f.entries.len() {
            for end in [f.offs[k] + 16, f.offs[k + 1], orig.len()] {
                if end > orig.len() || (big_file && end != f.offs[k] + 16) {
                    continue;
                }
                evals += 1;
                let mut w = orig.clone();
                for b in &mut w[f.offs[k]..end] {
                    *b = 0;
                }
                check_mutation(&img, m, &w, &|| {
                    format!("{}: bytes {}..{} zero-filled (from the start of entry {})", f.name, f.offs[k], end, k)
                }, ctx)?;
            }
        }
        for (ti, tail) in [vec![0u8; 1], vec![0u8; 15], vec![0u8; 16], vec![0u8; 40], vec![0xffu8; 16], vec![0xffu8; 3]].into_iter().enumerate() {
            if big_file && ti != 2 && ti != 4 {
                continue;
            }
            evals += 1;
            let mut w = orig.clone();
            w.extend_from_slice(&tail);
            check_mutation(&img, m, &w, &|| {
                format!("{}: {} bytes of {:#04x} appended after the last entry", f.name, tail.len(), tail[0])
            }, ctx)?;
        }

        // ---- field-granular damage of every entry header: every non-empty subset of
        //      {length, stamp, crc} reads back as zeros / as ones while the other fields keep
        //      what was written (a torn or partially persisted header), with the bytes behind
        //      the header kept / missing (the file ends behind the header: the payload never
        //      reached the disk) / reading as zero up to the old end of the file
        for k in 0..f.entries.len() {
            let a = f.offs[k];
            for subset in 1u8..8 {
                for fill in [0u8, 0xff] {
                    for rest in 0u8..3 {
                        if big_file && (fill != 0 || rest == 2) {
                            continue;
                        }
                        evals += 1;
                        field_evals += 1;
                        let mut w = orig.clone();
                        let mut names = Vec::new();
                        for (i, (name, s0, e0)) in HEADER_FIELDS.iter().enumerate() {
                            if subset >> i & 1 == 1 {
                                w[a + s0..a + e0].fill(fill);
                                names.push(*name);
                            }
                        }
                        match rest {
                            1 => w.truncate(a + WAL_ENTRY_OVERHEAD),
                            2 => w[a + WAL_ENTRY_OVERHEAD..].fill(0),
                            _ => {}
                        }
                        check_mutation(&img, m, &w, &|| {
                            format!(
                                "{} ({} bytes, {} entries): header of entry {} (offset {}): field(s) {} read back as {:#04x}, {}",
                                f.name,
                                orig.len(),
                                f.entries.len(),
                                k,
                                a,
                                names.join("+"),
                                fill,
                                ["bytes behind the header unchanged", "the file ends right behind the header", "everything behind the header reads as zero"][rest as usize]
                            )
                        }, ctx)?;
                    }
                }
            }
        }

        // ---- sparse blocks: a region that reads as zero (never-written tail behind the last
        //      entry, or everything from an entry start on) with ONE bit set in its first 16-byte
        //      block. Quick: one generated bit of each of the 16 bytes of the tail's first block
        //      (thorough: all 128) + one in the second block; per entry one generated bit in each
        //      header field and one in the block behind it
        let sample = |i: usize| -> usize { case.bit_samples.get(i % case.bit_samples.len().max(1)).copied().unwrap_or(0) as usize };
        {
            let mut tail_bits: Vec<usize> = Vec::new();
            if thorough && !big_file {
                tail_bits.extend(0..128);
            } else {
                for byte in 0..16 {
                    tail_bits.push(byte * 8 + (sample(byte) & 7));
                }
            }
            tail_bits.push(128 + (sample(16) & 127));
            for b in tail_bits {
                evals += 1;
                sparse_evals += 1;
                let mut w = orig.clone();
                w.extend_from_slice(&[0u8; 48]);
                w[orig.len() + b / 8] ^= 1 << (b % 8);
                check_mutation(&img, m, &w, &|| {
                    format!(
                        "{} ({} bytes, {} entries): 48 zero bytes behind the last entry with bit {} of tail byte {} set",
                        f.name,
                        orig.len(),
                        f.entries.len(),
                        b % 8,
                        b / 8
                    )
                }, ctx)?;
            }
        }
        if !big_file {
            for k in 0..f.entries.len() {
                let a = f.offs[k];
                let picks = [
                    (sample(3 * k) & 31),
                    32 + (sample(3 * k + 1) & 63),
                    96 + (sample(3 * k + 2) & 31),
                    128 + (sample(3 * k + 3) & 127),
                ];
                for b in picks {
                    if a + b / 8 >= orig.len() {
                        continue;
                    }
                    evals += 1;
                    sparse_evals += 1;
                    let mut w = orig.clone();
                    w[a..].fill(0);
                    w[a + b / 8] ^= 1 << (b % 8);
                    check_mutation(&img, m, &w, &|| {
                        format!(
                            "{} ({} bytes, {} entries): everything from the start of entry {} (offset {}) reads as zero except bit {} of byte {} ({})",
                            f.name,
                            orig.len(),
                            f.entries.len(),
                            k,
                            a,
                            b % 8,
                            a + b / 8,
                            locate(f, a + b / 8)
                        )
                    }, ctx)?;
                }
            }
        }

        img.store.set(&f.name, orig.clone());
    }
    if field_evals > 0 {
        ctx.label("mutation:header_field_subset(zero/ones)x(kept/cut/zero_rest)");
    }
    if sparse_evals > 0 {
        ctx.label("mutation:zero_region_with_one_bit_set");
    }

    // ---- generated entry headers written at entry boundaries / behind the last entry
    if !img.files.is_empty() {
        for cr in &case.crafted {
            let m = (cr.file as usize * img.files.len()) >> 16;
            let f = &img.files[m];
            let orig = &f.bytes;
            if orig.len() > 32_768 {
                continue;
            }
            let k = (cr.entry as usize * (f.entries.len() + 1)) >> 16;
            let a = f.offs[k];
            let mut hdr = Vec::with_capacity(16);
            hdr.extend_from_slice(&cr.len.to_le_bytes());
            hdr.extend_from_slice(&cr.stamp.to_le_bytes());
            hdr.extend_from_slice(&cr.crc.to_le_bytes());
            let mut w = orig.clone();
            if w.len() < a + 16 {
                w.resize(a + 16, 0);
            }
            w[a..a + 16].copy_from_slice(&hdr);
            match cr.rest {
                1 => w.truncate(a + 16),
                2 => w[a + 16..].fill(0),
                3 => {
                    w.truncate(a + 16);
                    w.extend_from_slice(&[0u8; 32]);
                }
                _ => {}
            }
            evals += 1;
            ctx.label(if k == f.entries.len() { "mutation:crafted_header_behind_last_entry" } else { "mutation:crafted_header_at_entry_start" });
            if cr.len == 0 && cr.crc == 0 && cr.stamp != 0 {
                ctx.label("mutation:crafted_header(len=0,crc=0,stamp!=0)");
            }
            check_mutation(&img, m, &w, &|| {
                format!(
                    "{} ({} bytes, {} entries): a header len={} stamp={} crc={:08x} stands at offset {} ({}), {}",
                    f.name,
                    orig.len(),
                    f.entries.len(),
                    cr.len,
                    cr.stamp,
                    cr.crc,
                    a,
                    if k == f.entries.len() { "behind the last entry".to_string() } else { format!("start of entry {}", k) },
                    ["old bytes behind it", "the file ends behind it", "zeros behind it up to the old end of the file", "32 zero bytes behind it, then the end"][(cr.rest & 3) as usize]
                )
            }, ctx)?;
            img.store.set(&f.name, orig.clone());
        }
    }

    // ---- generated multi-byte overwrites
    if !img.files.is_empty() {
        for ow in &case.overwrites {
            let m = (ow.file as usize * img.files.len()) >> 16;
            let f = &img.files[m];
            let orig = &f.bytes;
            let p = (ow.pos as usize * orig.len()) >> 16;
            let mut w = orig.clone();
            for (i, &b) in ow.bytes.iter().enumerate() {
                if p + i < w.len() {
                    w[p + i] = b;
                }
            }
            evals += 1;
            check_mutation(&img, m, &w, &|| {
                format!("{}: {} bytes overwritten at offset {} with {} ({})", f.name, ow.bytes.len(), p, vcore::hex(&ow.bytes), locate(f, p))
            }, ctx)?;
            img.store.set(&f.name, orig.clone());
        }
    }

    // ---- read-side I/O faults during recovery, one file at a time: the file cannot be opened
    //      (EACCES / vanished), its read fails (EIO), or the read comes back short. The code
    //      promises "corrupt or unreadable files are skipped": recovery as a whole succeeds,
    //      every other file is complete, the failing file contributes nothing (short read:
    //      exactly the entries wholly inside what was read).
    for m in 0..img.files.len() {
        let f = &img.files[m];
        for fault in [ReadFault::OpenIo, ReadFault::OpenNotFound, ReadFault::ReadIo] {
            evals += 1;
            img.store.set_read_fault(&f.name, Some(fault));
            let r = recover(&img.store);
            img.store.set_read_fault(&f.name, None);
            let got = r.map_err(|e| {
                format!(
                    "{} is unreadable ({:?}) and recovery of the whole log fails instead of skipping the file: {} [{} other files hold {} entries]",
                    f.name,
                    fault,
                    e,
                    img.files.len() - 1,
                    img.lists.iter().enumerate().filter(|(i, _)| *i != m).map(|(_, l)| l.len()).sum::<usize>()
                )
            })?;
            let exp: Vec<&E> = img.lists.iter().enumerate().filter(|(i, _)| *i != m).flat_map(|(_, l)| l.iter()).collect();
            if got.len() != exp.len() || got.iter().zip(exp.iter()).any(|(a, b)| a != *b) {
                return Err(format!(
                    "{} is unreadable ({:?}): the other files must recover completely and nothing else; recovered {} entries, expected {}",
                    f.name,
                    fault,
                    got.len(),
                    exp.len()
                ));
            }
        }
        let mut ks: BTreeSet<usize> = [0usize, 7, 16].into_iter().collect();
        for k in 0..f.entries.len() {
            ks.insert(f.offs[k] + 9);
            ks.insert(f.offs[k + 1] - 1);
            ks.insert(f.offs[k + 1]);
        }
        for k in ks {
            if k > f.bytes.len() {
                continue;
            }
            evals += 1;
            img.store.set_read_fault(&f.name, Some(ReadFault::ReadShort(k)));
            let r = recover(&img.store);
            img.store.set_read_fault(&f.name, None);
            let what = || format!("{} ({} bytes, {} entries): short read of {} bytes", f.name, f.bytes.len(), f.entries.len(), k);
            let got = r.map_err(|e| format!("{}: {}", what(), e))?;
            compare_recovered(&img, m, &f.bytes[..k], got, &what, ctx)?;
        }
    }

    // ---- every file deleted; every pair of files swapped
    for m in 0..img.files.len() {
        evals += 1;
        img.store.remove(&img.files[m].name);
        let got = recover(&img.store)?;
        let exp: Vec<E> = img
            .files
            .iter()
            .enumerate()
            .filter(|(i, _)| *i != m)
            .flat_map(|(_, f)| file_entries(case, f))
            .collect();
        if got != exp {
            return Err(format!(
                "{} deleted: the other files must recover completely; recovered {} expected {}",
                img.files[m].name,
                show_list(&got),
                show_list(&exp)
            ));
        }
        img.store.set(&img.files[m].name, img.files[m].bytes.clone());
    }
    for a in 0..img.files.len() {
        for b in a + 1..img.files.len() {
            evals += 1;
            img.store.set(&img.files[a].name, img.files[b].bytes.clone());
            img.store.set(&img.files[b].name, img.files[a].bytes.clone());
            let got = recover(&img.store)?;
            let mut order: Vec<usize> = (0..img.files.len()).collect();
            order.swap(a, b);
            let exp: Vec<E> = order.iter().flat_map(|&i| file_entries(case, &img.files[i])).collect();
            if got != exp {
                return Err(format!(
                    "contents of {} and {} swapped: every entry must still be recovered, file by file; recovered {} expected {}",
                    img.files[a].name,
                    img.files[b].name,
                    show_list(&got),
                    show_list(&exp)
                ));
            }
            img.store.set(&img.files[a].name, img.files[a].bytes.clone());
            img.store.set(&img.files[b].name, img.files[b].bytes.clone());
        }
    }
    // ---- a crash inside a rotation left a newest file without a (whole) header: restart,
    //      append one entry, recover: everything plus the new entry, no file re-created
    if !big {
        let next = img.files.iter().map(|f| f.seq).max().unwrap_or(0) + 1;
        for (vi, junk) in [Vec::new(), b"RWAL\x01\0\0".to_vec(), vec![0xabu8; 16], vec![0xffu8; 33]].into_iter().enumerate() {
            evals += 1;
            let st = img.store.deep_copy();
            st.set(&file_name(next), junk.clone());
            let mfs = (case.max_file_size as usize).max(WAL_HEADER_SIZE + 1);
            let extra = EntrySpec {
                data: b"after-restart".to_vec(),
                stamp: 3,
                restart_before: false,
                kind: "raw".into(),
                big_len: 0,
            };
            let r = catch(|| WalRotator::new(st.clone(), mfs).and_then(|mut r| r.append(&wal_entry(&extra))))
                .map_err(|p| format!("restart with a headerless newest file (variant {}) panicked: {}", vi, p))?
                .map_err(|e| format!("restart with a headerless newest file (variant {}): append failed: {}", vi, e))?;
            let got = recover(&st)?;
            let mut want: Vec<E> = all.clone();
            want.push((extra.data.clone(), extra.stamp));
            let mut a = got.clone();
            let mut b = want.clone();
            a.sort();
            b.sort();
            if a != b || !st.replaced().is_empty() {
                return Err(format!(
                    "newest file {} holds {} bytes without a valid header (crash inside a rotation); after restart + one append (went to sequence {}) recovery returns {} entries, expected {}; files re-created over existing content: {:?}; files: {:?}",
                    file_name(next),
                    junk.len(),
                    r,
                    got.len(),
                    want.len(),
                    st.replaced(),
                    st.names()
                ));
            }
        }
    }
    ctx.add_evaluations(evals);
    Ok(())
}

// ---------------------------------------------------------------------------------------
// truncate_before
// ---------------------------------------------------------------------------------------

fn check_truncate(case: &ImageCase, ctx: &mut CaseCtx<'_>) -> Result<(), String> {
    if has_big(case) {
        ctx.label("large_entry");
    }
    let case = &materialise(case);
    let mut ts: BTreeSet<u64> = case.entries.iter().map(|e| e.stamp).collect();
    ts.insert(0);
    if let Some(&mx) = ts.iter().next_back() {
        if let Some(n) = mx.checked_add(1) {
            ts.insert(n);
        }
    }
    if has_big(case) {
        // each (T, variant) rebuilds a multi-megabyte image: the large entries' stamps, the
        // stamp just below, 0 and max+1
        let keep: BTreeSet<u64> = case
            .entries
            .iter()
            .filter(|e| e.big_len > 0)
            .flat_map(|e| [e.stamp, e.stamp.saturating_sub(1)])
            .chain([0, *ts.iter().next_back().unwrap()])
            .collect();
        ts.retain(|t| keep.contains(t));
    }
    let mut evals = 0u64;
    let mut deleted_any = false;
    let mut kept_old = false;
    let mut n_files = 0;
    for &t in &ts {
        for active in [true, false] {
            evals += 1;
            let mut img = build(case)?;
            n_files = img.files.len();
            let mfs = (case.max_file_size as usize).max(WAL_HEADER_SIZE + 1);
            let what = format!(
                "truncate_before({}) {} an active writer, files {:?}",
                t,
                if active { "with" } else { "without" },
                img.files.iter().map(|f| (f.name.clone(), f.entries.iter().map(|&i| case.entries[i].stamp).collect::<Vec<_>>())).collect::<Vec<_>>()
            );
            let mut rot = if active {
                std::mem::replace(&mut img.writer, WalRotator::new(ImgStore::new(), mfs).map_err(|e| e.to_string())?)
            } else {
                WalRotator::new(img.store.clone(), mfs).map_err(|e| e.to_string())?
            };
            // the active file is the file of the last append, provided no restart happened
            // after it (a restart leaves no current writer)
            let active_name = if active && !case.entries.is_empty() {
                Some(file_name(rot.current_sequence()))
            } else {
                None
            };
            let r = catch(|| rot.truncate_before(t)).map_err(|p| format!("{}: panicked: {}", what, p))?;
            let deleted = r.map_err(|e| format!("{}: returned an error: {}", what, e))?;
            let left: BTreeSet<String> = img.store.names().into_iter().collect();
            if let Some(an) = &active_name {
                if !left.contains(an) {
                    return Err(format!("{}: the active file {} was removed", what, an));
                }
            }
            let gone: Vec<&FileImg> = img.files.iter().filter(|f| !left.contains(&f.name)).collect();
            if gone.len() != deleted {
                return Err(format!("{}: reported {} deleted files, {} are gone", what, deleted, gone.len()));
            }
            for f in &gone {
                deleted_any = true;
                if let Some(&i) = f.entries.iter().find(|&&i| case.entries[i].stamp > t) {
                    return Err(format!(
                        "{}: file {} was deleted although it holds entry #{} with stamp {} > {}",
                        what, f.name, i, case.entries[i].stamp, t
                    ));
                }
            }
            for f in img.files.iter().filter(|f| left.contains(&f.name)) {
                if f.entries.iter().all(|&i| case.entries[i].stamp <= t) && !f.entries.is_empty() {
                    kept_old = true;
                }
            }
            // every surviving file recovers completely; nothing else appears
            let got = recover(&img.store).map_err(|e| format!("{}: {}", what, e))?;
            let exp: Vec<E> = img
                .files
                .iter()
                .filter(|f| left.contains(&f.name))
                .flat_map(|f| file_entries(case, f))
                .collect();
            if got != exp {
                return Err(format!(
                    "{}: after truncation recovered {} but the surviving files hold {}",
                    what,
                    show_list(&got),
                    show_list(&exp)
                ));
            }
            for e in case.entries.iter().filter(|e| e.stamp > t) {
                if !got.iter().any(|g| g.0 == e.data && g.1 == e.stamp) {
                    return Err(format!("{}: entry with stamp {} > {} is no longer recovered", what, e.stamp, t));
                }
            }
            // the log stays usable: one more append is recovered together with everything kept
            let extra = EntrySpec {
                data: b"after-truncation".to_vec(),
                stamp: t,
                restart_before: false,
                kind: "raw".into(),
                big_len: 0,
            };
            rot.append(&wal_entry(&extra)).map_err(|e| format!("{}: append after truncation failed: {}", what, e))?;
            let got2 = recover(&img.store).map_err(|e| format!("{}: {}", what, e))?;
            let mut want: Vec<E> = exp.clone();
            want.push((extra.data.clone(), extra.stamp));
            let mut a = got2.clone();
            let mut b = want.clone();
            a.sort();
            b.sort();
            if a != b {
                return Err(format!(
                    "{}: after one more append recovered {} expected (any file order) {}",
                    what,
                    show_list(&got2),
                    show_list(&want)
                ));
            }
        }
    }
    // one file unreadable while truncating (median T, fresh rotator): nothing it cannot read may
    // be judged deletable -- the unreadable file stays if it holds a stamp > T -- and no panic
    if !has_big(case) {
        let t = ts.iter().nth(ts.len() / 2).copied().unwrap_or(0);
        let probe = build(case)?;
        for m in 0..probe.files.len().min(4) {
            evals += 1;
            let img = build(case)?;
            let f = &img.files[m];
            img.store.set_read_fault(&f.name, Some(ReadFault::OpenIo));
            let mfs = (case.max_file_size as usize).max(WAL_HEADER_SIZE + 1);
            let mut rot = WalRotator::new(img.store.clone(), mfs).map_err(|e| e.to_string())?;
            let r = catch(|| rot.truncate_before(t)).map_err(|p| format!("truncate_before({}) with {} unreadable panicked: {}", t, f.name, p))?;
            img.store.set_read_fault(&f.name, None);
            let left: BTreeSet<String> = img.store.names().into_iter().collect();
            for g in img.files.iter().filter(|g| !left.contains(&g.name)) {
                if let Some(&i) = g.entries.iter().find(|&&i| case.entries[i].stamp > t) {
                    return Err(format!(
                        "truncate_before({}) -> {:?} while {} was unreadable: file {} was deleted although it holds entry #{} with stamp {} > {}",
                        t,
                        r.as_ref().map_err(|e| e.to_string()),
                        f.name,
                        g.name,
                        i,
                        case.entries[i].stamp,
                        t
                    ));
                }
            }
        }
    }
    if deleted_any {
        ctx.label("some_file_deleted");
    }
    if kept_old {
        ctx.label("old_file_kept(active_or_conservative)");
    }
    let stamps: Vec<u64> = case.entries.iter().map(|e| e.stamp).collect();
    if stamps.windows(2).any(|w| w[0] > w[1]) {
        ctx.label("stamps_non_monotone");
    }
    ctx.label(&format!("files={}", n_files.min(6)));
    if n_files >= 2 && case.entries.len() >= 3 {
        ctx.nontrivial(&(stamps, case.max_file_size, case.entries.iter().map(|e| (e.data.len(), e.restart_before)).collect::<Vec<_>>()));
    }
    ctx.add_evaluations(evals);
    Ok(())
}

// ---------------------------------------------------------------------------------------
// recover_entries_after on delta-only images
// ---------------------------------------------------------------------------------------

fn check_entries_after(case: &ImageCase, ctx: &mut CaseCtx<'_>) -> Result<(), String> {
    if has_big(case) {
        ctx.label("large_entry");
    }
    let case = &materialise(case);
    let img = build(case)?;
    let mut ts: BTreeSet<u64> = case.entries.iter().map(|e| e.stamp).collect();
    ts.insert(0);
    ts.insert(u64::MAX);
    let all: Vec<&EntrySpec> = img
        .files
        .iter()
        .flat_map(|f| f.entries.iter().map(|&i| &case.entries[i]))
        .collect();
    let rot = WalRotator::new(img.store.clone(), 1 << 20).map_err(|e| e.to_string())?;
    let mut evals = 0;
    for &t in &ts {
        evals += 1;
        let got = catch(|| rot.recover_entries_after(t))
            .map_err(|p| format!("recover_entries_after({}) panicked: {}", t, p))?
            .map_err(|e| format!("recover_entries_after({}) failed on an intact image of real deltas: {}", t, e))?;
        let got_b: Vec<Vec<u8>> = got.iter().map(|d| bincode::serialize(d).unwrap_or_default()).collect();
        let exp: Vec<Vec<u8>> = all.iter().filter(|e| e.stamp >= t).map(|e| e.data.clone()).collect();
        if got_b != exp {
            return Err(format!(
                "recover_entries_after({}): {} deltas returned, {} entries have stamp >= {} (or contents differ); stamps in append order {:?}",
                t,
                got_b.len(),
                exp.len(),
                t,
                all.iter().map(|e| e.stamp).collect::<Vec<_>>()
            ));
        }
    }
    // the integration-level entry point: RecoveryManager::recover_with_wal over an empty object
    // store must hand back every WAL delta, in order; and with one WAL file unreadable (EACCES /
    // EIO) both entry points still return the deltas of all other files
    let run_with_wal = |what: &str| -> Result<Vec<Vec<u8>>, String> {
        let r = catch(|| {
            vcore::block_on(async {
                let mgr = RecoveryManager::new(InMemoryObjectStore::new(), "c10", 1);
                mgr.recover_with_wal(&rot).await
            })
        })
        .map_err(|p| format!("recover_with_wal ({}) panicked: {}", what, p))?
        .map_err(|e| format!("recover_with_wal ({}) failed: {}", what, e))?;
        Ok(r.deltas.iter().map(|d| bincode::serialize(d).unwrap_or_default()).collect())
    };
    if !has_big(case) {
        evals += 1;
        let got = run_with_wal("intact image")?;
        let exp: Vec<Vec<u8>> = all.iter().map(|e| e.data.clone()).collect();
        if got != exp {
            return Err(format!("recover_with_wal over an empty object store returned {} deltas, the WAL holds {} (same count = order or content differs from append order)", got.len(), exp.len()));
        }
        for m in 0..img.files.len().min(6) {
            let f = &img.files[m];
            let exp: Vec<Vec<u8>> = img
                .files
                .iter()
                .enumerate()
                .filter(|(i, _)| *i != m)
                .flat_map(|(_, g)| g.entries.iter().map(|&i| case.entries[i].data.clone()))
                .collect();
            for fault in [ReadFault::OpenIo, ReadFault::ReadIo] {
                evals += 2;
                img.store.set_read_fault(&f.name, Some(fault));
                let a = catch(|| rot.recover_entries_after(0));
                let b = run_with_wal(&format!("{} unreadable: {:?}", f.name, fault));
                img.store.set_read_fault(&f.name, None);
                let a = a
                    .map_err(|p| format!("recover_entries_after(0) with {} unreadable panicked: {}", f.name, p))?
                    .map_err(|e| format!("recover_entries_after(0) fails as a whole because {} is unreadable ({:?}): {}", f.name, fault, e))?;
                let a: Vec<Vec<u8>> = a.iter().map(|d| bincode::serialize(d).unwrap_or_default()).collect();
                if a != exp {
                    return Err(format!("recover_entries_after(0) with {} unreadable ({:?}): {} deltas, the other files hold {}", f.name, fault, a.len(), exp.len()));
                }
                let b = b?;
                if b != exp {
                    return Err(format!("recover_with_wal with {} unreadable ({:?}): {} deltas, the other files hold {}", f.name, fault, b.len(), exp.len()));
                }
            }
        }
    }
    // one file DAMAGED (content, not I/O): the delta-level entry points -- what the server runs at
    // start-up -- must still succeed and return the deltas of every other file completely plus
    // the intact prefix of the damaged file ("a damaged file never hides intact entries of
    // other files", "ends recovery of that file at the last intact entry"). Every damage below
    // leaves entry k unacceptable for the documented reader (short, CRC mismatch, or len 0).
    if !has_big(case) {
        let mut damaged_runs = 0u64;
        for m in 0..img.files.len().min(6) {
            let f = &img.files[m];
            let n = f.entries.len();
            let mut ks: BTreeSet<usize> = BTreeSet::new();
            if n > 0 {
                ks.extend([0, n / 2, n - 1]);
            }
            for k in ks {
                let a = f.offs[k];
                let mut variants: Vec<(&str, Vec<u8>)> = Vec::new();
                variants.push(("the file ends inside the header of the entry (9 bytes of it)", f.bytes[..a + 9].to_vec()));
                variants.push(("the file ends one byte before the end of the entry", f.bytes[..f.offs[k + 1] - 1].to_vec()));
                {
                    let mut w = f.bytes[..a + 16].to_vec();
                    w[a..a + 4].fill(0);
                    w[a + 12..a + 16].fill(0);
                    variants.push(("torn header: length and crc fields read back as zero, the stamp is there, the file ends behind the header", w));
                }
                {
                    let mut w = f.bytes.clone();
                    w[a..a + 4].fill(0);
                    w[a + 12..a + 16].fill(0);
                    variants.push(("length and crc fields of the entry read back as zero, everything else unchanged", w));
                }
                {
                    let mut w = f.bytes.clone();
                    w[a..].fill(0);
                    w[a + 4 + (k % 8)] ^= 1 << (m % 8);
                    variants.push(("everything from the entry on reads as zero except one bit in the first block's stamp field", w));
                }
                {
                    let mut w = f.bytes.clone();
                    w[a + 16] ^= 1;
                    variants.push(("first payload bit of the entry flipped", w));
                }
                let exp: Vec<Vec<u8>> = img
                    .files
                    .iter()
                    .enumerate()
                    .flat_map(|(i, g)| {
                        let take = if i == m { k } else { g.entries.len() };
                        g.entries[..take].iter().map(|&i| case.entries[i].data.clone())
                    })
                    .collect();
                for (vi, (what, w)) in variants.into_iter().enumerate() {
                    evals += 1;
                    damaged_runs += 1;
                    img.store.set(&f.name, w);
                    let a_res = catch(|| rot.recover_entries_after(0));
                    // the integration-level entry point for the torn-header variants only (a runtime per call)
                    let b_res = if vi == 2 || vi == 4 { Some(run_with_wal(&format!("{}: {}", f.name, what))) } else { None };
                    img.store.set(&f.name, f.bytes.clone());
                    let ctxt = format!(
                        "{} ({} of {} files, {} entries) damaged at its entry {}: {}",
                        f.name,
                        m + 1,
                        img.files.len(),
                        n,
                        k,
                        what
                    );
                    let got = a_res
                        .map_err(|p| format!("{}: recover_entries_after(0) panicked: {}", ctxt, p))?
                        .map_err(|e| format!("{}: recover_entries_after(0) fails as a whole ({}); the log holds {} intact entries in front of / outside the damage", ctxt, e, exp.len()))?;
                    let got: Vec<Vec<u8>> = got.iter().map(|d| bincode::serialize(d).unwrap_or_default()).collect();
                    if got != exp {
                        return Err(format!(
                            "{}: recover_entries_after(0) returns {} deltas; the other files plus the first {} entries of this file hold {} (same count = content or order differs)",
                            ctxt,
                            got.len(),
                            k,
                            exp.len()
                        ));
                    }
                    if let Some(b) = b_res {
                        let b = b.map_err(|e| format!("{}: {}", ctxt, e))?;
                        if b != exp {
                            return Err(format!("{}: recover_with_wal returns {} deltas, expected {}", ctxt, b.len(), exp.len()));
                        }
                    }
                }
            }
        }
        if damaged_runs > 0 {
            ctx.label("delta_level_recovery_with_one_file_damaged");
        }
    }
    if img.files.len() >= 2 && case.entries.len() >= 3 {
        ctx.nontrivial(&case.entries.iter().map(|e| (e.data.clone(), e.stamp)).collect::<Vec<_>>());
    }
    ctx.add_evaluations(evals);
    Ok(())
}

// ---------------------------------------------------------------------------------------
// life cycles: append / sync / truncate / restart / crash / recover in generated order
// ---------------------------------------------------------------------------------------

#[derive(Clone, Debug, Serialize, Deserialize)]
enum Step {
    /// append these (payload length, stamp) entries through the current rotator
    Append(Vec<(u16, u64)>),
    /// WalRotator::sync
    Sync,
    /// truncate_before(T), T picked from {0, stamps seen so far, each -1 / +1} by this fraction
    Truncate(u16),
    /// process restart without data loss: a new WalRotator over the same store
    Restart,
    /// crash: bytes not covered by an fsync of their file are lost, then restart
    Crash,
    /// crash inside a rotation: as `Crash`, and the newest file -- if nothing of it was ever
    /// fsynced -- is left headerless: 0 = empty, 1..=15 = that many bytes of its header,
    /// 16 = sixteen garbage bytes, 17 = header with an unknown version, 18 = 40 bytes of 0xff
    CrashTorn(u8),
}

#[derive(Clone, Debug, Serialize, Deserialize)]
struct LifeCase {
    max_file_size: u32,
    steps: Vec<Step>,
}

fn life_case() -> impl Strategy<Value = LifeCase> {
    let step = prop_oneof![
        5 => proptest::collection::vec((1u16..60, prop_oneof![8 => 0u64..8, 1 => 0u64..1000, 1 => Just(u64::MAX)]), 1..=5).prop_map(Step::Append),
        1 => Just(Step::Sync),
        3 => any::<u16>().prop_map(Step::Truncate),
        3 => Just(Step::Restart),
        1 => Just(Step::Crash),
        2 => (0u8..=18).prop_map(Step::CrashTorn),
    ];
    (
        prop_oneof![3 => Just(17u32), 4 => 40u32..200, 2 => 200u32..600, 1 => Just(1u32 << 24)],
        proptest::collection::vec(step, 3..=10),
    )
        .prop_map(|(max_file_size, steps)| LifeCase { max_file_size, steps })
}

struct RefEntry {
    data: Vec<u8>,
    stamp: u64,
    /// offset in its file just behind this entry
    end: usize,
}

fn check_life(c: &LifeCase, ctx: &mut CaseCtx<'_>) -> Result<(), String> {
    let store = ImgStore::new();
    let mfs = (c.max_file_size as usize).max(WAL_HEADER_SIZE + 1);
    let mut rot = WalRotator::new(store.clone(), mfs).map_err(|e| e.to_string())?;
    // the reference: per existing file (by sequence) what was appended to it and not lost
    let mut files: BTreeMap<u64, Vec<RefEntry>> = BTreeMap::new();
    // the file the current rotator is writing to (None right after a restart)
    let mut active: Option<u64> = None;
    let mut seen: BTreeSet<u64> = [0u64].into_iter().collect();
    let mut counter = 0u32;
    let mut history: Vec<String> = Vec::new();
    let mut evals = 0u64;
    let mut kinds: BTreeSet<&'static str> = BTreeSet::new();
    let mut truncated_then_restarted_then_appended = 0u8;

    let show_ref = |files: &BTreeMap<u64, Vec<RefEntry>>| -> String {
        let v: Vec<String> = files
            .iter()
            .map(|(s, es)| format!("{}:{:?}", file_name(*s), es.iter().map(|e| e.stamp).collect::<Vec<_>>()))
            .collect();
        v.join(" ")
    };
    for (si, step) in c.steps.iter().enumerate() {
        match step {
            Step::Append(es) => {
                kinds.insert("append");
                for &(len, stamp) in es {
                    counter += 1;
                    let mut data = counter.to_le_bytes().to_vec();
                    data.resize((len as usize).max(4), (counter % 251) as u8);
                    let e = WalEntry {
                        checksum: crc32(&data),
                        data: data.clone(),
                        timestamp: stamp,
                    };
                    let seq = rot.append(&e).map_err(|err| format!("step {}: append failed on a fault-free store: {}", si, err))?;
                    seen.insert(stamp);
                    if active != Some(seq) {
                        // the rotator opened a new file
                        if files.get(&seq).map(|es| !es.is_empty()).unwrap_or(false) || store.replaced().contains(&file_name(seq)) {
                            return Err(format!(
                                "step {}: the rotator created {} although that file exists and holds entries with stamps {:?} (its content is replaced)\n  history: {}\n  files before: {}",
                                si,
                                file_name(seq),
                                files[&seq].iter().map(|e| e.stamp).collect::<Vec<_>>(),
                                history.join(" | "),
                                show_ref(&files)
                            ));
                        }
                        files.insert(seq, Vec::new());
                        active = Some(seq);
                        if truncated_then_restarted_then_appended == 2 {
                            truncated_then_restarted_then_appended = 3;
                        }
                    }
                    let f = files.get_mut(&seq).unwrap();
                    let start = f.last().map(|e| e.end).unwrap_or(WAL_HEADER_SIZE);
                    f.push(RefEntry {
                        data,
                        stamp,
                        end: start + WAL_ENTRY_OVERHEAD + (len as usize).max(4),
                    });
                }
                history.push(format!("append{:?}", es.iter().map(|e| e.1).collect::<Vec<_>>()));
            }
            Step::Sync => {
                kinds.insert("sync");
                rot.sync().map_err(|e| format!("step {}: sync failed: {}", si, e))?;
                history.push("sync".into());
            }
            Step::Truncate(sel) => {
                kinds.insert("truncate");
                let mut cands: BTreeSet<u64> = BTreeSet::new();
                for &x in &seen {
                    cands.insert(x);
                    cands.insert(x.saturating_sub(1));
                    cands.insert(x.saturating_add(1));
                }
                let t = *cands.iter().nth(((*sel as usize) * cands.len()) >> 16).unwrap();
                history.push(format!("truncate_before({})", t));
                let before: BTreeSet<String> = store.names().into_iter().collect();
                let deleted = catch(|| rot.truncate_before(t))
                    .map_err(|p| format!("step {}: truncate_before({}) panicked: {}", si, t, p))?
                    .map_err(|e| format!("step {}: truncate_before({}) failed: {}", si, t, e))?;
                let after: BTreeSet<String> = store.names().into_iter().collect();
                if before.len() - after.len() != deleted || !after.is_subset(&before) {
                    return Err(format!("step {}: truncate_before({}) reported {} deleted files; files before {:?}, after {:?}", si, t, deleted, before, after));
                }
                if let Some(a) = active {
                    if !after.contains(&file_name(a)) {
                        return Err(format!("step {}: truncate_before({}) removed the active file {}\n  history: {}", si, t, file_name(a), history.join(" | ")));
                    }
                }
                let gone: Vec<u64> = files.keys().copied().filter(|s| !after.contains(&file_name(*s))).collect();
                for s in gone {
                    if let Some(e) = files[&s].iter().find(|e| e.stamp > t) {
                        return Err(format!(
                            "step {}: truncate_before({}) deleted {} although it holds an entry with stamp {} > {}\n  history: {}",
                            si,
                            t,
                            file_name(s),
                            e.stamp,
                            t,
                            history.join(" | ")
                        ));
                    }
                    files.remove(&s);
                    if truncated_then_restarted_then_appended == 0 {
                        truncated_then_restarted_then_appended = 1;
                    }
                }
            }
            Step::Restart | Step::Crash | Step::CrashTorn(_) => {
                if matches!(step, Step::Crash | Step::CrashTorn(_)) {
                    kinds.insert("crash");
                    for (s, es) in files.iter_mut() {
                        let keep = store.synced_len(&file_name(*s));
                        es.retain(|e| e.end <= keep);
                    }
                    drop(std::mem::replace(&mut rot, WalRotator::new(ImgStore::new(), mfs).map_err(|e| e.to_string())?));
                    store.simulate_crash();
                    history.push("crash+restart".into());
                    if let Step::CrashTorn(mode) = step {
                        if let Some(name) = store.names().into_iter().max_by_key(|n| {
                            n.strip_prefix("wal-").and_then(|x| x.strip_suffix(".wal")).and_then(|x| u64::from_str_radix(x, 16).ok()).unwrap_or(0)
                        }) {
                            if store.get(&name).map(|b| b.is_empty()).unwrap_or(false) {
                                let seq = name.strip_prefix("wal-").and_then(|x| x.strip_suffix(".wal")).and_then(|x| u64::from_str_radix(x, 16).ok()).unwrap_or(0);
                                let mut header = b"RWAL\x01\0\0\0".to_vec();
                                header.extend_from_slice(&seq.to_le_bytes());
                                let bytes = match *mode {
                                    0 => Vec::new(),
                                    k @ 1..=15 => header[..k as usize].to_vec(),
                                    16 => vec![0xab; 16],
                                    17 => {
                                        header[4] = 9;
                                        header
                                    }
                                    _ => vec![0xff; 40],
                                };
                                store.set(&name, bytes);
                                kinds.insert("crash_newest_headerless");
                                history.push(format!("newest file {} left headerless (mode {})", name, mode));
                            }
                        }
                    }
                } else {
                    kinds.insert("restart");
                    history.push("restart".into());
                }
                rot = WalRotator::new(store.clone(), mfs).map_err(|e| format!("step {}: WalRotator::new failed: {}", si, e))?;
                active = None;
                if truncated_then_restarted_then_appended == 1 {
                    truncated_then_restarted_then_appended = 2;
                }
            }
        }
        // after every step: a fresh reader must see exactly the reference, file by file
        evals += 1;
        let got = recover(&store).map_err(|e| format!("after step {} ({}): {}", si, history.last().cloned().unwrap_or_default(), e))?;
        let want: Vec<(&Vec<u8>, u64)> = files.values().flat_map(|es| es.iter().map(|e| (&e.data, e.stamp))).collect();
        if got.len() != want.len() || got.iter().zip(want.iter()).any(|(g, w)| &g.0 != w.0 || g.1 != w.1) {
            return Err(format!(
                "after step {}: recovery returns stamps {:?} but the log holds {}\n  history: {}\n  files in the store: {:?}",
                si,
                got.iter().map(|g| g.1).collect::<Vec<_>>(),
                show_ref(&files),
                history.join(" | "),
                store.names()
            ));
        }
        let rep = store.replaced();
        if !rep.is_empty() {
            return Err(format!("after step {}: file name(s) {:?} were created again while the file existed\n  history: {}", si, rep, history.join(" | ")));
        }
    }
    for k in &kinds {
        ctx.label(&format!("step:{}", k));
    }
    if truncated_then_restarted_then_appended == 3 {
        ctx.label("files_deleted->restart->new_file");
    }
    if kinds.len() >= 3 && files.len() + 1 >= 2 {
        ctx.nontrivial(&(c.max_file_size, history));
    }
    ctx.add_evaluations(evals);
    Ok(())
}

// ---------------------------------------------------------------------------------------
// truncation requested through the WAL actor (WalActorHandle::truncate / TruncateUpTo)
// ---------------------------------------------------------------------------------------

#[derive(Clone, Debug, Serialize, Deserialize)]
struct ActorCase {
    /// (value length, stamp) of the acknowledged writes, in submission order
    writes: Vec<(u16, u64)>,
    max_file_size: u32,
    /// 0 = Always, 1 = EverySecond, 2 = No
    policy: u8,
}

fn actor_case() -> impl Strategy<Value = ActorCase> {
    (
        proptest::collection::vec((0u16..40, prop_oneof![6 => 0u64..10, 2 => 0u64..1000, 1 => Just(u64::MAX), 1 => any::<u64>()]), 1..=10),
        prop_oneof![2 => Just(17u32), 4 => 80u32..300, 2 => 300u32..900, 1 => Just(1u32 << 24)],
        0u8..3,
    )
        .prop_map(|(writes, max_file_size, policy)| ActorCase {
            writes,
            max_file_size,
            policy,
        })
}

fn actor_delta(i: usize, len: usize, stamp: u64) -> (Arc<ReplicationDelta>, Vec<u8>) {
    let rid = ReplicaId::new(1 + (i as u64 % 3));
    let rv = ReplicatedValue::with_value(
        SDS::new(vec![b'a' + (i % 26) as u8; len]),
        LamportClock {
            time: stamp,
            replica_id: rid,
        },
    );
    let d = ReplicationDelta::new(format!("a{}", i), rv, rid);
    let b = bincode::serialize(&d).expect("bincode of a delta");
    (Arc::new(d), b)
}

fn check_actor_truncate(c: &ActorCase, ctx: &mut CaseCtx<'_>) -> Result<(), String> {
    let policy = match c.policy {
        0 => FsyncPolicy::Always,
        1 => FsyncPolicy::EverySecond,
        _ => FsyncPolicy::No,
    };
    ctx.label(&format!("policy={:?}", policy));
    let deltas: Vec<(Arc<ReplicationDelta>, Vec<u8>, u64)> = c
        .writes
        .iter()
        .enumerate()
        .map(|(i, &(len, stamp))| {
            let (d, b) = actor_delta(i, len as usize, stamp);
            (d, b, stamp)
        })
        .collect();
    let (barrier, barrier_bytes) = actor_delta(1000, 3, 0);
    let (restart_w, restart_bytes) = actor_delta(1001, 5, 1);
    let mut ts: BTreeSet<u64> = BTreeSet::new();
    ts.insert(0);
    for &(_, s) in &c.writes {
        ts.insert(s);
        ts.insert(s.saturating_sub(1));
        ts.insert(s.saturating_add(1));
    }
    let mut evals = 0u64;
    let mut deleted_any = false;
    let mut multi_file = false;
    for &t in &ts {
        evals += 1;
        let store = ImgStore::new();
        let cfg = WalConfig {
            enabled: true,
            wal_dir: std::path::PathBuf::from("/nonexistent-c10"),
            fsync_policy: policy,
            max_file_size: (c.max_file_size as usize).max(17),
            // one entry per commit: no group-commit timer is ever armed
            group_commit_max_entries: 1,
            group_commit_max_wait: std::time::Duration::ZERO,
            truncation_check_interval: std::time::Duration::from_secs(3600),
        };
        let st = store.clone();
        let deltas2 = deltas.clone();
        let barrier2 = barrier.clone();
        let restart2 = restart_w.clone();
        let cfg2 = cfg.clone();
        // returns the files present right before the truncation request (the last one written
        // to is the actor's active file)
        let before: BTreeMap<String, Vec<u8>> = catch(move || {
            vcore::block_on(async move {
                let (h, task) = spawn_wal_actor(st.clone(), cfg).map_err(|e| format!("spawn_wal_actor: {}", e))?;
                for (i, (d, _, stamp)) in deltas2.iter().enumerate() {
                    h.write_durable(d.clone(), *stamp)
                        .await
                        .map_err(|e| format!("write_durable #{} failed on a fault-free store: {}", i, e))?;
                }
                let before: BTreeMap<String, Vec<u8>> = st.names().into_iter().map(|n| (n.clone(), st.get(&n).unwrap_or_default())).collect();
                h.truncate(t);
                // a later message on the same FIFO channel: once it is acknowledged the
                // truncation request has been handled
                h.write_durable(barrier2, 0).await.map_err(|e| format!("barrier write failed: {}", e))?;
                h.shutdown().await;
                drop(h);
                task.await.map_err(|e| format!("the WAL actor ended abnormally: {}", e))?;
                // restart: a new actor over the same store, one more acknowledged write
                let (h, task) = spawn_wal_actor(st.clone(), cfg2).map_err(|e| format!("spawn_wal_actor (restart): {}", e))?;
                h.write_durable(restart2, 1).await.map_err(|e| format!("write after the restart failed: {}", e))?;
                h.shutdown().await;
                drop(h);
                task.await.map_err(|e| format!("the WAL actor ended abnormally after the restart: {}", e))?;
                Ok::<_, String>(before)
            })
        })
        .map_err(|p| format!("truncate({}) through the actor panicked: {}", t, p))
        .and_then(|r| r)?;
        let what = format!(
            "{:?}: writes with stamps {:?} acknowledged, then WalActorHandle::truncate({})",
            policy,
            c.writes.iter().map(|w| w.1).collect::<Vec<_>>(),
            t
        );
        if before.len() >= 2 {
            multi_file = true;
        }
        // which file held which write before the truncation (reference framer)
        let mut layout: Vec<(String, Vec<u64>)> = Vec::new();
        let mut active: Option<String> = None;
        for (name, bytes) in &before {
            let es = ref_decode(bytes, WAL_HEADER_SIZE.min(bytes.len()));
            if es.iter().any(|e| e.0 == deltas.last().map(|d| d.1.clone()).unwrap_or_default()) {
                active = Some(name.clone());
            }
            layout.push((name.clone(), es.iter().map(|e| e.1).collect()));
        }
        let left: BTreeSet<String> = store.names().into_iter().collect();
        if before.keys().any(|n| !left.contains(n)) {
            deleted_any = true;
        }
        if let Some(a) = &active {
            if !left.contains(a) {
                return Err(format!("{}: the active file {} was removed; files before: {:?}", what, a, layout));
            }
        }
        let got = recover(&store).map_err(|e| format!("{}: {}", what, e))?;
        for (i, (_, bytes, stamp)) in deltas.iter().enumerate() {
            let present = got.iter().any(|g| &g.0 == bytes && g.1 == *stamp);
            if *stamp > t && !present {
                return Err(format!(
                    "{}: write #{} with stamp {} > {} is no longer recovered; files before the truncation: {:?}; files left: {:?}",
                    what, i, stamp, t, layout, left
                ));
            }
        }
        if !got.iter().any(|g| g.0 == barrier_bytes) {
            return Err(format!("{}: the write acknowledged after the truncation is not recovered", what));
        }
        if !got.iter().any(|g| g.0 == restart_bytes) {
            return Err(format!("{}: the write acknowledged after the restart is not recovered", what));
        }
        let rep = store.replaced();
        if !rep.is_empty() {
            return Err(format!(
                "{}: after the restart the actor created {:?} although that file existed; files before the truncation: {:?}; files left by it: {:?}",
                what, rep, layout, left
            ));
        }
        for g in &got {
            if g.0 != barrier_bytes && g.0 != restart_bytes && !deltas.iter().any(|d| d.1 == g.0 && d.2 == g.1) {
                return Err(format!("{}: recovery returns an entry that was never written (len={} stamp={})", what, g.0.len(), g.1));
            }
        }
    }
    if deleted_any {
        ctx.label("some_file_deleted");
    }
    if multi_file && c.writes.len() >= 3 {
        ctx.nontrivial(&(c.writes.clone(), c.max_file_size, c.policy));
    }
    ctx.add_evaluations(evals);
    Ok(())
}

// ---------------------------------------------------------------------------------------

// ---------------------------------------------------------------------------------------
// long logs: entry / file counts around 2^8, 2^10, 2^12, 2^16 (a counter or cap on one side only)
// ---------------------------------------------------------------------------------------

#[derive(Clone, Debug, Serialize, Deserialize)]
struct LongCase {
    n: u32,
    /// true: rotation threshold 17, i.e. one file per entry (n files); false: one file
    per_file: bool,
}

fn check_long(c: &LongCase, ctx: &mut CaseCtx<'_>) -> Result<(), String> {
    let store = ImgStore::new();
    let mfs = if c.per_file { 17 } else { 1usize << 30 };
    let mut rot = WalRotator::new(store.clone(), mfs).map_err(|e| e.to_string())?;
    let mut all: Vec<E> = Vec::with_capacity(c.n as usize);
    for i in 0..c.n {
        let data = i.to_le_bytes()[..1 + (i % 4) as usize].to_vec();
        let e = WalEntry {
            checksum: crc32(&data),
            data: data.clone(),
            timestamp: i as u64,
        };
        rot.append(&e).map_err(|err| format!("append #{} of {} failed: {}", i, c.n, err))?;
        all.push((data, i as u64));
    }
    let files = store.names().len();
    if c.per_file && files != c.n as usize {
        return Err(format!("{} entries with a rotation after each: {} files exist", c.n, files));
    }
    let first_diff = |got: &[E], want: &[E]| -> String {
        let k = got.iter().zip(want.iter()).position(|(a, b)| a != b).unwrap_or(got.len().min(want.len()));
        format!("{} recovered, {} expected, first difference at index {}", got.len(), want.len(), k)
    };
    let got = recover(&store)?;
    if got != all {
        return Err(format!("{} entries appended to {} file(s): {}", c.n, files, first_diff(&got, &all)));
    }
    // truncation in the middle, on a fresh rotator and on the writing one
    let t = (c.n / 2) as u64;
    for active in [false, true] {
        let st = store.deep_copy();
        let deleted = if active {
            // the writing rotator works on `store` itself: do this variant last
            rot.truncate_before(t).map_err(|e| e.to_string())?
        } else {
            WalRotator::new(st.clone(), mfs).and_then(|mut r| r.truncate_before(t)).map_err(|e| e.to_string())?
        };
        let got = recover(if active { &store } else { &st })?;
        let want: Vec<E> = if c.per_file {
            all.iter().filter(|e| e.1 > t).cloned().collect()
        } else {
            all.clone()
        };
        if c.per_file && deleted != (t as usize + 1).min(c.n as usize) {
            return Err(format!("truncate_before({}) over {} one-entry files deleted {} files", t, c.n, deleted));
        }
        if got != want {
            return Err(format!(
                "truncate_before({}) ({} active writer) over {} entries in {} file(s): {}",
                t,
                if active { "with" } else { "without" },
                c.n,
                files,
                first_diff(&got, &want)
            ));
        }
    }
    ctx.nontrivial(&(c.n, c.per_file));
    ctx.add_evaluations(3);
    Ok(())
}

// ---------------------------------------------------------------------------------------
// rejected appends: an entry whose append FAILED without writing a byte is never recovered
// ---------------------------------------------------------------------------------------

#[derive(Clone, Debug, Hash, Serialize, Deserialize)]
struct RejectCase {
    /// (log selector: two logs over two stores are written alternately from ONE thread, payload, stamp)
    writes: Vec<(bool, Vec<u8>, u64)>,
    /// append-call indices (per store, file-header appends included) that the store rejects
    reject_a: Vec<u8>,
    reject_b: Vec<u8>,
    max_file_size: u32,
}

fn reject_case() -> impl Strategy<Value = RejectCase> {
    (
        proptest::collection::vec(
            (prop::bool::weighted(0.7), proptest::collection::vec(any::<u8>(), 1..=60), stamp()),
            2..=12,
        ),
        proptest::collection::vec(0u8..16, 0..=3),
        proptest::collection::vec(0u8..16, 0..=2),
        prop_oneof![Just(17u32), 60u32..400, Just(1_000_000u32)],
    )
        .prop_map(|(writes, reject_a, reject_b, max_file_size)| RejectCase { writes, reject_a, reject_b, max_file_size })
}

/// The store either takes all bytes of an append or rejects the call and takes none, and nothing
/// crashes: so what a fresh rotator recovers from each log must be EXACTLY the entries whose
/// `WalRotator::append` returned Ok on that log, in append order - no acknowledged entry hidden
/// behind a rejected one, and no rejected entry surfacing later (in its own log or, through state
/// shared between writers of one thread, in the other).
fn check_rejected(c: &RejectCase, ctx: &mut CaseCtx<'_>) -> Result<(), String> {
    let stores = [ImgStore::new(), ImgStore::new()];
    stores[0].set_rejected_appends(c.reject_a.iter().map(|&i| i as usize));
    stores[1].set_rejected_appends(c.reject_b.iter().map(|&i| i as usize));
    let mut rots = Vec::new();
    for st in &stores {
        rots.push(WalRotator::new(st.clone(), c.max_file_size as usize).map_err(|e| format!("WalRotator::new: {}", e))?);
    }
    let mut accepted: [Vec<E>; 2] = [Vec::new(), Vec::new()];
    let mut rejected: Vec<(usize, E)> = Vec::new();
    let mut trace = Vec::new();
    for (to_a, data, stamp) in &c.writes {
        let log = if *to_a { 0 } else { 1 };
        let entry = WalEntry { data: data.clone(), timestamp: *stamp, checksum: crc32(data) };
        match rots[log].append(&entry) {
            Ok(_) => {
                accepted[log].push((data.clone(), *stamp));
                trace.push(format!("log {} append (len={} stamp={}) Ok", log, data.len(), stamp));
            }
            Err(e) => {
                rejected.push((log, (data.clone(), *stamp)));
                trace.push(format!("log {} append (len={} stamp={}) Err({})", log, data.len(), stamp, e));
            }
        }
    }
    for r in rots.iter_mut() {
        let _ = r.sync();
    }
    drop(rots);
    for log in 0..2 {
        // the faults are over: recovery reads through a store that rejects nothing
        stores[log].set_rejected_appends(std::iter::empty());
        let got = recover(&stores[log]).map_err(|e| format!("log {}: {}", log, e))?;
        if got != accepted[log] {
            let phantom = got.iter().find(|e| !accepted[log].contains(e));
            return Err(format!(
                "log {}: recovery returns {} but the entries whose append returned Ok are {}{}\n  writes:\n    {}",
                log,
                show_list(&got),
                show_list(&accepted[log]),
                match phantom {
                    Some(e) if rejected.iter().any(|(_, r)| r == e) => format!(
                        " - {} is an entry whose append was REJECTED (on log {}) without a byte written",
                        show_entry(e),
                        rejected.iter().find(|(_, r)| r == e).map(|(l, _)| *l).unwrap_or(9)
                    ),
                    Some(e) => format!(" - {} was never appended", show_entry(e)),
                    None => " - an acknowledged entry is missing".to_string(),
                },
                trace.join("\n    ")
            ));
        }
    }
    if !rejected.is_empty() {
        ctx.label("append_rejected");
        if accepted.iter().any(|a| !a.is_empty()) {
            ctx.nontrivial(c);
        }
        let last_reject = trace.iter().rposition(|t| t.contains("Err("));
        if last_reject.map(|i| i + 1 < trace.len()).unwrap_or(false) {
            ctx.label("accepted_append_after_a_rejected_one");
        }
    }
    Ok(())
}

fn probe_case() -> ImageCase {
    ImageCase {
        entries: vec![
            EntrySpec {
                data: b"first".to_vec(),
                stamp: 5,
                restart_before: false,
                kind: "raw".into(),
                big_len: 0,
            },
            EntrySpec {
                data: b"second".to_vec(),
                stamp: 6,
                restart_before: false,
                kind: "raw".into(),
                big_len: 0,
            },
        ],
        max_file_size: 1_000_000,
        overwrites: vec![],
        bit_samples: vec![],
        start_seq: 0,
        crafted: vec![],
    }
}

fn main() {
    let args = vcore::parse_args();
    let s = Session::new(
        "C10",
        Level::FaultEnumeration,
        "an image = 0..12 entries (payload 1..300 bytes: random, filled, real bincode ReplicationDelta, payloads that are themselves \
         well-formed encoded entries or file headers; stamps non-monotone incl. 0 and u64::MAX) appended through WalRotator with a \
         generated rotation threshold (17 bytes .. never) and generated restarts. Per image ENUMERATED: every truncation length of every \
         file, every bit of every file/entry header + first/last/sampled payload bits (thorough: every bit), zero fills from every entry \
         start, appended tails, every subset of an entry header's fields (length / stamp / crc) read back as zeros or ones with the payload kept / cut off / zero, \
         zero regions with one bit set, generated entry headers (degenerate field values) placed at entry boundaries, generated multi-byte overwrites, every file deletion, every file swap; and truncate_before(T) for every \
         distinct stamp T, 0 and max+1, with and without an active writer. non-trivial = image has >= 2 files and >= 3 entries (every \
         such image gets mutations strictly inside entries); distinct by the image bytes",
        &args,
    );
    s.assume("crash/corruption model: a mutation changes the bytes of one file (or removes/swaps whole files); the store itself reads back exactly the bytes it holds");
    s.assume("entry payloads are non-empty (bincode of a ReplicationDelta is never empty; WalEntry::from_delta states it as a postcondition)");
    s.assume("corruption is not a forgery: a mutation after which the first damaged frame is self-consistent (stored CRC-32 = CRC-32 of the stored data, e.g. payload ff ff ff ff with crc ffffffff) is indistinguishable from an appended entry for any checksum; such mutations are skipped and counted as abstained. All-zero blocks are NOT skipped (KF-C10-02), and neither is any other frame whose length field is 0 (len 0 | any stamp | crc 0 = crc32 of nothing is self-consistent, but WalEntry::decode documents that an entry never has an empty payload and rejects it): such a frame must end recovery of the file");

    s.probe(
        KF_STAMP,
        json!({"entries": [["first", 5], ["second", 6]], "mutation": "flip bit 0 of byte 20 (stamp field of entry 0)"}),
        || {
            let case = probe_case();
            let img = build(&case).ok()?;
            let f = &img.files[0];
            let mut w = f.bytes.clone();
            w[WAL_HEADER_SIZE + 4] ^= 1;
            img.store.set(&f.name, w);
            let got = recover(&img.store).ok()?;
            if got.iter().any(|e| e.1 != 5 && e.1 != 6) {
                Some(format!(
                    "stamps written [5, 6]; after a bit flip in the stamp field of entry 0 recovery returns {}",
                    show_list(&got)
                ))
            } else {
                None
            }
        },
    );
    s.probe(
        KF_ZERO,
        json!({"entries": [["first", 5], ["second", 6]], "mutation": "32 zero bytes appended to the file"}),
        || {
            let case = probe_case();
            let img = build(&case).ok()?;
            let f = &img.files[0];
            let mut w = f.bytes.clone();
            w.extend_from_slice(&[0u8; 32]);
            img.store.set(&f.name, w);
            let got = recover(&img.store).ok()?;
            if got.len() != 2 {
                Some(format!(
                    "2 entries appended; with a 32-byte all-zero tail recovery returns {} entries: {}",
                    got.len(),
                    show_list(&got)
                ))
            } else {
                None
            }
        },
    );

    s.describe_check(
        "images",
        "per generated image every truncation length, header bit, sampled (thorough: every) payload bit, zero fill, tail, header-field subset zeroed/all-ones (payload kept / cut / zero), zero region with one bit set, generated header at an entry boundary, overwrite, deletion and swap; recovered list compared with the exact intact prefix",
    );
    s.run_cases("images", s.scale(8_000, 60_000), || image_case_with(25), check_image);

    s.describe_check(
        "truncate",
        "truncate_before(T) for every distinct stamp, 0 and max+1, on the writing rotator and on a fresh one: active file kept, no file with a stamp > T deleted, surviving files recover completely, log still appendable",
    );
    s.run_cases("truncate", s.scale(20_000, 400_000), || image_case_with(8), check_truncate);

    s.describe_check(
        "entries_after",
        "images whose payloads are all real deltas: recover_entries_after(T) = deltas of entries with stamp >= T in append order, for every distinct T, 0 and u64::MAX; with one file unreadable or DAMAGED (cut inside an entry, torn header with zero length+crc, zero region with one stamp bit, payload bit) recover_entries_after(0) and RecoveryManager::recover_with_wal still succeed and return the other files completely plus the intact prefix of the damaged file",
    );
    s.run_cases(
        "entries_after",
        s.scale(10_000, 200_000),
        || {
            (
                proptest::collection::vec((delta_payload(), stamp(), prop::bool::weighted(0.15)), 0..=12),
                prop_oneof![Just(17u32), 17u32..600, Just(1_000_000u32)],
                // 1 in 400: a large real delta (serialized size aimed at 64 KiB / 1 MiB / 2 MiB / 4 MiB+1
                // and neighbours) somewhere in the sequence, no rotation behind it half of the time
                prop_oneof![
                    399 => Just(None),
                    1 => (big_size(), any::<u8>(), stamp(), any::<u16>(), prop::bool::ANY).prop_map(Some),
                ],
            )
                .prop_map(|(v, max_file_size, bigd)| {
                    let mut entries: Vec<EntrySpec> = v
                        .into_iter()
                        .map(|(data, stamp, restart_before)| EntrySpec {
                            data,
                            stamp,
                            restart_before,
                            kind: "delta".into(),
                            big_len: 0,
                        })
                        .collect();
                    let mut max_file_size = max_file_size;
                    if let Some((len, seed, stamp, pos, never_rotate)) = bigd {
                        entries.truncate(5);
                        let at = ((pos as usize) * (entries.len() + 1)) >> 16;
                        entries.insert(
                            at,
                            EntrySpec {
                                data: vec![seed],
                                stamp,
                                restart_before: false,
                                kind: "big_delta".into(),
                                big_len: len,
                            },
                        );
                        if never_rotate {
                            max_file_size = 1 << 30;
                        }
                    }
                    ImageCase {
                        entries,
                        max_file_size,
                        overwrites: vec![],
                        bit_samples: vec![],
                        start_seq: 0,
                        crafted: vec![],
                    }
                })
        },
        check_entries_after,
    );

    s.describe_check(
        "lifecycle",
        "3..10 generated steps over {append 1..5 entries, sync, truncate_before(T), restart, crash (drop unsynced bytes) + restart} on one store, with a harness-side reference of (file, stamp, bytes): after every step a fresh rotator recovers exactly the reference in file order; truncation deletes no file holding a stamp > T nor the active file; no existing file name is ever created again",
    );
    s.run_cases("lifecycle", s.scale(10_000, 400_000), life_case, check_life);

    s.describe_check(
        "rejected_appends",
        "2..12 appends written alternately to two logs (two stores, two rotators) from one thread, 0..3 append calls per store rejected with an I/O error and nothing written (entry or file-header appends), rotation threshold tiny / small / never: a fresh rotator recovers from each log exactly the entries whose append returned Ok, in order - nothing acknowledged is hidden, nothing rejected surfaces later in either log",
    );
    s.run_cases("rejected_appends", s.scale(20_000, 1_000_000), reject_case, check_rejected);

    s.describe_check(
        "actor_truncate",
        "1..10 acknowledged write_durable calls (stamps non-monotone across files) through spawn_wal_actor under Always / EverySecond / No, then WalActorHandle::truncate(T) for every T in stamps, stamps-1, stamps+1, 0, ordered by a barrier write; a fresh rotator must recover every write stamped > T and the barrier, the active file must still exist",
    );
    s.run_cases("actor_truncate", s.scale(1_000, 40_000), actor_case, check_actor_truncate);

    s.describe_check(
        "long_log",
        "n entries for n around 2^8, 2^10, 2^12, 2^16 in one file and in n files: complete recovery in order; truncate_before(n/2) keeps every newer entry",
    );
    let mut long_cases = Vec::new();
    for base in [256u32, 1024, 4096, 65_536] {
        for n in [base - 1, base, base + 1] {
            long_cases.push(LongCase { n, per_file: false });
            if base <= 4096 || s.thorough() || n == base + 1 {
                long_cases.push(LongCase { n, per_file: true });
            }
        }
    }
    s.run_enumerated("long_log", long_cases.into_iter(), check_long);

    s.finish();
}
