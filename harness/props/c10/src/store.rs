//! Harness-owned `WalStore` for C10: plain in-memory files whose bytes the check reads and
//! rewrites directly (truncate, flip, overwrite, swap, delete). No faults, no randomness;
//! `list()` is sorted (BTreeMap), as the trait demands.

use redis_sim::streaming::wal_store::{WalError, WalFileReader, WalFileWriter, WalStore};
use std::collections::BTreeMap;
use std::sync::{Arc, Mutex};

type Files = Arc<Mutex<BTreeMap<String, Vec<u8>>>>;

/// A read-side I/O fault pinned to one file (the bytes of the file are untouched).
#[derive(Clone, Copy, Debug, PartialEq, Eq)]
pub enum ReadFault {
    /// open_read fails with an I/O error (EIO / EACCES)
    OpenIo,
    /// open_read reports NotFound although the file is listed (deleted in between)
    OpenNotFound,
    /// the file opens, read_all fails with an I/O error
    ReadIo,
    /// the file opens, read_all returns only the first k bytes (short read)
    ReadShort(usize),
}

#[derive(Clone, Default)]
pub struct ImgStore {
    files: Files,
    read_faults: Arc<Mutex<BTreeMap<String, ReadFault>>>,
    /// per file: length covered by the last fsync (absent = never synced)
    synced: Arc<Mutex<BTreeMap<String, usize>>>,
    /// names for which `create` replaced an existing file (like File::create does)
    replaced: Arc<Mutex<Vec<String>>>,
    /// write-side rejections: (appends seen so far on this store, indices of the append calls that
    /// fail with an I/O error WITHOUT writing a byte)
    rejects: Arc<Mutex<(usize, std::collections::BTreeSet<usize>)>>,
}

impl ImgStore {
    pub fn new() -> Self {
        Self::default()
    }
    pub fn get(&self, name: &str) -> Option<Vec<u8>> {
        self.files.lock().unwrap().get(name).cloned()
    }
    pub fn set(&self, name: &str, bytes: Vec<u8>) {
        self.files.lock().unwrap().insert(name.to_string(), bytes);
    }
    pub fn remove(&self, name: &str) {
        self.files.lock().unwrap().remove(name);
    }
    pub fn names(&self) -> Vec<String> {
        self.files.lock().unwrap().keys().cloned().collect()
    }
    /// An independent copy (own file map, no faults).
    pub fn deep_copy(&self) -> ImgStore {
        ImgStore {
            files: Arc::new(Mutex::new(self.files.lock().unwrap().clone())),
            read_faults: Default::default(),
            synced: Arc::new(Mutex::new(self.synced.lock().unwrap().clone())),
            replaced: Default::default(),
            rejects: Default::default(),
        }
    }
    /// The append calls (0-based, counted over all writers of this store, file headers included)
    /// that are rejected with an I/O error and leave the file untouched.
    pub fn set_rejected_appends(&self, idx: impl IntoIterator<Item = usize>) {
        let mut g = self.rejects.lock().unwrap();
        g.0 = 0;
        g.1 = idx.into_iter().collect();
    }
    pub fn appends_seen(&self) -> usize {
        self.rejects.lock().unwrap().0
    }
    /// A crash: every byte not covered by an fsync of its file is gone (files stay, possibly empty).
    pub fn simulate_crash(&self) {
        let synced = self.synced.lock().unwrap();
        for (name, data) in self.files.lock().unwrap().iter_mut() {
            let keep = synced.get(name).copied().unwrap_or(0).min(data.len());
            data.truncate(keep);
        }
    }
    pub fn synced_len(&self, name: &str) -> usize {
        self.synced.lock().unwrap().get(name).copied().unwrap_or(0)
    }
    pub fn replaced(&self) -> Vec<String> {
        self.replaced.lock().unwrap().clone()
    }
    pub fn set_read_fault(&self, name: &str, f: Option<ReadFault>) {
        let mut g = self.read_faults.lock().unwrap();
        match f {
            Some(f) => {
                g.insert(name.to_string(), f);
            }
            None => {
                g.remove(name);
            }
        }
    }
}

pub struct ImgWriter {
    name: String,
    files: Files,
    synced: Arc<Mutex<BTreeMap<String, usize>>>,
    rejects: Arc<Mutex<(usize, std::collections::BTreeSet<usize>)>>,
    size: u64,
}

impl WalFileWriter for ImgWriter {
    fn append(&mut self, data: &[u8]) -> Result<u64, WalError> {
        {
            let mut r = self.rejects.lock().unwrap();
            let i = r.0;
            r.0 += 1;
            if r.1.contains(&i) {
                return Err(WalError::Io(std::io::Error::new(
                    std::io::ErrorKind::Other,
                    "injected write rejection (nothing written)",
                )));
            }
        }
        let mut g = self.files.lock().unwrap();
        let f = g.entry(self.name.clone()).or_default();
        f.extend_from_slice(data);
        self.size = f.len() as u64;
        Ok(self.size)
    }
    fn sync(&mut self) -> Result<(), WalError> {
        let len = self.files.lock().unwrap().get(&self.name).map(|d| d.len()).unwrap_or(0);
        self.synced.lock().unwrap().insert(self.name.clone(), len);
        Ok(())
    }
    fn size(&self) -> u64 {
        self.size
    }
}

pub struct ImgReader {
    data: Vec<u8>,
    fault: Option<ReadFault>,
}

impl WalFileReader for ImgReader {
    fn read_all(&mut self) -> Result<Vec<u8>, WalError> {
        match self.fault {
            Some(ReadFault::ReadIo) => Err(WalError::Io(std::io::Error::new(
                std::io::ErrorKind::Other,
                "injected read failure (EIO)",
            ))),
            Some(ReadFault::ReadShort(k)) => Ok(self.data[..k.min(self.data.len())].to_vec()),
            _ => Ok(self.data.clone()),
        }
    }
}

impl WalStore for ImgStore {
    type Writer = ImgWriter;
    type Reader = ImgReader;

    fn create(&self, name: &str) -> Result<ImgWriter, WalError> {
        // replacing an EMPTY file loses nothing; replacing one that holds bytes is recorded
        if let Some(old) = self.files.lock().unwrap().insert(name.to_string(), Vec::new()) {
            if !old.is_empty() {
                self.replaced.lock().unwrap().push(name.to_string());
            }
        }
        self.synced.lock().unwrap().remove(name);
        Ok(ImgWriter {
            name: name.to_string(),
            files: Arc::clone(&self.files),
            synced: Arc::clone(&self.synced),
            rejects: Arc::clone(&self.rejects),
            size: 0,
        })
    }
    fn open_read(&self, name: &str) -> Result<ImgReader, WalError> {
        let fault = self.read_faults.lock().unwrap().get(name).copied();
        match fault {
            Some(ReadFault::OpenIo) => {
                return Err(WalError::Io(std::io::Error::new(
                    std::io::ErrorKind::PermissionDenied,
                    "injected open failure (EACCES)",
                )))
            }
            Some(ReadFault::OpenNotFound) => return Err(WalError::NotFound(name.to_string())),
            _ => {}
        }
        match self.files.lock().unwrap().get(name) {
            Some(d) => Ok(ImgReader { data: d.clone(), fault }),
            None => Err(WalError::NotFound(name.to_string())),
        }
    }
    fn list(&self) -> Result<Vec<String>, WalError> {
        Ok(self.names())
    }
    fn delete(&self, name: &str) -> Result<(), WalError> {
        self.remove(name);
        self.synced.lock().unwrap().remove(name);
        Ok(())
    }
    fn exists(&self, name: &str) -> Result<bool, WalError> {
        Ok(self.files.lock().unwrap().contains_key(name))
    }
}
