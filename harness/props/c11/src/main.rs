//! C11 — recovery returns exactly the merge of everything persisted, idempotently.
//!
//! One case = a ground-truth list of updates (emitted by 1–3 replicas x 16 shard clocks through
//! the real ShardReplicaState API, with gossip between replicas and remote far-ahead stamps) and
//! TWO independent arrangements of it into checkpoint / segments / WAL files. For each
//! arrangement (DESIGN.md §3 C11):
//!   * fold(recover()) and fold(recover_with_progress()) = merge of everything in the
//!     checkpoint and the listed segments; fold(recover_with_wal()) = merge of everything;
//!   * recovering twice returns the same RecoveredState;
//!   * applying the recovered state to a fresh node once or twice gives the GET / HGETALL
//!     answers of the fold's client view;
//! and the two arrangements (a permutation / duplication of one another) agree.
//! Oracle 6 (every arrangement) and the checks `boundary` / `lifecycle` go through the entry point
//! the server uses: StreamingIntegration::recover into a node + the binary's WAL replay.
//! Life-cycle steps: `Arrangement::truncate` (WAL truncation with a sound mark, then a crash) in
//! every tier; check `maintenance` (real compaction passes with tombstone collection on causal
//! layouts between persisting and recovering).
//! Tier `race`: a concurrent writer of the same store (real Compactor::compact, a flush, a
//! checkpoint install + manifest compaction) runs before every store call index of recovery; the
//! call returns Err (an undisturbed retry then holds everything) or a state holding everything
//! persisted before recovery started.

#[path = "../../c14/src/worldgen.rs"]
mod worldgen;

use futures::FutureExt;
use proptest::prelude::*;
use redis_sim::production::ReplicatedShardedState;
use redis_sim::redis::SDS;
use redis_sim::replication::{
    CrdtValue, LamportClock, ReplicaId, ReplicatedValue, ReplicationConfig, ReplicationDelta,
};
use redis_sim::streaming::{
    StreamingConfig, StreamingIntegration,
    CompactionConfig, Compactor, ListResult, ObjectMeta,
    CheckpointInfo, CheckpointWriter, Compression, InMemoryObjectStore, InMemoryWalStore, Manifest,
    ManifestManager, ObjectStore, RecoveredState, RecoveryManager, SegmentInfo, SegmentWriter,
    SimulatedClock, StreamingPersistence, WalEntry, WalRotator, WriteBufferConfig,
};
use serde::{Deserialize, Serialize};
use serde_json::{json, Value as J};
use std::collections::{BTreeMap, BTreeSet, HashMap};
use std::future::Future;
use std::pin::Pin;
use std::sync::{Arc, Mutex};
use vcore::proj::{client_view, peer_view};
use vcore::resp::Reply;
use vcore::time::VerifTime;
use vcore::{CaseCtx, Level, Session};
use worldgen::{GenCfg, WorldSpec};

const KF_WAL: &str = "KF-C11-01";
const KF_OUTER_STAMP: &str = "KF-C07-01";
const PREFIX: &str = "c11";

fn ready<F: std::future::Future>(f: F) -> F::Output {
    f.now_or_never()
        .expect("in-memory store future was not immediately ready")
}

// ---------------------------------------------------------------------------------------
// case
// ---------------------------------------------------------------------------------------

#[derive(Clone, Debug, Serialize, Deserialize, Hash)]
struct Ckpt {
    /// how many of the (non-empty) segments, lowest ids first, the checkpoint covers: 1 + scaled
    covers: u8,
    /// per update (cyclic): also folded into the checkpoint although not in a covered segment
    extra: Vec<bool>,
    /// the manifest was compacted (covered segments removed from it) or still lists them
    compacted: bool,
    /// compaction also deleted the covered segment objects
    delete_objects: bool,
    timestamp_ms: u64,
    /// the checkpoint object is produced by CheckpointManager::create_checkpoint (the production
    /// path: what it writes for a given state is its business) instead of CheckpointWriter::write
    #[serde(default)]
    via_manager: bool,
}

#[derive(Clone, Debug, Serialize, Deserialize, Hash)]
struct Arrangement {
    /// 0..=6 segments (empty ones are not written)
    n_segments: u8,
    /// per update (cyclic): low byte = primary container (scaled over segments + WAL),
    /// bit 8 = also in the WAL, bit 11 = also in the segment selected by bits 9-10 (scaled),
    /// bit 12 = written twice into its primary container
    place: Vec<u16>,
    checkpoint: Option<Ckpt>,
    /// segments written by StreamingPersistence::push/flush (ids 0..) or by SegmentWriter +
    /// Manifest::add_segment with gaps between ids
    via_persistence: bool,
    id_gaps: Vec<u8>,
    /// per update (cyclic): sort key for the order inside a container
    order: Vec<u16>,
    wal_file_size: u16,
    /// 0 = the placement words decide; 1 = the WAL only duplicates what segments hold (the
    /// placement's WAL-only updates go to a segment instead, if there is one); 2 = exactly the
    /// updates stamped at or above the `wal_q`/256 quantile are WAL-only (what a node with one
    /// global clock would leave unstreamed)
    wal_mode: u8,
    wal_q: u8,
    /// life-cycle step: the WAL is truncated (`WalRotator::truncate_before`) with a SOUND mark -
    /// every update stamped at or below it is in the checkpoint or in a listed segment - and
    /// the process crashes before anything else is flushed
    #[serde(default)]
    truncate: Option<Trunc>,
    /// causal layout: per key, the containers (segments in id order, the WAL last) receive the
    /// key's updates in stamp order and no update sits in two containers - what one node's own
    /// flush order produces. Only the `maintenance` check sets it.
    #[serde(default)]
    causal: bool,
}

#[derive(Clone, Debug, Serialize, Deserialize, Hash)]
struct Trunc {
    /// a first truncation request after (after/256) of the WAL appends (the running rotator:
    /// its current file is never deleted); another one after the last append
    after: u8,
    /// 255 = the greatest sound mark (one below the lowest stamp that is only in the WAL);
    /// otherwise scaled over the distinct stamps below it
    mark: u8,
    /// the last request is served by a fresh WalRotator over the same store (a restarted
    /// process: every file is closed) instead of the running one
    restarted: bool,
}

#[derive(Clone, Debug, Serialize, Deserialize, Hash)]
struct Layout {
    world: WorldSpec,
    a: Arrangement,
    b: Arrangement,
    node_replica: u8,
}

fn arrangement() -> impl Strategy<Value = Arrangement> {
    (
        prop_oneof![1 => Just(0u8), 2 => Just(1u8), 8 => 2u8..=6],
        proptest::collection::vec(
            prop_oneof![
                // plain: one container
                4 => any::<u8>().prop_map(|b| b as u16),
                // biased to the WAL (primary byte 255 scales to the last container = WAL)
                2 => Just(0x00ffu16),
                // with duplicates
                3 => any::<u16>().prop_map(|w| w & 0x1fff),
            ],
            1..24,
        ),
        proptest::option::weighted(
            0.5,
            (
                any::<u8>(),
                proptest::collection::vec(proptest::bool::weighted(0.3), 1..12),
                any::<bool>(),
                any::<bool>(),
                0u64..1 << 40,
                any::<bool>(),
            )
                .prop_map(|(covers, extra, compacted, delete_objects, timestamp_ms, via_manager)| Ckpt {
                    covers,
                    extra,
                    compacted,
                    delete_objects,
                    timestamp_ms,
                    via_manager,
                }),
        ),
        any::<bool>(),
        proptest::collection::vec(0u8..3, 1..6),
        prop_oneof![
            2 => Just(vec![0u16]),
            3 => proptest::collection::vec(any::<u16>(), 1..24),
        ],
        prop_oneof![Just(0u16), 0u16..400, any::<u16>()],
        prop_oneof![3 => Just(0u8), 1 => Just(1u8), 2 => Just(2u8)],
        any::<u8>(),
        proptest::option::weighted(
            0.4,
            (
                prop_oneof![1 => Just(255u8), 1 => any::<u8>()],
                prop_oneof![3 => Just(255u8), 1 => any::<u8>()],
                any::<bool>(),
            )
                .prop_map(|(after, mark, restarted)| Trunc { after, mark, restarted }),
        ),
    )
        .prop_map(
            |(n_segments, place, checkpoint, via_persistence, id_gaps, order, wal_file_size, wal_mode, wal_q, truncate)| Arrangement {
                n_segments,
                place,
                checkpoint,
                via_persistence,
                id_gaps,
                order,
                wal_file_size,
                wal_mode,
                wal_q,
                truncate,
                causal: false,
            },
        )
}

fn world_cfg() -> GenCfg {
    GenCfg {
        max_ops: 24,
        max_keys: 4,
        max_fields: 4,
        small: 8,
        big: false,
        big_max: 0,
        crdt: false,
        bump: true,
        typed: true,
        sharded: true,
        max_hfields: 3,
        adversarial_names: false,
        whole_second_expiry: true,
    }
}

fn layout() -> impl Strategy<Value = Layout> {
    (worldgen::world(world_cfg()), arrangement(), arrangement(), 1u8..=4).prop_map(
        |(world, a, b, node_replica)| Layout {
            world,
            a,
            b,
            node_replica,
        },
    )
}

// ---------------------------------------------------------------------------------------
// folds and projections
// ---------------------------------------------------------------------------------------

type State = BTreeMap<String, ReplicatedValue>;

fn fold_into(st: &mut State, d: &ReplicationDelta) {
    match st.remove(&d.key) {
        Some(old) => {
            st.insert(d.key.clone(), old.merge(&d.value));
        }
        None => {
            st.insert(d.key.clone(), d.value.clone());
        }
    }
}

fn fold<'a>(it: impl IntoIterator<Item = &'a ReplicationDelta>) -> State {
    let mut st = State::new();
    for d in it {
        fold_into(&mut st, d);
    }
    st
}

fn fold_recovered(rs: &RecoveredState) -> State {
    let mut st: State = rs
        .checkpoint_state
        .as_ref()
        .map(|m| m.iter().map(|(k, v)| (k.clone(), v.clone())).collect())
        .unwrap_or_default();
    for d in &rs.deltas {
        fold_into(&mut st, d);
    }
    st
}

/// peer view; while KF-C07-01 (outer stamp keeps the left operand's replica id) is open the
/// replica id of the OUTER stamp is not compared (its time is).
fn peer(v: &ReplicatedValue, modulo_outer_replica: bool) -> J {
    let mut p = peer_view(v);
    // second, serde-free view (see worldgen::access_view)
    let mut a = worldgen::access_view(v);
    if modulo_outer_replica {
        if let Some(t) = p.get_mut("timestamp").and_then(|t| t.as_object_mut()) {
            t.remove("replica_id");
        }
        if let Some(o) = a.as_object_mut() {
            o.remove("replica");
        }
    }
    json!({"peer": p, "fields": a})
}

fn state_views(st: &State, modulo: bool) -> BTreeMap<String, (J, J)> {
    st.iter()
        .map(|(k, v)| (k.clone(), (peer(v, modulo), client_view(v))))
        .collect()
}

fn diff_states(want: &State, got: &State, modulo: bool) -> Option<String> {
    let (w, g) = (state_views(want, modulo), state_views(got, modulo));
    if w == g {
        return None;
    }
    let keys: BTreeSet<&String> = w.keys().chain(g.keys()).collect();
    let mut out = Vec::new();
    for k in keys {
        match (w.get(k), g.get(k)) {
            (Some(a), Some(b)) if a == b => {}
            (Some(a), Some(b)) => out.push(format!(
                "key {:?}: {} differs\n      merge of what was persisted: {}\n      recovered:                   {}",
                k,
                if a.1 != b.1 { "client view (and peer view)" } else { "peer view" },
                if a.1 != b.1 { &a.1 } else { &a.0 },
                if a.1 != b.1 { &b.1 } else { &b.0 },
            )),
            (Some(a), None) => out.push(format!("key {:?}: persisted ({}) but missing after recovery", k, a.1)),
            (None, Some(b)) => out.push(format!("key {:?}: recovered ({}) but never persisted", k, b.1)),
            (None, None) => {}
        }
        if out.len() >= 3 {
            break;
        }
    }
    Some(out.join("\n    "))
}

fn dproj(d: &ReplicationDelta) -> J {
    json!({"key": d.key, "src": d.source_replica.0, "value": peer(&d.value, false)})
}

fn rs_proj(rs: &RecoveredState) -> J {
    let cp: Option<BTreeMap<&String, J>> = rs
        .checkpoint_state
        .as_ref()
        .map(|m| m.iter().map(|(k, v)| (k, peer(v, false))).collect());
    json!({
        "manifest": serde_json::to_value(&rs.manifest).unwrap_or(J::Null),
        "checkpoint": cp,
        "deltas": rs.deltas.iter().map(dproj).collect::<Vec<_>>(),
    })
}

// ---------------------------------------------------------------------------------------
// building one arrangement with the real writers
// ---------------------------------------------------------------------------------------

struct Built {
    store: InMemoryObjectStore,
    wal: InMemoryWalStore,
    /// indices of updates in the checkpoint / in listed, non-covered segments / in the WAL
    in_checkpoint: BTreeSet<usize>,
    in_live_segments: BTreeSet<usize>,
    in_wal: Vec<usize>,
    /// max stamp over the segments the manifest lists
    high_water: u64,
    manifest: Manifest,
    // classification
    n_segments: usize,
    overlapping_segments: bool,
    key_in_two_containers: bool,
    dup_across_segments: bool,
    /// WAL files written (before any truncation)
    wal_files: usize,
    trunc: TruncInfo,
}

#[derive(Default, Clone, Debug)]
struct TruncInfo {
    requests: usize,
    mark: Option<u64>,
    files_deleted: usize,
    by_restarted_process: bool,
    /// at a request, a closed file held an entry above the mark FOLLOWED by a last entry at or
    /// below it (stamps of several clocks interleaved in one file): it must be kept
    kept_file_ending_below_mark: bool,
    closed_file_not_monotone: bool,
}

fn cyc<T: Copy>(v: &[T], i: usize, default: T) -> T {
    if v.is_empty() {
        default
    } else {
        v[i % v.len()]
    }
}

fn build(d: &[ReplicationDelta], arr: &Arrangement) -> Result<Built, String> {
    let nseg = arr.n_segments.min(6) as usize;
    // ---- containers
    let mut segs: Vec<Vec<usize>> = vec![Vec::new(); nseg];
    let mut wal: Vec<usize> = Vec::new();
    let threshold = {
        let mut ts: Vec<u64> = d.iter().map(|x| x.value.timestamp.time).collect();
        ts.sort();
        ts[(arr.wal_q as usize * ts.len()) >> 8]
    };
    let mut primary: Vec<usize> = (0..d.len())
        .map(|i| {
            let w = cyc(&arr.place, i, 0);
            match (arr.wal_mode, nseg) {
                (_, 0) => 0,
                (1, _) => ((w & 0xff) as usize * nseg) >> 8,
                (2, _) => {
                    if d[i].value.timestamp.time >= threshold {
                        nseg
                    } else {
                        ((w & 0xff) as usize * nseg) >> 8
                    }
                }
                _ => ((w & 0xff) as usize * (nseg + 1)) >> 8,
            }
        })
        .collect();
    if arr.causal {
        // per key, the containers its updates chose are handed out in stamp order (segments in id
        // order, the WAL = index nseg last): what the flush order of the node that made them gives
        let mut by_key: BTreeMap<&String, Vec<usize>> = BTreeMap::new();
        for i in 0..d.len() {
            by_key.entry(&d[i].key).or_default().push(i);
        }
        for idx in by_key.values_mut() {
            idx.sort_by_key(|&i| (d[i].value.timestamp, i));
            let mut chosen: Vec<usize> = idx.iter().map(|&i| primary[i]).collect();
            chosen.sort();
            for (&i, c) in idx.iter().zip(chosen) {
                primary[i] = c;
            }
        }
    }
    for i in 0..d.len() {
        let w = cyc(&arr.place, i, 0);
        let primary = primary[i];
        let twice = w & (1 << 12) != 0;
        if primary == nseg {
            wal.push(i);
            if twice {
                wal.push(i);
            }
        } else {
            segs[primary].push(i);
            if twice {
                segs[primary].push(i);
            }
        }
        if arr.causal {
            continue;
        }
        if w & (1 << 8) != 0 && primary != nseg {
            wal.push(i);
        }
        let dup = ((((w >> 9) & 3) as usize) * nseg) >> 2;
        if w & (1 << 11) != 0 && dup < nseg && dup != primary {
            segs[dup].push(i);
        }
    }
    let okey = |i: &usize| (cyc(&arr.order, *i, 0), *i);
    for s in segs.iter_mut() {
        s.sort_by_key(okey);
    }
    wal.sort_by_key(okey);
    let segs: Vec<Vec<usize>> = segs.into_iter().filter(|s| !s.is_empty()).collect();

    // ---- segments + manifest
    let store = InMemoryObjectStore::new();
    let mm = ManifestManager::new(store.clone(), PREFIX);
    if arr.via_persistence {
        let mut sp = ready(StreamingPersistence::with_clock(
            Arc::new(store.clone()),
            PREFIX.to_string(),
            1,
            WriteBufferConfig::test(),
            SimulatedClock::new(0),
        ))
        .map_err(|e| format!("StreamingPersistence::with_clock: {}", e))?;
        for s in &segs {
            for &i in s {
                sp.push(d[i].clone()).map_err(|e| format!("push: {}", e))?;
            }
            let r = ready(sp.flush()).map_err(|e| format!("flush: {}", e))?;
            if r.deltas_flushed != s.len() || r.segment.is_none() {
                return Err(format!("flush wrote {} of {} updates", r.deltas_flushed, s.len()));
            }
        }
    } else {
        let mut m = Manifest::new(1);
        let mut id = cyc(&arr.id_gaps, 0, 0) as u64;
        for (j, s) in segs.iter().enumerate() {
            let mut w = SegmentWriter::new(Compression::None);
            for &i in s {
                w.write_delta(&d[i]).map_err(|e| format!("write_delta: {}", e))?;
            }
            let img = w.finish().map_err(|e| format!("finish: {}", e))?;
            let key = format!("{}/segments/segment-{:08}.seg", PREFIX, id);
            ready(store.put(&key, &img)).map_err(|e| e.to_string())?;
            m.add_segment(SegmentInfo {
                id,
                key,
                record_count: s.len() as u32,
                size_bytes: img.len() as u64,
                min_timestamp: s.iter().map(|&i| d[i].value.timestamp.time).min().unwrap_or(0),
                max_timestamp: s.iter().map(|&i| d[i].value.timestamp.time).max().unwrap_or(0),
            });
            id += 1 + cyc(&arr.id_gaps, j + 1, 0) as u64;
        }
        ready(mm.save(&m)).map_err(|e| format!("manifest save: {}", e))?;
    }
    let mut manifest = match ready(mm.load()) {
        Ok(m) => m,
        Err(_) if segs.is_empty() => Manifest::new(1),
        Err(e) => return Err(format!("manifest load: {}", e)),
    };
    if manifest.segments.len() != segs.len() {
        return Err(format!("harness: manifest lists {} segments, wrote {}", manifest.segments.len(), segs.len()));
    }

    // ---- checkpoint (only covering >= 1 existing segment: the API's precondition)
    let mut in_checkpoint = BTreeSet::new();
    let mut covered = 0usize;
    if let (Some(c), false) = (&arr.checkpoint, segs.is_empty()) {
        covered = 1 + ((c.covers as usize * segs.len()) >> 8);
        let last_id = manifest.segments[covered - 1].id;
        for s in &segs[..covered] {
            in_checkpoint.extend(s.iter().copied());
        }
        for i in 0..d.len() {
            if cyc(&c.extra, i, false) {
                in_checkpoint.insert(i);
            }
        }
        let state: HashMap<String, ReplicatedValue> =
            fold(in_checkpoint.iter().map(|&i| &d[i])).into_iter().collect();
        let info = if c.via_manager {
            let cm = redis_sim::streaming::CheckpointManager::with_time_source(
                Arc::new(store.clone()),
                PREFIX.to_string(),
                mm.clone(),
                redis_sim::streaming::CheckpointConfig {
                    interval: std::time::Duration::from_secs(3600),
                    min_segments: 1,
                    compression_enabled: false,
                },
                VerifTime::new(c.timestamp_ms),
            );
            let cr = ready(cm.create_checkpoint(state, last_id)).map_err(|e| format!("create_checkpoint: {}", e))?;
            CheckpointInfo {
                key: cr.key,
                timestamp_ms: cr.timestamp_ms,
                key_count: cr.key_count,
                last_segment_id: cr.last_segment_id,
            }
        } else {
            let key_count = state.len() as u64;
            let img = CheckpointWriter::new(Compression::None)
                .write(state, c.timestamp_ms, last_id)
                .map_err(|e| format!("CheckpointWriter::write: {}", e))?;
            let key = format!("{}/checkpoints/chk-{:016}.chk", PREFIX, c.timestamp_ms);
            ready(store.put(&key, &img)).map_err(|e| e.to_string())?;
            CheckpointInfo {
                key,
                timestamp_ms: c.timestamp_ms,
                key_count,
                last_segment_id: last_id,
            }
        };
        if c.compacted {
            let gone: Vec<String> = manifest.segments[..covered].iter().map(|s| s.key.clone()).collect();
            manifest.compact_segments(info);
            if c.delete_objects {
                for k in gone {
                    ready(store.delete(&k)).map_err(|e| e.to_string())?;
                }
            }
        } else {
            manifest.checkpoint = Some(info);
            manifest.version += 1;
        }
        ready(mm.save(&manifest)).map_err(|e| format!("manifest save: {}", e))?;
    }
    let in_live_segments: BTreeSet<usize> = segs[covered..].iter().flatten().copied().collect();

    // ---- WAL
    let wstore = InMemoryWalStore::new();
    let mut wal_files = 0usize;
    let mut trunc = TruncInfo::default();
    if !wal.is_empty() {
        let file_size = 64 + arr.wal_file_size as usize;
        let mut rot = WalRotator::new(wstore.clone(), file_size).map_err(|e| format!("WalRotator::new: {}", e))?;
        // the sound marks: every update stamped at or below the mark is in the checkpoint or in a
        // listed segment, i.e. the mark is below the lowest stamp that is only in the WAL
        let mark: Option<u64> = arr.truncate.as_ref().and_then(|t| {
            let bound = match wal
                .iter()
                .filter(|i| !in_checkpoint.contains(i) && !in_live_segments.contains(i))
                .map(|&i| d[i].value.timestamp.time)
                .min()
            {
                None => u64::MAX,
                Some(0) => return None,
                Some(m) => m - 1,
            };
            if t.mark == 255 {
                return Some(bound);
            }
            let below: BTreeSet<u64> = std::iter::once(0)
                .chain(d.iter().map(|x| x.value.timestamp.time).filter(|&x| x <= bound))
                .collect();
            below.iter().nth((t.mark as usize * below.len()) >> 8).copied()
        });
        let first_request_at = arr
            .truncate
            .as_ref()
            .filter(|t| t.after != 255)
            .map(|t| (t.after as usize * wal.len()) >> 8);
        // (file sequence, stamp) of every append, in order
        let mut appended: Vec<(u64, u64)> = Vec::new();
        let note_request = |appended: &[(u64, u64)], current: Option<u64>, m: u64, tr: &mut TruncInfo| {
            let files: BTreeSet<u64> = appended.iter().map(|a| a.0).collect();
            for f in files {
                if Some(f) == current {
                    continue;
                }
                let stamps: Vec<u64> = appended.iter().filter(|a| a.0 == f).map(|a| a.1).collect();
                let (last, max) = (*stamps.last().unwrap_or(&0), stamps.iter().copied().max().unwrap_or(0));
                if last <= m && max > m {
                    tr.kept_file_ending_below_mark = true;
                }
                if stamps.windows(2).any(|w| w[1] < w[0]) {
                    tr.closed_file_not_monotone = true;
                }
            }
        };
        for (n, &i) in wal.iter().enumerate() {
            if let (Some(at), Some(m)) = (first_request_at, mark) {
                if at == n && n > 0 {
                    rot.sync().map_err(|e| format!("sync: {}", e))?;
                    note_request(&appended, appended.last().map(|a| a.0), m, &mut trunc);
                    trunc.files_deleted += rot.truncate_before(m).map_err(|e| format!("truncate_before({}): {}", m, e))?;
                    trunc.requests += 1;
                }
            }
            let e = WalEntry::from_delta(&d[i], d[i].value.timestamp.time)
                .map_err(|e| format!("from_delta: {}", e))?;
            let seq = rot.append(&e).map_err(|e| format!("append: {}", e))?;
            appended.push((seq, e.timestamp));
        }
        rot.sync().map_err(|e| format!("sync: {}", e))?;
        wal_files = appended.iter().map(|a| a.0).collect::<BTreeSet<_>>().len();
        if let (Some(t), Some(m)) = (&arr.truncate, mark) {
            if t.restarted {
                drop(rot);
                wstore.simulate_crash();
                let mut again = WalRotator::new(wstore.clone(), file_size).map_err(|e| format!("WalRotator::new: {}", e))?;
                note_request(&appended, None, m, &mut trunc);
                trunc.files_deleted += again.truncate_before(m).map_err(|e| format!("truncate_before({}): {}", m, e))?;
                trunc.by_restarted_process = true;
            } else {
                note_request(&appended, appended.last().map(|a| a.0), m, &mut trunc);
                trunc.files_deleted += rot.truncate_before(m).map_err(|e| format!("truncate_before({}): {}", m, e))?;
                drop(rot);
            }
            trunc.requests += 1;
            trunc.mark = Some(m);
            // the crash: nothing else is flushed, whatever was not fsynced is gone
            wstore.simulate_crash();
        }
    }

    // ---- classification
    let ranges: Vec<(u64, u64)> = segs
        .iter()
        .map(|s| {
            (
                s.iter().map(|&i| d[i].value.timestamp.time).min().unwrap(),
                s.iter().map(|&i| d[i].value.timestamp.time).max().unwrap(),
            )
        })
        .collect();
    let overlapping_segments = ranges
        .iter()
        .enumerate()
        .any(|(i, a)| ranges.iter().skip(i + 1).any(|b| a.0 <= b.1 && b.0 <= a.1));
    let mut key_containers: BTreeMap<&String, BTreeSet<usize>> = BTreeMap::new();
    for (j, s) in segs.iter().enumerate() {
        for &i in s {
            key_containers.entry(&d[i].key).or_default().insert(j);
        }
    }
    for &i in &wal {
        key_containers.entry(&d[i].key).or_default().insert(100);
    }
    for &i in &in_checkpoint {
        key_containers.entry(&d[i].key).or_default().insert(101);
    }
    let key_in_two_containers = key_containers.values().any(|c| c.len() >= 2);
    let mut seen: BTreeMap<usize, usize> = BTreeMap::new();
    let mut dup_across_segments = false;
    for (j, s) in segs.iter().enumerate() {
        for &i in s {
            if let Some(prev) = seen.insert(i, j) {
                if prev != j {
                    dup_across_segments = true;
                }
            }
        }
    }
    Ok(Built {
        store,
        wal: wstore,
        in_checkpoint,
        in_live_segments,
        in_wal: wal,
        high_water: manifest.segments.iter().map(|s| s.max_timestamp).max().unwrap_or(0),
        manifest,
        n_segments: segs.len(),
        overlapping_segments,
        key_in_two_containers,
        dup_across_segments,
        wal_files,
        trunc,
    })
}

// ---------------------------------------------------------------------------------------
// the node
// ---------------------------------------------------------------------------------------

/// GET / HGETALL answers for `keys` after applying (checkpoint, deltas) `times` times to a
/// fresh node.
fn node_answers(
    replica: u8,
    rs: &RecoveredState,
    keys: &[(String, bool)],
    times: usize,
) -> Result<Vec<Reply>, String> {
    vcore::block_on(async {
        let cfg = ReplicationConfig {
            replica_id: replica as u64,
            ..ReplicationConfig::default()
        };
        let node = ReplicatedShardedState::with_time_source(cfg, VerifTime::new(0));
        for _ in 0..times {
            node.apply_recovered_state(rs.checkpoint_state.clone(), rs.deltas.clone());
        }
        let mut out = Vec::new();
        for (k, is_hash) in keys {
            let argv = vec![
                if *is_hash { b"HGETALL".to_vec() } else { b"GET".to_vec() },
                k.as_bytes().to_vec(),
            ];
            let cmd = vcore::resp::parse_zc(&argv)?;
            let r = Reply::from_resp(&node.execute(cmd).await);
            out.push(if *is_hash { r.sorted_pairs() } else { r });
        }
        Ok(out)
    })
}

/// What a client must read for `key` given the folded state.
fn expected_answer(st: &State, key: &str, is_hash: bool) -> Reply {
    let v = st.get(key);
    if is_hash {
        let mut pairs: Vec<(Reply, Reply)> = match v.map(|v| &v.crdt) {
            Some(CrdtValue::Hash(h)) => h
                .iter()
                .filter_map(|(f, r)| r.get().map(|s| (Reply::bulk(f.as_bytes()), Reply::bulk(s.as_bytes()))))
                .collect(),
            _ => vec![],
        };
        pairs.sort();
        Reply::Array(pairs.into_iter().flat_map(|(a, b)| [a, b]).collect())
    } else {
        match v.map(|v| &v.crdt) {
            Some(CrdtValue::Lww(l)) => match l.get() {
                Some(s) => Reply::bulk(s.as_bytes()),
                None => Reply::Nil,
            },
            _ => Reply::Nil,
        }
    }
}

// ---------------------------------------------------------------------------------------
// the check
// ---------------------------------------------------------------------------------------

fn recover_all(b: &Built) -> Result<(RecoveredState, RecoveredState, RecoveredState, RecoveredState), String> {
    let mgr = RecoveryManager::new(b.store.clone(), PREFIX, 1);
    let r1 = ready(mgr.recover()).map_err(|e| format!("recover(): {}", e))?;
    let r2 = ready(mgr.recover()).map_err(|e| format!("second recover(): {}", e))?;
    let rp = ready(mgr.recover_with_progress(|_| {})).map_err(|e| format!("recover_with_progress(): {}", e))?;
    let rot = WalRotator::new(b.wal.clone(), 1 << 20).map_err(|e| format!("WalRotator::new: {}", e))?;
    let rw = ready(mgr.recover_with_wal(&rot)).map_err(|e| format!("recover_with_wal(): {}", e))?;
    Ok((r1, r2, rp, rw))
}

/// Returns the fold of recover_with_wal (for the cross-arrangement comparison) and whether
/// the known WAL finding was tolerated.
fn check_arrangement(
    name: &str,
    d: &[ReplicationDelta],
    arr: &Arrangement,
    keys: &[(String, bool)],
    node_replica: u8,
    ctx: &mut CaseCtx<'_>,
) -> Result<(State, bool, Built), String> {
    let b = build(d, arr).map_err(|e| format!("harness ({}): {}", name, e))?;
    let modulo = ctx.finding_open(KF_OUTER_STAMP);
    let (r1, r2, rp, rw) = recover_all(&b).map_err(|e| format!("arrangement {}: {}", name, e))?;

    // (1) recover() = merge of checkpoint content and listed, non-covered segments
    let persisted_store: BTreeSet<usize> = b.in_checkpoint.union(&b.in_live_segments).copied().collect();
    let truth_store = fold(persisted_store.iter().map(|&i| &d[i]));
    let got_store = fold_recovered(&r1);
    if let Some(diff) = diff_states(&truth_store, &got_store, modulo) {
        return Err(format!(
            "arrangement {}: recover() is not the merge of what the checkpoint and the listed segments hold\n    {}\n  manifest: {}",
            name, diff, serde_json::to_string(&b.manifest).unwrap_or_default()
        ));
    }
    // (2) idempotent: the same RecoveredState twice, and recover_with_progress agrees
    if rs_proj(&r1) != rs_proj(&r2) {
        return Err(format!("arrangement {}: recovering twice returned different RecoveredStates", name));
    }
    if rs_proj(&r1) != rs_proj(&rp) {
        return Err(format!("arrangement {}: recover_with_progress() returned a different RecoveredState than recover()", name));
    }
    // (3) recover_with_wal() = merge of everything persisted
    let truth_all = fold(d.iter());
    let all_placed: BTreeSet<usize> = persisted_store.iter().copied().chain(b.in_wal.iter().copied()).collect();
    if all_placed.len() != d.len() {
        return Err(format!("harness: {} of {} updates placed", all_placed.len(), d.len()));
    }
    let got_all = fold_recovered(&rw);
    let mut tolerated = false;
    let wal_only = b.in_wal.iter().any(|i| !persisted_store.contains(i));
    if wal_only && diff_states(&truth_all, &got_all, modulo).is_none() {
        ctx.label("wal_only_updates_all_recovered");
    }
    if let Some(diff) = diff_states(&truth_all, &got_all, modulo) {
        // KF-C11-01: recover_with_wal drops WAL entries stamped below the maximum stamp of the
        // listed segments. Matcher: the result equals exactly the merge of everything except
        // the updates that are ONLY in the WAL and stamped below that high-water mark.
        let kept: Vec<usize> = persisted_store
            .iter()
            .copied()
            .chain(
                b.in_wal
                    .iter()
                    .copied()
                    .filter(|&i| d[i].value.timestamp.time >= b.high_water),
            )
            .collect();
        let with_filter = fold(kept.iter().map(|&i| &d[i]));
        let matches_kf = diff_states(&with_filter, &got_all, modulo).is_none();
        if matches_kf && ctx.tolerate(KF_WAL) {
            tolerated = true;
            ctx.label("wal_entry_below_high_water_lost");
        } else {
            return Err(format!(
                "arrangement {}: recover_with_wal() is not the merge of everything persisted (segment high-water stamp {}; result {} the 'drop WAL entries below the high-water mark' behaviour){}\n    {}\n  WAL stamps: {:?}\n  manifest: {}",
                name,
                b.high_water,
                if matches_kf { "equals" } else { "is NOT explained by" },
                match b.trunc.mark {
                    Some(m) => format!(
                        "; before the crash the WAL was truncated with truncate_before({}) - every update stamped <= {} is in the checkpoint or a listed segment - in {} request(s){}, {} of {} files deleted",
                        m, m, b.trunc.requests, if b.trunc.by_restarted_process { ", the last by a restarted process" } else { "" }, b.trunc.files_deleted, b.wal_files
                    ),
                    None => String::new(),
                },
                diff,
                b.in_wal.iter().map(|&i| (d[i].key.clone(), d[i].value.timestamp.time)).collect::<Vec<_>>(),
                serde_json::to_string(&b.manifest).unwrap_or_default()
            ));
        }
    }
    // recover_with_wal must contain recover()'s deltas as a prefix and the same checkpoint
    if rs_proj(&r1)["checkpoint"] != rs_proj(&rw)["checkpoint"] || rw.deltas.len() < r1.deltas.len() {
        return Err(format!("arrangement {}: recover_with_wal() changed what recover() returns", name));
    }

    // (4) the node: apply once / twice
    for (label, rs) in [("recover()", &r1), ("recover_with_wal()", &rw)] {
        let st = fold_recovered(rs);
        let want: Vec<Reply> = keys.iter().map(|(k, h)| expected_answer(&st, k, *h)).collect();
        for times in [1usize, 2] {
            let got = node_answers(node_replica, rs, keys, times)?;
            for ((k, h), (w, g)) in keys.iter().zip(want.iter().zip(got.iter())) {
                if w != g {
                    return Err(format!(
                        "arrangement {}: node after apply_recovered_state({}) x{}: {} {:?} answers {} but the recovered state folds to {}",
                        name, label, times, if *h { "HGETALL" } else { "GET" }, k, g.show(), w.show()
                    ));
                }
            }
        }
    }
    // (5) one failing or damaged read at every store call of the recovery: Err, or the full merge
    check_recovery_under_read_faults(name, &b, &truth_store, if tolerated { None } else { Some(&truth_all) }, modulo, ctx)?;
    // (6) the entry point the server uses: StreamingIntegration::recover into a node, then the
    // binary's WAL replay; run twice into the same node
    check_server_startup(name, &b.store, &b.wal, &truth_store, &truth_all, keys, node_replica, modulo)?;
    if !b.in_checkpoint.is_empty() && b.in_live_segments.is_empty() {
        ctx.label("checkpoint_and_no_later_segment");
    }
    label_truncation(&b, ctx);
    Ok((got_all, tolerated, b))
}

fn label_truncation(b: &Built, ctx: &mut CaseCtx<'_>) {
    if b.trunc.requests == 0 {
        return;
    }
    ctx.label("wal_truncated_then_crash");
    if b.trunc.files_deleted > 0 {
        ctx.label("wal_truncation_deleted_files");
    }
    if b.trunc.by_restarted_process {
        ctx.label("wal_truncation_by_restarted_process");
    }
    if b.trunc.closed_file_not_monotone {
        ctx.label("wal_truncation_file_with_interleaved_stamps");
    }
    if b.trunc.kept_file_ending_below_mark {
        ctx.label("wal_truncation_file_above_mark_ends_below_mark");
    }
}

fn check_layout(case: &Layout, ctx: &mut CaseCtx<'_>) -> Result<(), String> {
    let (d, extra) = worldgen::run(&case.world);
    if d.is_empty() {
        return Ok(());
    }
    let split = case.world.typed_split.unwrap_or(0) as usize;
    let mut keys: Vec<(String, bool)> = case
        .world
        .keys
        .iter()
        .enumerate()
        .map(|(i, k)| (k.clone(), i >= split))
        .collect();
    keys.extend(extra.into_iter().map(|k| (k, false)));

    // generator distribution
    let reps: BTreeSet<u64> = d.iter().map(|x| x.source_replica.0).collect();
    ctx.label(match reps.len() {
        1 => "replicas_1",
        2 => "replicas_2",
        _ => "replicas_3_plus",
    });
    if d.iter().any(|x| x.source_replica.0 == worldgen::PHANTOM) {
        ctx.label("far_ahead_remote_stamp");
    }
    if d.windows(2).any(|w| w[1].value.timestamp.time < w[0].value.timestamp.time) {
        ctx.label("stamps_not_monotone_in_emission_order");
    }
    if d.iter().any(|x| x.value.is_tombstone()) {
        ctx.label("tombstone");
    }
    if d.iter().any(|x| x.value.expiry_ms.is_some()) {
        ctx.label("expiry");
    }
    if d.iter().any(|x| x.value.is_hash()) {
        ctx.label("hash");
    }
    if d.iter().any(|x| x.value.vector_clock.is_some()) {
        ctx.label("vector_clock");
    }

    let (fa, ta, ba) = check_arrangement("A", &d, &case.a, &keys, case.node_replica, ctx)?;
    let (fb, tb, bb) = check_arrangement("B", &d, &case.b, &keys, case.node_replica, ctx)?;
    // (5) permutation / duplication of the partition: both arrangements hold the same updates
    if !ta && !tb {
        if let Some(diff) = diff_states(&fa, &fb, ctx.finding_open(KF_OUTER_STAMP)) {
            return Err(format!("two arrangements of the same updates recover differently:\n    {}", diff));
        }
    }
    for (b, arr) in [(&ba, &case.a), (&bb, &case.b)] {
        ctx.label(match b.n_segments {
            0 => "segments_0",
            1 => "segments_1",
            _ => "segments_2_plus",
        });
        if !b.in_checkpoint.is_empty() {
            ctx.label("checkpoint");
            if b.manifest.segments.len() < b.n_segments {
                ctx.label("checkpoint_manifest_compacted");
            } else {
                ctx.label("checkpoint_covered_segments_still_listed");
            }
        }
        if b.wal_files >= 1 {
            ctx.label("wal");
        }
        if b.in_wal.iter().any(|i| !b.in_live_segments.contains(i) && !b.in_checkpoint.contains(i)) {
            ctx.label("wal_only_updates");
        }
        if b.wal_files >= 2 {
            ctx.label("wal_multi_file");
        }
        if b.dup_across_segments {
            ctx.label("duplicate_across_segments");
        }
        if b.in_wal.iter().any(|i| b.in_live_segments.contains(i) || b.in_checkpoint.contains(i)) {
            ctx.label("wal_overlaps_store");
        }
        if arr.via_persistence {
            ctx.label("segments_via_streaming_persistence");
        } else {
            ctx.label("segments_via_segment_writer");
        }
    }
    if [&ba, &bb]
        .iter()
        .any(|b| b.n_segments >= 2 && b.overlapping_segments && b.key_in_two_containers)
    {
        ctx.nontrivial(case);
    }
    Ok(())
}



// ---------------------------------------------------------------------------------------
// the entry point the server uses: StreamingIntegration::recover + WAL replay into a node
// ---------------------------------------------------------------------------------------

fn streaming_config() -> StreamingConfig {
    let mut c = StreamingConfig::test();
    c.prefix = PREFIX.to_string();
    // no background compaction worker: it runs on the production clock (tombstone GC is C13's)
    c.compaction.max_segments = 0;
    c
}

struct NodeView {
    /// GET / HGETALL per key after StreamingIntegration::recover (before the WAL replay)
    after_store: Vec<Reply>,
    /// ... after the WAL replay src/bin/server_persistent.rs performs
    after_wal: Vec<Reply>,
    exists: Vec<Reply>,
    snapshot: State,
}

/// What src/bin/server_persistent.rs does at start-up, `passes` times into the SAME node:
/// `integration.recover(&state)`, then replay every WAL entry with
/// `apply_recovered_state(None, deltas)`.
fn server_startup(
    store: &InMemoryObjectStore,
    wal: &InMemoryWalStore,
    replica: u8,
    keys: &[(String, bool)],
    passes: usize,
) -> Result<Vec<NodeView>, String> {
    vcore::block_on(async {
        let node = ReplicatedShardedState::new(ReplicationConfig {
            replica_id: replica as u64,
            ..ReplicationConfig::default()
        });
        let integ = StreamingIntegration::with_store(Arc::new(store.clone()), streaming_config(), 1);
        let ask = |verb: &'static str, k: &str| vcore::resp::parse_zc(&[verb.as_bytes().to_vec(), k.as_bytes().to_vec()]);
        let mut out = Vec::new();
        for pass in 0..passes {
            integ
                .recover(&node)
                .await
                .map_err(|e| format!("StreamingIntegration::recover (pass {}): {}", pass + 1, e))?;
            let mut after_store = Vec::new();
            for (k, h) in keys {
                let r = Reply::from_resp(&node.execute(ask(if *h { "HGETALL" } else { "GET" }, k)?).await);
                after_store.push(if *h { r.sorted_pairs() } else { r });
            }
            // WAL replay, as the binary does it
            let rot = WalRotator::new(wal.clone(), 1 << 20).map_err(|e| e.to_string())?;
            let entries = rot.recover_all_entries().map_err(|e| format!("WAL replay: {}", e))?;
            if !entries.is_empty() {
                let deltas: Vec<ReplicationDelta> = entries.iter().filter_map(|e| e.to_delta().ok()).collect();
                node.apply_recovered_state(None, deltas);
            }
            let (mut after_wal, mut exists) = (Vec::new(), Vec::new());
            for (k, h) in keys {
                let r = Reply::from_resp(&node.execute(ask(if *h { "HGETALL" } else { "GET" }, k)?).await);
                after_wal.push(if *h { r.sorted_pairs() } else { r });
                exists.push(Reply::from_resp(&node.execute(ask("EXISTS", k)?).await));
            }
            let snapshot: State = node.snapshot_state().await.into_iter().collect();
            out.push(NodeView {
                after_store,
                after_wal,
                exists,
                snapshot,
            });
        }
        Ok(out)
    })
}

/// Compare the node after the server's start-up sequence with the ground truth.
fn check_server_startup(
    name: &str,
    store: &InMemoryObjectStore,
    wal: &InMemoryWalStore,
    truth_store: &State,
    truth_all: &State,
    keys: &[(String, bool)],
    replica: u8,
    modulo: bool,
) -> Result<(), String> {
    check_server_startup_opt(name, store, wal, truth_store, truth_all, keys, replica, modulo, true)
}

/// `strict_snapshot` = false: only what a client reads (GET / HGETALL / EXISTS) is compared, not
/// snapshot_state() (after a legitimate tombstone collection the key is absent instead of deleted).
#[allow(clippy::too_many_arguments)]
fn check_server_startup_opt(
    name: &str,
    store: &InMemoryObjectStore,
    wal: &InMemoryWalStore,
    truth_store: &State,
    truth_all: &State,
    keys: &[(String, bool)],
    replica: u8,
    modulo: bool,
    strict_snapshot: bool,
) -> Result<(), String> {
    let views = server_startup(store, wal, replica, keys, 2).map_err(|e| format!("arrangement {}: {}", name, e))?;
    for (pass, v) in views.iter().enumerate() {
        let stages: [(&str, &Vec<Reply>, &State); 2] = [
            ("StreamingIntegration::recover", &v.after_store, truth_store),
            ("StreamingIntegration::recover + WAL replay", &v.after_wal, truth_all),
        ];
        for (stage, got, truth) in stages {
            // after a second recover() the checkpoint has overwritten what the WAL replay had
            // merged; only the complete sequence is compared on the second pass
            if pass == 1 && stage == "StreamingIntegration::recover" {
                continue;
            }
            for ((k, h), g) in keys.iter().zip(got.iter()) {
                let w = expected_answer(truth, k, *h);
                if w != *g {
                    return Err(format!(
                        "arrangement {}: node after {} (start-up sequence run {}x): {} {:?} answers {} but the merge of what is persisted is {}",
                        name, stage, pass + 1, if *h { "HGETALL" } else { "GET" }, k, g.show(), w.show()
                    ));
                }
            }
        }
        for ((k, h), g) in keys.iter().zip(v.exists.iter()) {
            let present = match expected_answer(truth_all, k, *h) {
                Reply::Nil => false,
                Reply::Array(a) => !a.is_empty(),
                _ => true,
            };
            if *g != Reply::Int(present as i64) {
                return Err(format!(
                    "arrangement {}: node after the start-up sequence ({}x): EXISTS {:?} answers {} but the key is {} in the merge of what is persisted",
                    name, pass + 1, k, g.show(), if present { "present" } else { "absent" }
                ));
            }
        }
        if !strict_snapshot {
            continue;
        }
        if let Some(diff) = diff_states(truth_all, &v.snapshot, modulo) {
            return Err(format!(
                "arrangement {}: snapshot_state() after the start-up sequence ({}x) is not the merge of what is persisted\n    {}",
                name, pass + 1, diff
            ));
        }
    }
    Ok(())
}

// ---------------------------------------------------------------------------------------
// boundary layouts
// ---------------------------------------------------------------------------------------

#[derive(Clone, Debug, Serialize, Deserialize, Hash)]
struct BoundaryCase {
    world: WorldSpec,
    /// 0 checkpoint only (covers every segment, manifest compacted), 1 checkpoint + only older
    /// (covered, still listed) segments, 2 segments only, 3 WAL only, 4 nothing at all,
    /// 5 checkpoint covering everything + WAL with newer and older entries,
    /// 6 an empty manifest and nothing else
    kind: u8,
    base: Arrangement,
    node_replica: u8,
}

fn boundary_case() -> impl Strategy<Value = BoundaryCase> {
    (worldgen::world(world_cfg()), 0u8..7, arrangement(), 1u8..=4).prop_map(|(world, kind, base, node_replica)| {
        BoundaryCase {
            world,
            kind,
            base,
            node_replica,
        }
    })
}

fn boundary_arrangement(kind: u8, base: &Arrangement) -> Arrangement {
    let mut a = base.clone();
    let ck = |compacted: bool, base: &Arrangement| Ckpt {
        covers: 255,
        extra: base.checkpoint.as_ref().map(|c| c.extra.clone()).unwrap_or_else(|| vec![false]),
        compacted,
        delete_objects: base.checkpoint.as_ref().map(|c| c.delete_objects).unwrap_or(false),
        timestamp_ms: base.checkpoint.as_ref().map(|c| c.timestamp_ms).unwrap_or(1),
                    via_manager: false,
    };
    let no_wal = |a: &mut Arrangement| {
        a.wal_mode = 1;
        for w in a.place.iter_mut() {
            *w &= !(1 << 8);
        }
    };
    match kind {
        0 => {
            a.n_segments = a.n_segments.max(1);
            a.checkpoint = Some(ck(true, base));
            no_wal(&mut a);
        }
        1 => {
            a.n_segments = a.n_segments.max(1);
            a.checkpoint = Some(ck(false, base));
            no_wal(&mut a);
        }
        2 => {
            a.n_segments = a.n_segments.max(1);
            a.checkpoint = None;
            no_wal(&mut a);
        }
        3 => {
            a.n_segments = 0;
            a.checkpoint = None;
        }
        _ => {
            // 5: everything that is in a segment is covered; the WAL holds duplicates (older and
            // newer than the checkpoint's stamps) and, with wal_mode 0/2, updates of its own
            a.n_segments = a.n_segments.max(1);
            a.checkpoint = Some(ck(base.checkpoint.as_ref().map(|c| c.compacted).unwrap_or(true), base));
            a.wal_mode = 0;
            for (i, w) in a.place.iter_mut().enumerate() {
                if i % 2 == 0 {
                    *w |= 1 << 8;
                }
            }
            // the first update is in segment 0 (so a checkpoint exists) and in the WAL
            a.place[0] = (a.place[0] & 0xff00) | (1 << 8);
        }
    }
    a
}

fn typed_keys(world: &WorldSpec, extra: Vec<String>) -> Vec<(String, bool)> {
    let split = world.typed_split.unwrap_or(0) as usize;
    let mut keys: Vec<(String, bool)> = world.keys.iter().enumerate().map(|(i, k)| (k.clone(), i >= split)).collect();
    keys.extend(extra.into_iter().map(|k| (k, false)));
    keys
}

fn check_boundary(case: &BoundaryCase, ctx: &mut CaseCtx<'_>) -> Result<(), String> {
    let (d, extra) = worldgen::run(&case.world);
    let keys = typed_keys(&case.world, extra);
    let kind = case.kind % 7;
    ctx.label(match kind {
        0 => "boundary_checkpoint_only",
        1 => "boundary_checkpoint_and_only_older_segments",
        2 => "boundary_segments_only",
        3 => "boundary_wal_only",
        4 => "boundary_nothing_at_all",
        5 => "boundary_checkpoint_covers_everything_plus_wal",
        _ => "boundary_empty_manifest",
    });
    if kind == 4 || kind == 6 || d.is_empty() {
        let store = InMemoryObjectStore::new();
        if kind == 6 {
            ready(ManifestManager::new(store.clone(), PREFIX).save(&Manifest::new(1))).map_err(|e| e.to_string())?;
        }
        let empty = State::new();
        check_server_startup("(empty store)", &store, &InMemoryWalStore::new(), &empty, &empty, &keys, case.node_replica, false)?;
        ctx.nontrivial(&(kind, &case.world.keys));
        return Ok(());
    }
    let arr = boundary_arrangement(kind, &case.base);
    let (_, _, b) = check_arrangement("boundary", &d, &arr, &keys, case.node_replica, ctx)?;
    // the construction really is the boundary it names
    let ok = match kind {
        0 => !b.in_checkpoint.is_empty() && b.manifest.segments.is_empty() && b.in_wal.is_empty(),
        1 => !b.in_checkpoint.is_empty() && b.in_live_segments.is_empty() && !b.manifest.segments.is_empty() && b.in_wal.is_empty(),
        2 => b.in_checkpoint.is_empty() && !b.in_live_segments.is_empty() && b.in_wal.is_empty(),
        3 => b.in_checkpoint.is_empty() && b.n_segments == 0 && !b.in_wal.is_empty(),
        _ => !b.in_checkpoint.is_empty() && b.in_live_segments.is_empty() && !b.in_wal.is_empty(),
    };
    if !ok {
        return Err(format!("harness: boundary kind {} was not constructed (checkpoint {}, live {}, listed {}, wal {})",
            kind, b.in_checkpoint.len(), b.in_live_segments.len(), b.manifest.segments.len(), b.in_wal.len()));
    }
    ctx.nontrivial(case);
    Ok(())
}

// ---------------------------------------------------------------------------------------
// maintenance: compaction passes (incl. tombstone collection) between persisting and recovering
// ---------------------------------------------------------------------------------------

#[derive(Clone, Debug, Serialize, Deserialize, Hash)]
struct Pass {
    /// CompactionConfig::max_segments_per_compaction of this pass
    max_per: u8,
    /// where the tombstone horizon (compactor clock - tombstone_ttl) lies: 0 = nothing is old
    /// enough, 255 = every tombstone is (what the production clock gives, KF-C13-02), otherwise
    /// scaled over the distinct stamps of the ground truth
    horizon: u8,
}

#[derive(Clone, Debug, Serialize, Deserialize, Hash)]
struct MaintCase {
    world: WorldSpec,
    arr: Arrangement,
    passes: Vec<Pass>,
    node_replica: u8,
}

fn maint_case() -> impl Strategy<Value = MaintCase> {
    let pass = (2u8..=4, prop_oneof![1 => Just(0u8), 3 => Just(255u8), 4 => any::<u8>()])
        .prop_map(|(max_per, horizon)| Pass { max_per, horizon });
    (
        worldgen::world(GenCfg { max_keys: 3, ..world_cfg() }),
        arrangement(),
        proptest::collection::vec(pass, 1..=2),
        1u8..=4,
    )
        .prop_map(|(world, mut arr, passes, node_replica)| {
            // what the node that made the updates leaves behind: per key in stamp order, no
            // checkpoint (a checkpoint next to tombstone collection is KF-C13-03)
            arr.causal = true;
            arr.checkpoint = None;
            if arr.n_segments < 4 {
                arr.n_segments += 3;
            }
            MaintCase { world, arr, passes, node_replica }
        })
}

const TTL_MS: u64 = 1000;

/// The states a key may legitimately be recovered in: the merge of all its updates, or - a
/// tombstone older than the horizon having been collected together with everything older
/// (only then is the collection invisible) - the merge of the updates above such a tombstone.
/// `u` = the key's updates in stamp order, the first `in_store` of them in segments (the rest
/// only in the WAL, out of the compactor's reach).
fn legitimate_states(u: &[&ReplicationDelta], in_store: usize, horizon: u64) -> Vec<Option<ReplicatedValue>> {
    let rest = |j: usize| -> Option<ReplicatedValue> {
        u[j..].iter().fold(None, |acc: Option<ReplicatedValue>, x| {
            Some(match acc {
                Some(a) => a.merge(&x.value),
                None => x.value.clone(),
            })
        })
    };
    let mut out = vec![rest(0)];
    let mut below: Option<ReplicatedValue> = None;
    for j in 1..=in_store.min(u.len()) {
        below = Some(match below {
            Some(a) => a.merge(&u[j - 1].value),
            None => u[j - 1].value.clone(),
        });
        let b = below.as_ref().expect("just set");
        if b.is_tombstone() && b.timestamp.time < horizon {
            out.push(rest(j));
        }
    }
    out
}

fn check_maintenance(case: &MaintCase, ctx: &mut CaseCtx<'_>) -> Result<(), String> {
    let (d, extra) = worldgen::run(&case.world);
    if d.is_empty() {
        return Ok(());
    }
    let keys = typed_keys(&case.world, extra);
    let modulo = ctx.finding_open(KF_OUTER_STAMP);
    let mut arr = case.arr.clone();
    arr.causal = true;
    arr.checkpoint = None;
    let b = build(&d, &arr).map_err(|e| format!("harness: {}", e))?;
    let in_store: BTreeSet<usize> = b.in_live_segments.clone();
    if in_store.iter().any(|i| b.in_wal.contains(i)) || in_store.len() + b.in_wal.iter().collect::<BTreeSet<_>>().len() != d.len() {
        return Err("harness: the causal layout put an update into two containers or lost one".into());
    }
    label_truncation(&b, ctx);

    // ---- the maintenance: compaction passes on the real store
    let stamps: BTreeSet<u64> = d.iter().map(|x| x.value.timestamp.time).collect();
    let mut horizon_max = 0u64;
    let (mut partial, mut collected) = (false, 0u64);
    for (n, p) in case.passes.iter().enumerate() {
        let mm = ManifestManager::new(b.store.clone(), PREFIX);
        let listed = ready(mm.load()).map(|m| m.segments.len()).unwrap_or(0);
        // the compactor's clock: its tombstone horizon (now - ttl) is read against the stamps, as
        // the code does
        let horizon = match p.horizon {
            0 => 0,
            255 => u64::MAX - TTL_MS,
            q => stamps.iter().nth((q as usize * stamps.len()) >> 8).map(|s| s.saturating_add(1)).unwrap_or(0),
        };
        // a pass that leaves segments out AFTER an earlier pass has renumbered the oldest data
        // (the merged segment gets the highest id) is the open KF-C13-03; later passes take all
        let max_per = if n == 0 { p.max_per.max(2) as usize } else { 255 };
        let mut c = Compactor::with_time_source(
            Arc::new(b.store.clone()),
            PREFIX.to_string(),
            mm,
            CompactionConfig {
                target_segment_size: 1 << 30,
                max_segments: 2,
                min_segments_to_compact: 2,
                max_segments_per_compaction: max_per,
                tombstone_ttl: std::time::Duration::from_millis(TTL_MS),
                compression_enabled: false,
            },
            VerifTime::new(horizon.saturating_add(TTL_MS)),
        );
        match ready(c.compact()) {
            Ok(r) => {
                horizon_max = horizon_max.max(horizon);
                collected += r.tombstones_removed;
                if r.segments_removed.len() < listed {
                    partial = true;
                    ctx.label("compaction_pass_leaves_segments_out");
                } else {
                    ctx.label("compaction_pass_takes_every_segment");
                }
            }
            Err(redis_sim::streaming::CompactionError::NothingToCompact) => ctx.label("compaction_nothing_to_compact"),
            Err(e) => return Err(format!("compaction pass {}: {}", n + 1, e)),
        }
    }
    if collected > 0 {
        ctx.label("compaction_collected_tombstones");
    }

    // ---- recovery after the maintenance
    let (r1, r2, rp, rw) = recover_all(&b).map_err(|e| format!("after compaction: {}", e))?;
    if rs_proj(&r1) != rs_proj(&r2) || rs_proj(&r1) != rs_proj(&rp) {
        return Err("after compaction: recover() twice / recover_with_progress() returned different RecoveredStates".into());
    }
    let mut per_key: BTreeMap<&String, Vec<usize>> = BTreeMap::new();
    for i in 0..d.len() {
        per_key.entry(&d[i].key).or_default().push(i);
    }
    for idx in per_key.values_mut() {
        // stamp order; the WAL (newest per key by construction) last
        idx.sort_by_key(|&i| (!in_store.contains(&i), d[i].value.timestamp, i));
    }
    let show = |v: &Option<ReplicatedValue>| match v {
        Some(v) => peer(v, modulo).to_string(),
        None => "(absent)".to_string(),
    };
    for (what, rs, with_wal) in [("recover()", &r1, false), ("recover_with_wal()", &rw, true)] {
        let got = fold_recovered(rs);
        if let Some(k) = got.keys().find(|k| !per_key.contains_key(k)) {
            return Err(format!("after compaction: {} returns key {:?} that was never persisted", what, k));
        }
        for (k, idx) in &per_key {
            let n_store = idx.iter().filter(|i| in_store.contains(i)).count();
            let u: Vec<&ReplicationDelta> = idx.iter().take(if with_wal { idx.len() } else { n_store }).map(|&i| &d[i]).collect();
            let allowed = legitimate_states(&u, n_store, horizon_max);
            let g = got.get(*k).cloned();
            let same = |a: &Option<ReplicatedValue>, b: &Option<ReplicatedValue>| match (a, b) {
                (None, None) => true,
                (Some(a), Some(b)) => peer(a, modulo) == peer(b, modulo) && client_view(a) == client_view(b),
                _ => false,
            };
            if !allowed.iter().any(|a| same(a, &g)) {
                return Err(format!(
                    "after {} compaction pass(es) (tombstone horizon {}), {} gives key {:?} a state that is neither the merge of everything persisted nor that merge minus a collected tombstone older than the horizon together with everything older\n    merge of what was persisted: {}\n    recovered:                   {}\n    updates of the key (stamp order; segment-held {}): {}\n  manifest: {}",
                    case.passes.len(), horizon_max, what, k, show(&allowed[0]), show(&g), n_store,
                    u.iter().map(|x| format!("{}@({},{})", if x.value.is_tombstone() { "DEL" } else { "SET" }, x.value.timestamp.time, x.value.timestamp.replica_id.0)).collect::<Vec<_>>().join(" "),
                    serde_json::to_string(&rs.manifest).unwrap_or_default()
                ));
            }
            if allowed.len() > 1 && !same(&allowed[0], &g) {
                ctx.label("recovered_without_collected_tombstone");
            }
        }
    }
    // ---- what a client reads after the server's start-up sequence = the merge of everything
    let truth_store = fold(in_store.iter().map(|&i| &d[i]));
    let truth_all = fold(d.iter());
    check_server_startup_opt("after compaction", &b.store, &b.wal, &truth_store, &truth_all, &keys, case.node_replica, modulo, false)?;

    if d.iter().any(|x| x.value.is_tombstone()) {
        ctx.label("maintenance_tombstone_in_ground_truth");
    }
    if partial && collected > 0 {
        ctx.nontrivial(case);
    }
    Ok(())
}

// ---------------------------------------------------------------------------------------
// life cycle: node -> delta sink -> workers -> shutdown -> restart, as the binary wires them
// ---------------------------------------------------------------------------------------

#[derive(Clone, Debug, Serialize, Deserialize, Hash)]
enum Cmd {
    Set { key: u8, val: Vec<u8>, ex: Option<u16> },
    Del { key: u8 },
    HSet { key: u8, fields: Vec<(u8, Vec<u8>)> },
    HDel { key: u8, field: u8 },
    /// explicit flush through the actor handle is not public; a pause lets the bridge tick
    Pause,
}

#[derive(Clone, Debug, Serialize, Deserialize, Hash)]
struct LifeCase {
    /// 1..=3 sessions (process lifetimes) over one store
    sessions: Vec<Vec<Cmd>>,
}

fn life_case() -> impl Strategy<Value = LifeCase> {
    let val = proptest::collection::vec(any::<u8>(), 0..6);
    let cmd = prop_oneof![
        5 => (0u8..4, val.clone(), proptest::option::weighted(0.2, 1u16..1000)).prop_map(|(key, val, ex)| Cmd::Set { key, val, ex }),
        2 => (0u8..4).prop_map(|key| Cmd::Del { key }),
        4 => (0u8..3, proptest::collection::vec((0u8..4, val), 1..3)).prop_map(|(key, fields)| Cmd::HSet { key, fields }),
        2 => (0u8..3, 0u8..4).prop_map(|(key, field)| Cmd::HDel { key, field }),
        1 => Just(Cmd::Pause),
    ];
    proptest::collection::vec(proptest::collection::vec(cmd, 0..10), 1..=3).prop_map(|sessions| LifeCase { sessions })
}

fn life_keys() -> Vec<(String, bool)> {
    let mut v: Vec<(String, bool)> = (0..4).map(|i| (format!("s{}", i), false)).collect();
    v.extend((0..3).map(|i| (format!("h{}", i), true)));
    v
}

fn check_lifecycle(case: &LifeCase, ctx: &mut CaseCtx<'_>) -> Result<(), String> {
    let keys = life_keys();
    let store = InMemoryObjectStore::new();
    let argv = |parts: Vec<Vec<u8>>| vcore::resp::parse_zc(&parts);
    let mut wrote = false;
    vcore::block_on(async {
        let mut before: Option<(Vec<Reply>, Vec<Reply>)> = None;
        for (si, session) in case.sessions.iter().enumerate() {
            let integ = StreamingIntegration::with_store(Arc::new(store.clone()), streaming_config(), 1);
            let mut node = ReplicatedShardedState::new(ReplicationConfig::default());
            integ.recover(&node).await.map_err(|e| format!("session {}: recover: {}", si + 1, e))?;
            let dump = |node: ReplicatedShardedState| {
                let keys = keys.clone();
                async move {
                    let (mut vals, mut ex) = (Vec::new(), Vec::new());
                    for (k, h) in &keys {
                        let c = vcore::resp::parse_zc(&[if *h { b"HGETALL".to_vec() } else { b"GET".to_vec() }, k.as_bytes().to_vec()])?;
                        let r = Reply::from_resp(&node.execute(c).await);
                        vals.push(if *h { r.sorted_pairs() } else { r });
                        let c = vcore::resp::parse_zc(&[b"EXISTS".to_vec(), k.as_bytes().to_vec()])?;
                        ex.push(Reply::from_resp(&node.execute(c).await));
                    }
                    Ok::<_, String>((vals, ex))
                }
            };
            // what the restarted node serves must be what the previous process served last
            if let Some((vals, ex)) = &before {
                let (v2, e2) = dump(node.clone()).await?;
                for (i, (k, h)) in keys.iter().enumerate() {
                    if vals[i] != v2[i] || ex[i] != e2[i] {
                        return Err(format!(
                            "session {}: after restart (StreamingIntegration::recover) {} {:?} answers {} / EXISTS {} but the previous process answered {} / EXISTS {} before its graceful shutdown",
                            si + 1, if *h { "HGETALL" } else { "GET" }, k, v2[i].show(), e2[i].show(), vals[i].show(), ex[i].show()
                        ));
                    }
                }
            }
            let (handles, sender) = integ.start_workers().await.map_err(|e| format!("start_workers: {}", e))?;
            node.set_delta_sink(sender);
            for c in session {
                let cmd = match c {
                    Cmd::Set { key, val, ex } => {
                        let mut a = vec![b"SET".to_vec(), format!("s{}", key % 4).into_bytes(), val.clone()];
                        if let Some(s) = ex {
                            a.push(b"EX".to_vec());
                            a.push(s.to_string().into_bytes());
                        }
                        argv(a)?
                    }
                    Cmd::Del { key } => argv(vec![b"DEL".to_vec(), format!("s{}", key % 4).into_bytes()])?,
                    Cmd::HSet { key, fields } => {
                        let mut a = vec![b"HSET".to_vec(), format!("h{}", key % 3).into_bytes()];
                        for (f, v) in fields {
                            a.push(format!("f{}", f % 4).into_bytes());
                            a.push(v.clone());
                        }
                        argv(a)?
                    }
                    Cmd::HDel { key, field } => argv(vec![
                        b"HDEL".to_vec(),
                        format!("h{}", key % 3).into_bytes(),
                        format!("f{}", field % 4).into_bytes(),
                    ])?,
                    Cmd::Pause => {
                        tokio::time::sleep(std::time::Duration::from_millis(25)).await;
                        continue;
                    }
                };
                wrote = true;
                let _ = node.execute(cmd).await;
            }
            before = Some(dump(node.clone()).await?);
            node.clear_delta_sink();
            handles.shutdown().await;
        }
        // a final restart
        let integ = StreamingIntegration::with_store(Arc::new(store.clone()), streaming_config(), 1);
        let node = ReplicatedShardedState::new(ReplicationConfig::default());
        integ.recover(&node).await.map_err(|e| format!("final recover: {}", e))?;
        if let Some((vals, ex)) = &before {
            for (i, (k, h)) in keys.iter().enumerate() {
                let c = vcore::resp::parse_zc(&[if *h { b"HGETALL".to_vec() } else { b"GET".to_vec() }, k.as_bytes().to_vec()])?;
                let r = Reply::from_resp(&node.execute(c).await);
                let r = if *h { r.sorted_pairs() } else { r };
                let c = vcore::resp::parse_zc(&[b"EXISTS".to_vec(), k.as_bytes().to_vec()])?;
                let e = Reply::from_resp(&node.execute(c).await);
                if r != vals[i] || e != ex[i] {
                    return Err(format!(
                        "after the last restart {} {:?} answers {} / EXISTS {} but the last process answered {} / EXISTS {} before its graceful shutdown",
                        if *h { "HGETALL" } else { "GET" }, k, r.show(), e.show(), vals[i].show(), ex[i].show()
                    ));
                }
            }
        }
        Ok::<(), String>(())
    })?;
    ctx.label(match case.sessions.len() {
        1 => "sessions_1",
        2 => "sessions_2",
        _ => "sessions_3",
    });
    if wrote && case.sessions.len() >= 2 {
        ctx.nontrivial(case);
    }
    Ok(())
}


// ---------------------------------------------------------------------------------------
// scale: one burst of 70 000 - 150 000 recovered entries through the server's entry point
// ---------------------------------------------------------------------------------------

#[derive(Clone, Debug, Serialize, Deserialize, Hash)]
struct ScaleCase {
    /// distinct keys
    keys: u32,
    /// updates per key (1 = every key written once)
    per_key: u32,
    /// how many of the first updates are folded into the checkpoint (and sit in covered segments)
    in_checkpoint: u32,
    /// live segments holding the rest
    segments: u32,
    /// the last updates that are only in the WAL
    wal_tail: u32,
    multi_thread: bool,
    /// every 50th key carries a 1.5 - 3 MiB value (one of them only in the WAL, followed by
    /// small entries)
    big_values: bool,
}

fn scale_cases() -> Vec<ScaleCase> {
    vec![
        ScaleCase { keys: 70_000, per_key: 1, in_checkpoint: 20_000, segments: 40, wal_tail: 2_000, multi_thread: false, big_values: false },
        ScaleCase { keys: 100_000, per_key: 1, in_checkpoint: 20_000, segments: 48, wal_tail: 3_000, multi_thread: true, big_values: false },
        ScaleCase { keys: 150_000, per_key: 1, in_checkpoint: 25_000, segments: 60, wal_tail: 1_000, multi_thread: false, big_values: false },
        ScaleCase { keys: 100, per_key: 1_000, in_checkpoint: 20_000, segments: 30, wal_tail: 2_000, multi_thread: false, big_values: false },
        ScaleCase { keys: 100, per_key: 1_000, in_checkpoint: 20_000, segments: 30, wal_tail: 2_000, multi_thread: true, big_values: false },
        ScaleCase { keys: 200, per_key: 1, in_checkpoint: 60, segments: 3, wal_tail: 50, multi_thread: false, big_values: true },
    ]
}

fn mix(h: &mut u64, bytes: &[u8]) {
    for b in bytes {
        *h ^= *b as u64;
        *h = h.wrapping_mul(0x100000001b3);
    }
    *h ^= 0xff;
    *h = h.wrapping_mul(0x100000001b3);
}

/// checksum of one (key, value, stamps) entry, built from public fields only
fn entry_sum(key: &str, v: &ReplicatedValue) -> u64 {
    let mut h: u64 = 0xcbf29ce484222325;
    mix(&mut h, key.as_bytes());
    let reg = |h: &mut u64, r: &redis_sim::replication::LwwRegister<SDS>| {
        match &r.value {
            Some(s) => mix(h, s.as_bytes()),
            None => mix(h, b"\x00none"),
        }
        mix(h, &r.timestamp.time.to_le_bytes());
        mix(h, &r.timestamp.replica_id.0.to_le_bytes());
        mix(h, &[r.tombstone as u8]);
    };
    match &v.crdt {
        CrdtValue::Lww(l) => {
            mix(&mut h, b"lww");
            reg(&mut h, l);
        }
        CrdtValue::Hash(m) => {
            mix(&mut h, b"hash");
            let mut fields: Vec<_> = m.iter().collect();
            fields.sort_by(|a, b| a.0.cmp(b.0));
            for (f, r) in fields {
                mix(&mut h, f.as_bytes());
                reg(&mut h, r);
            }
        }
        _ => mix(&mut h, b"other"),
    }
    mix(&mut h, &v.expiry_ms.unwrap_or(u64::MAX).to_le_bytes());
    mix(&mut h, &v.timestamp.time.to_le_bytes());
    mix(&mut h, &v.timestamp.replica_id.0.to_le_bytes());
    h
}

/// (count, checksum over the sorted entries)
fn state_sum(st: &State) -> (usize, u64) {
    let mut h: u64 = 0xcbf29ce484222325;
    for (k, v) in st {
        mix(&mut h, &entry_sum(k, v).to_le_bytes());
    }
    (st.len(), h)
}

fn check_scale(case: &ScaleCase, ctx: &mut CaseCtx<'_>) -> Result<(), String> {
    use redis_sim::replication::{ConsistencyLevel, ShardReplicaState};
    // ---- ground truth through the real API: 16 shard clocks of replica 1
    let mut shards: Vec<ShardReplicaState> =
        (0..16).map(|_| ShardReplicaState::new(ReplicaId::new(1), ConsistencyLevel::Eventual)).collect();
    let n = (case.keys as usize) * (case.per_key as usize);
    let mut d: Vec<ReplicationDelta> = Vec::with_capacity(n);
    let mut keys: Vec<(String, bool)> = Vec::with_capacity(case.keys as usize);
    for k in 0..case.keys {
        let is_hash = k % 7 == 3;
        keys.push((format!("{}:{:06}", if is_hash { "h" } else { "s" }, k), is_hash));
    }
    for round in 0..case.per_key {
        for (i, (key, is_hash)) in keys.iter().enumerate() {
            let sh = worldgen::node_shard(key) as usize;
            let x = (i as u64).wrapping_mul(0x9E3779B97F4A7C15) ^ (round as u64);
            if *is_hash {
                let f = format!("f{}", (x >> 7) % 4);
                d.push(shards[sh].record_hash_write(key.clone(), vec![(f, SDS::new(x.to_le_bytes()[..5].to_vec()))]));
                if x % 11 == 0 {
                    // delete another field (at least the one just written stays alive)
                    if let Some(del) = shards[sh].record_hash_delete(key.clone(), vec![format!("f{}", ((x >> 7) + 1) % 4)]) {
                        d.push(del);
                    }
                }
            } else if x % 23 == 5 && round + 1 == case.per_key {
                shards[sh].record_write(key.clone(), SDS::from_str("doomed"), None);
                if let Some(del) = shards[sh].record_delete(key.clone()) {
                    d.push(del);
                }
            } else {
                let expiry = if x % 9 == 0 { Some(1000 * (1 + x % 1000)) } else { None };
                let val = if case.big_values && i % 50 == 8 {
                    worldgen::Payload::Big { len: 1_500_000 + (i as u32 % 3) * 800_000 + i as u32, seed: i as u8 }.bytes()
                } else {
                    x.to_le_bytes().to_vec()
                };
                d.push(shards[sh].record_write(key.clone(), SDS::new(val), expiry));
            }
        }
    }
    drop(shards);
    let n = d.len();
    let truth = fold(d.iter());
    // ---- store: checkpoint over 4 covered (compacted away) segments, live segments, WAL tail
    let store = InMemoryObjectStore::new();
    let mm = ManifestManager::new(store.clone(), PREFIX);
    let mut manifest = Manifest::new(1);
    let n_ck = (case.in_checkpoint as usize).min(n / 2);
    let n_wal = (case.wal_tail as usize).min(n / 4);
    let mut write_segment = |m: &mut Manifest, id: u64, part: &[ReplicationDelta]| -> Result<(), String> {
        let mut w = SegmentWriter::new(Compression::None);
        for x in part {
            w.write_delta(x).map_err(|e| e.to_string())?;
        }
        let img = w.finish().map_err(|e| e.to_string())?;
        let key = format!("{}/segments/segment-{:08}.seg", PREFIX, id);
        ready(store.put(&key, &img)).map_err(|e| e.to_string())?;
        m.add_segment(SegmentInfo {
            id,
            key,
            record_count: part.len() as u32,
            size_bytes: img.len() as u64,
            min_timestamp: part.iter().map(|x| x.value.timestamp.time).min().unwrap_or(0),
            max_timestamp: part.iter().map(|x| x.value.timestamp.time).max().unwrap_or(0),
        });
        Ok(())
    };
    let covered = 4usize;
    for (j, part) in d[..n_ck].chunks(n_ck.div_ceil(covered).max(1)).enumerate() {
        write_segment(&mut manifest, j as u64, part)?;
    }
    let last_covered = manifest.segments.last().map(|s| s.id).unwrap_or(0);
    let live = &d[n_ck..n - n_wal];
    let per = live.len().div_ceil(case.segments.max(1) as usize).max(1);
    for (j, part) in live.chunks(per).enumerate() {
        write_segment(&mut manifest, last_covered + 1 + j as u64, part)?;
    }
    let ck_state: HashMap<String, ReplicatedValue> = fold(d[..n_ck].iter()).into_iter().collect();
    let ck_keys = ck_state.len();
    let img = CheckpointWriter::new(Compression::None)
        .write(ck_state, 1, last_covered)
        .map_err(|e| e.to_string())?;
    let ck_key = format!("{}/checkpoints/chk-{:016}.chk", PREFIX, 1);
    ready(store.put(&ck_key, &img)).map_err(|e| e.to_string())?;
    let gone: Vec<String> = manifest.segments.iter().filter(|s| s.id <= last_covered).map(|s| s.key.clone()).collect();
    manifest.compact_segments(CheckpointInfo {
        key: ck_key,
        timestamp_ms: 1,
        key_count: ck_keys as u64,
        last_segment_id: last_covered,
    });
    for k in gone {
        ready(store.delete(&k)).map_err(|e| e.to_string())?;
    }
    ready(mm.save(&manifest)).map_err(|e| e.to_string())?;
    // WAL: the tail that was never streamed + an overlap with the last live segment
    let wal = InMemoryWalStore::new();
    {
        // 16 MiB files: small entries follow a big one inside the same file
        let mut rot = WalRotator::new(wal.clone(), 16 << 20).map_err(|e| e.to_string())?;
        let from = (n - n_wal).saturating_sub(500).max(n_ck);
        if case.big_values {
            let big_wal_only = d[n - n_wal..]
                .iter()
                .filter(|x| x.value.get().map(|v| v.len() > (1 << 20)).unwrap_or(false))
                .count();
            if big_wal_only == 0 || d[n - 1].value.get().map(|v| v.len() > 64).unwrap_or(false) {
                return Err("harness: no value above 1 MiB that is only in the WAL and followed by a small entry".into());
            }
        }
        for x in &d[from..] {
            let e = WalEntry::from_delta(x, x.value.timestamp.time).map_err(|e| e.to_string())?;
            rot.append(&e).map_err(|e| e.to_string())?;
        }
        rot.sync().map_err(|e| e.to_string())?;
    }
    drop(d);

    // ---- the server's start-up sequence into a fresh node
    let body = async {
        let node = ReplicatedShardedState::new(ReplicationConfig::default());
        let integ = StreamingIntegration::with_store(Arc::new(store.clone()), streaming_config(), 1);
        let stats = integ.recover(&node).await.map_err(|e| format!("StreamingIntegration::recover: {}", e))?;
        let rot = WalRotator::new(wal.clone(), 1 << 20).map_err(|e| e.to_string())?;
        let entries = rot.recover_all_entries().map_err(|e| format!("WAL replay: {}", e))?;
        let deltas: Vec<ReplicationDelta> = entries.iter().filter_map(|e| e.to_delta().ok()).collect();
        let wal_n = deltas.len();
        node.apply_recovered_state(None, deltas);
        let snapshot: State = node.snapshot_state().await.into_iter().collect();
        // sampled reads + DBSIZE
        let mut sampled = Vec::new();
        for (i, (k, h)) in keys.iter().enumerate() {
            if i % 97 == 0 || keys.len() <= 1000 {
                let c = vcore::resp::parse_zc(&[if *h { b"HGETALL".to_vec() } else { b"GET".to_vec() }, k.as_bytes().to_vec()])?;
                let r = Reply::from_resp(&node.execute(c).await);
                sampled.push((i, if *h { r.sorted_pairs() } else { r }));
            }
        }
        // number of keys the executors hold (KEYS *; DBSIZE answers 0 on a ReplicatedShardedState:
        // DbSize is not among the commands CommandExecutor::execute_readonly supports - not C11's)
        let dbsize = match Reply::from_resp(&node.execute(vcore::resp::parse_zc(&[b"KEYS".to_vec(), b"*".to_vec()])?).await) {
            Reply::Array(a) => Reply::Int(a.len() as i64),
            other => other,
        };
        Ok::<_, String>((stats, wal_n, snapshot, sampled, dbsize))
    };
    let (stats, wal_n, snapshot, sampled, dbsize) = if case.multi_thread {
        let rt = tokio::runtime::Builder::new_multi_thread()
            .worker_threads(4)
            .enable_all()
            .build()
            .map_err(|e| e.to_string())?;
        let out = rt.block_on(body);
        drop(rt);
        out?
    } else {
        vcore::block_on(body)?
    };
    ctx.add_evaluations((stats.deltas_replayed as usize + ck_keys + wal_n) as u64);
    ctx.label(if case.multi_thread { "multi_thread_runtime" } else { "current_thread_runtime" });
    ctx.label(if case.big_values { "values_above_1_mib" } else if case.per_key > 1 { "many_updates_per_key" } else { "many_keys" });

    // ---- the node holds exactly the merge of what was persisted
    let (want, got) = (state_sum(&truth), state_sum(&snapshot));
    if want != got {
        let (mut missing, mut differing, mut example) = (0usize, 0usize, None);
        for (k, v) in &truth {
            match snapshot.get(k) {
                None => {
                    missing += 1;
                    example.get_or_insert_with(|| format!("key {:?} is missing", k));
                }
                Some(g) if entry_sum(k, g) != entry_sum(k, v) => {
                    differing += 1;
                    example.get_or_insert_with(|| {
                        format!("key {:?}: persisted {} but the node holds {}", k, worldgen::access_view(v)["crdt"], worldgen::access_view(g)["crdt"])
                    });
                }
                _ => {}
            }
        }
        return Err(format!(
            "after StreamingIntegration::recover ({} deltas from {} segments reported replayed, {} checkpoint keys) + WAL replay ({} entries) on a {} runtime, snapshot_state() holds {} keys (checksum {:016x}) but {} keys were persisted (checksum {:016x}): {} keys missing, {} keys with older/different content; e.g. {}",
            stats.deltas_replayed, stats.segments_loaded, ck_keys, wal_n,
            if case.multi_thread { "multi-thread" } else { "current-thread" },
            got.0, got.1, want.0, want.1, missing, differing, example.unwrap_or_default()
        ));
    }
    for (i, g) in &sampled {
        let (k, h) = &keys[*i];
        let w = expected_answer(&truth, k, *h);
        if w != *g {
            return Err(format!("{} {:?} answers {} but the merge of what is persisted is {}", if *h { "HGETALL" } else { "GET" }, k, g.show(), w.show()));
        }
    }
    let visible = keys
        .iter()
        .filter(|(k, h)| !matches!(expected_answer(&truth, k, *h), Reply::Nil) && expected_answer(&truth, k, *h) != Reply::Array(vec![]))
        .count();
    if dbsize != Reply::Int(visible as i64) {
        return Err(format!("KEYS * lists {} keys but {} persisted keys are visible", dbsize.show(), visible));
    }
    ctx.nontrivial(case);
    Ok(())
}

// ---------------------------------------------------------------------------------------
// recovery racing with a concurrent writer of the same store
// ---------------------------------------------------------------------------------------

type IoRes<T> = std::io::Result<T>;
type Action = Box<dyn FnOnce() + Send>;

struct RaceCtl {
    calls: usize,
    /// the action runs immediately BEFORE the store call with this 1-based index (0 = never)
    fire_at: usize,
    action: Option<Action>,
    log: Vec<String>,
}

/// Harness-owned ObjectStore the recovering process sees: counts its store calls and lets a
/// concurrent writer (working on the inner store directly) run at one chosen call index.
#[derive(Clone)]
struct RaceStore {
    inner: InMemoryObjectStore,
    ctl: Arc<Mutex<RaceCtl>>,
}

impl RaceStore {
    fn new(inner: InMemoryObjectStore, fire_at: usize, action: Option<Action>) -> Self {
        RaceStore {
            inner,
            ctl: Arc::new(Mutex::new(RaceCtl {
                calls: 0,
                fire_at,
                action,
                log: Vec::new(),
            })),
        }
    }
    fn tick(&self, what: &str, key: &str) {
        let act = {
            let mut c = self.ctl.lock().unwrap();
            c.calls += 1;
            c.log.push(format!("{} {}", what, key));
            if c.calls == c.fire_at {
                c.action.take()
            } else {
                None
            }
        };
        if let Some(a) = act {
            a();
        }
    }
    fn calls(&self) -> usize {
        self.ctl.lock().unwrap().calls
    }
    fn log(&self) -> Vec<String> {
        self.ctl.lock().unwrap().log.clone()
    }
}

impl ObjectStore for RaceStore {
    fn put<'a>(&'a self, key: &'a str, data: &'a [u8]) -> Pin<Box<dyn Future<Output = IoRes<()>> + Send + 'a>> {
        Box::pin(async move {
            self.tick("put", key);
            self.inner.put(key, data).await
        })
    }
    fn get<'a>(&'a self, key: &'a str) -> Pin<Box<dyn Future<Output = IoRes<Vec<u8>>> + Send + 'a>> {
        Box::pin(async move {
            self.tick("get", key);
            self.inner.get(key).await
        })
    }
    fn exists<'a>(&'a self, key: &'a str) -> Pin<Box<dyn Future<Output = IoRes<bool>> + Send + 'a>> {
        Box::pin(async move {
            self.tick("exists", key);
            self.inner.exists(key).await
        })
    }
    fn delete<'a>(&'a self, key: &'a str) -> Pin<Box<dyn Future<Output = IoRes<()>> + Send + 'a>> {
        Box::pin(async move {
            self.tick("delete", key);
            self.inner.delete(key).await
        })
    }
    fn list<'a>(
        &'a self,
        prefix: &'a str,
        continuation_token: Option<&'a str>,
    ) -> Pin<Box<dyn Future<Output = IoRes<ListResult>> + Send + 'a>> {
        Box::pin(async move {
            self.tick("list", prefix);
            self.inner.list(prefix, continuation_token).await
        })
    }
    fn rename<'a>(&'a self, from: &'a str, to: &'a str) -> Pin<Box<dyn Future<Output = IoRes<()>> + Send + 'a>> {
        Box::pin(async move {
            self.tick("rename", from);
            self.inner.rename(from, to).await
        })
    }
    fn head<'a>(&'a self, key: &'a str) -> Pin<Box<dyn Future<Output = IoRes<ObjectMeta>> + Send + 'a>> {
        Box::pin(async move {
            self.tick("head", key);
            self.inner.head(key).await
        })
    }
}

// ---------------------------------------------------------------------------------------
// recovery under ONE failing or damaged read (enumerated over every store call of the recovery)
// ---------------------------------------------------------------------------------------

#[derive(Clone, Copy, Debug, PartialEq, Eq)]
enum ReadFault {
    /// the call fails with this error kind
    Fail(std::io::ErrorKind),
    /// a `get` succeeds but one bit of the returned bytes is flipped (byte index = fraction/1024 of the length)
    FlipBit(u16),
    /// a `get` succeeds but returns only the first fraction/1024 of the bytes
    Truncate(u16),
}

struct FaultCtl {
    calls: usize,
    /// 1-based index of the call that is hit (0 = none)
    fire_at: usize,
    fault: ReadFault,
    log: Vec<String>,
    hit: Option<String>,
}

/// Harness-owned ObjectStore the recovering process sees: read-only calls pass through to the
/// inner store; the call with index `fire_at` fails or (for `get`) returns damaged bytes.
#[derive(Clone)]
struct FaultStore {
    inner: InMemoryObjectStore,
    ctl: Arc<Mutex<FaultCtl>>,
}

impl FaultStore {
    fn new(inner: InMemoryObjectStore, fire_at: usize, fault: ReadFault) -> Self {
        FaultStore {
            inner,
            ctl: Arc::new(Mutex::new(FaultCtl { calls: 0, fire_at, fault, log: Vec::new(), hit: None })),
        }
    }
    /// Some(fault) if this call is the one to hit
    fn tick(&self, what: &str, key: &str) -> Option<ReadFault> {
        let mut c = self.ctl.lock().unwrap();
        c.calls += 1;
        c.log.push(format!("{} {}", what, key));
        if c.calls == c.fire_at {
            c.hit = Some(format!("{} {}", what, key));
            Some(c.fault)
        } else {
            None
        }
    }
    fn fail(&self, what: &str, key: &str) -> Option<std::io::Error> {
        match self.tick(what, key) {
            Some(ReadFault::Fail(k)) => Some(std::io::Error::new(k, "injected read fault")),
            _ => None,
        }
    }
    fn log(&self) -> Vec<String> {
        self.ctl.lock().unwrap().log.clone()
    }
    fn hit(&self) -> Option<String> {
        self.ctl.lock().unwrap().hit.clone()
    }
}

impl ObjectStore for FaultStore {
    fn put<'a>(&'a self, key: &'a str, data: &'a [u8]) -> Pin<Box<dyn Future<Output = IoRes<()>> + Send + 'a>> {
        Box::pin(async move {
            if let Some(e) = self.fail("put", key) {
                return Err(e);
            }
            self.inner.put(key, data).await
        })
    }
    fn get<'a>(&'a self, key: &'a str) -> Pin<Box<dyn Future<Output = IoRes<Vec<u8>>> + Send + 'a>> {
        Box::pin(async move {
            match self.tick("get", key) {
                Some(ReadFault::Fail(k)) => Err(std::io::Error::new(k, "injected read fault")),
                Some(ReadFault::FlipBit(f)) => {
                    let mut data = self.inner.get(key).await?;
                    if !data.is_empty() {
                        let i = (f as usize * data.len() / 1024).min(data.len() - 1);
                        data[i] ^= 1 << (f % 8);
                    }
                    Ok(data)
                }
                Some(ReadFault::Truncate(f)) => {
                    let mut data = self.inner.get(key).await?;
                    let keep = (f as usize * data.len() / 1024).min(data.len().saturating_sub(1));
                    data.truncate(keep);
                    Ok(data)
                }
                None => self.inner.get(key).await,
            }
        })
    }
    fn exists<'a>(&'a self, key: &'a str) -> Pin<Box<dyn Future<Output = IoRes<bool>> + Send + 'a>> {
        Box::pin(async move {
            if let Some(e) = self.fail("exists", key) {
                return Err(e);
            }
            self.inner.exists(key).await
        })
    }
    fn delete<'a>(&'a self, key: &'a str) -> Pin<Box<dyn Future<Output = IoRes<()>> + Send + 'a>> {
        Box::pin(async move {
            if let Some(e) = self.fail("delete", key) {
                return Err(e);
            }
            self.inner.delete(key).await
        })
    }
    fn list<'a>(
        &'a self,
        prefix: &'a str,
        continuation_token: Option<&'a str>,
    ) -> Pin<Box<dyn Future<Output = IoRes<ListResult>> + Send + 'a>> {
        Box::pin(async move {
            if let Some(e) = self.fail("list", prefix) {
                return Err(e);
            }
            self.inner.list(prefix, continuation_token).await
        })
    }
    fn rename<'a>(&'a self, from: &'a str, to: &'a str) -> Pin<Box<dyn Future<Output = IoRes<()>> + Send + 'a>> {
        Box::pin(async move {
            if let Some(e) = self.fail("rename", from) {
                return Err(e);
            }
            self.inner.rename(from, to).await
        })
    }
    fn head<'a>(&'a self, key: &'a str) -> Pin<Box<dyn Future<Output = IoRes<ObjectMeta>> + Send + 'a>> {
        Box::pin(async move {
            if let Some(e) = self.fail("head", key) {
                return Err(e);
            }
            self.inner.head(key).await
        })
    }
}

/// For every store call a fault-free recovery makes, and for each read fault (a time-out on any
/// call, NotFound on any object the manifest names; a flipped bit at three places and a truncation on a `get` of a segment or checkpoint
/// object — the manifest is plain JSON without a checksum, damaging it is not covered by any
/// listed property): the recovery must either fail or return exactly the merge a fault-free
/// recovery returns. "Ok with less" is the violation: a recovery that swallows a failed read
/// hands the node a state that silently lacks persisted updates.
fn check_recovery_under_read_faults(
    name: &str,
    b: &Built,
    truth_store: &State,
    truth_all: Option<&State>,
    modulo: bool,
    ctx: &mut CaseCtx<'_>,
) -> Result<(), String> {
    let probe = FaultStore::new(b.store.clone(), 0, ReadFault::Fail(std::io::ErrorKind::Other));
    let mgr = RecoveryManager::new(probe.clone(), PREFIX, 1);
    ready(mgr.recover()).map_err(|e| format!("arrangement {}: fault-free recover() through the counting store: {}", name, e))?;
    let calls = probe.log();
    let mut evals = 0u64;
    for (i, call) in calls.iter().enumerate() {
        let is_get = call.starts_with("get ");
        let on_image = is_get && !call.contains("manifest");
        // NotFound on the manifest itself is indistinguishable from "a new, empty store" (which
        // load_or_create must answer with an empty manifest), so it is only injected on objects
        // the manifest names: there a missing object is a lost object.
        let mut faults = vec![ReadFault::Fail(std::io::ErrorKind::TimedOut)];
        if !call.contains("manifest") {
            faults.push(ReadFault::Fail(std::io::ErrorKind::NotFound));
        }
        if on_image {
            faults.extend([ReadFault::FlipBit(52), ReadFault::FlipBit(517), ReadFault::FlipBit(1019), ReadFault::Truncate(700)]);
        }
        for fault in faults {
            for with_wal in [false, true] {
                let truth = if with_wal {
                    match truth_all {
                        Some(t) => t,
                        None => continue,
                    }
                } else {
                    truth_store
                };
                let fs = FaultStore::new(b.store.clone(), i + 1, fault);
                let mgr = RecoveryManager::new(fs.clone(), PREFIX, 1);
                let res = if with_wal {
                    let rot = WalRotator::new(b.wal.clone(), 1 << 20).map_err(|e| format!("WalRotator::new: {}", e))?;
                    ready(mgr.recover_with_wal(&rot))
                } else {
                    ready(mgr.recover())
                };
                evals += 1;
                if fs.hit().is_none() {
                    continue; // the faulted run took another path and never made that call
                }
                if let Ok(rs) = res {
                    let got = fold_recovered(&rs);
                    if let Some(diff) = diff_states(truth, &got, modulo) {
                        return Err(format!(
                            "arrangement {}: {} returned Ok although store call #{} ({}) was hit by {:?}, and the state it returned is not the merge of what is persisted: a failed or damaged read was swallowed\n    {}\n  calls of the fault-free recovery: {:?}\n  manifest: {}",
                            name,
                            if with_wal { "recover_with_wal()" } else { "recover()" },
                            i + 1,
                            call,
                            fault,
                            diff,
                            calls,
                            serde_json::to_string(&b.manifest).unwrap_or_default()
                        ));
                    }
                    ctx.label("read_fault:recovery_ok_and_complete");
                } else {
                    ctx.label("read_fault:recovery_failed");
                }
                if call.contains("checkpoint") {
                    ctx.label("read_fault:on_checkpoint_object");
                }
            }
        }
    }
    ctx.add_evaluations(evals);
    Ok(())
}

#[derive(Clone, Debug, Serialize, Deserialize, Hash)]
enum Writer {
    /// the real Compactor::compact (merges the lowest-id segments into a new one, deletes them)
    Compact { max_per_compaction: u8 },
    /// a StreamingPersistence::flush of `n` late updates (new keys and a newer write of an old key)
    Flush { n: u8 },
    /// a checkpoint of the node's whole state covering the first `covers` listed segments,
    /// Manifest::compact_segments + save, optionally deleting what it covers
    Checkpoint { covers: u8, delete_objects: bool },
}

#[derive(Clone, Debug, Serialize, Deserialize, Hash)]
struct RaceCase {
    world: WorldSpec,
    arr: Arrangement,
    writers: Vec<Writer>,
}

fn race_case() -> impl Strategy<Value = RaceCase> {
    let writer = prop_oneof![
        3 => (2u8..=6).prop_map(|m| Writer::Compact { max_per_compaction: m }),
        1 => (1u8..=3).prop_map(|n| Writer::Flush { n }),
        2 => (any::<u8>(), any::<bool>()).prop_map(|(covers, delete_objects)| Writer::Checkpoint { covers, delete_objects }),
    ];
    (
        worldgen::world(GenCfg { max_ops: 14, ..world_cfg() }),
        arrangement(),
        proptest::collection::vec(writer, 1..=3),
    )
        .prop_map(|(world, mut arr, writers)| {
            // the race is about segments: bias towards several of them
            if arr.n_segments < 2 {
                arr.n_segments += 2;
            }
            RaceCase { world, arr, writers }
        })
}

/// The concurrent writer, acting on the inner store like another process would.
fn writer_action(w: &Writer, store: &InMemoryObjectStore, d: &[ReplicationDelta]) -> Action {
    let store = store.clone();
    let w = w.clone();
    let full_state: HashMap<String, ReplicatedValue> = fold(d.iter()).into_iter().collect();
    let max_time = d.iter().map(|x| x.value.timestamp.time).max().unwrap_or(0).min(u64::MAX - 1000);
    let first_key = d.first().map(|x| (x.key.clone(), x.value.is_hash()));
    Box::new(move || {
        let mm = ManifestManager::new(store.clone(), PREFIX);
        match w {
            Writer::Compact { max_per_compaction } => {
                let mut c = Compactor::with_time_source(
                    Arc::new(store.clone()),
                    PREFIX.to_string(),
                    mm,
                    CompactionConfig {
                        target_segment_size: 1 << 30,
                        max_segments: 2,
                        min_segments_to_compact: 2,
                        max_segments_per_compaction: max_per_compaction as usize,
                        tombstone_ttl: std::time::Duration::from_secs(3600),
                        compression_enabled: false,
                    },
                    // clock 0: no tombstone is collected (tombstone GC is C13's business)
                    VerifTime::new(0),
                );
                let _ = ready(c.compact());
            }
            Writer::Flush { n } => {
                if let Ok(mut sp) = ready(StreamingPersistence::with_clock(
                    Arc::new(store.clone()),
                    PREFIX.to_string(),
                    1,
                    WriteBufferConfig::test(),
                    SimulatedClock::new(0),
                )) {
                    for i in 0..n as u64 {
                        let _ = sp.push(delta(&format!("late:{}", i), "late", max_time + 1 + i, 1));
                    }
                    if let Some((k, false)) = &first_key {
                        let _ = sp.push(delta(k, "late-overwrite", max_time + 50, 1));
                    }
                    let _ = ready(sp.flush());
                }
            }
            Writer::Checkpoint { covers, delete_objects } => {
                let Ok(mut m) = ready(mm.load()) else { return };
                if m.segments.is_empty() {
                    return;
                }
                let c = 1 + ((covers as usize * m.segments.len()) >> 8);
                let last_id = m.segments[c - 1].id;
                let ts = m.checkpoint.as_ref().map(|c| c.timestamp_ms + 1).unwrap_or(7);
                let key = format!("{}/checkpoints/chk-{:016}.chk", PREFIX, ts);
                let Ok(img) = CheckpointWriter::new(Compression::None).write(full_state.clone(), ts, last_id) else {
                    return;
                };
                if ready(store.put(&key, &img)).is_err() {
                    return;
                }
                let mut gone: Vec<String> = m.segments.iter().filter(|s| s.id <= last_id).map(|s| s.key.clone()).collect();
                if let Some(old) = &m.checkpoint {
                    gone.push(old.key.clone());
                }
                m.compact_segments(CheckpointInfo {
                    key,
                    timestamp_ms: ts,
                    key_count: full_state.len() as u64,
                    last_segment_id: last_id,
                });
                if ready(mm.save(&m)).is_err() {
                    return;
                }
                if delete_objects {
                    for k in gone {
                        let _ = ready(store.delete(&k));
                    }
                }
            }
        }
    })
}

/// `got` must hold at least `truth`: merging truth into it changes nothing, for every key.
fn missing_from(truth: &State, got: &State, modulo: bool) -> Option<String> {
    for (k, t) in truth {
        match got.get(k) {
            None => return Some(format!("key {:?}: persisted ({}) but missing", k, client_view(t))),
            Some(g) => {
                let merged = g.merge(t);
                if peer(&merged, modulo) != peer(g, modulo) || client_view(&merged) != client_view(g) {
                    return Some(format!(
                        "key {:?}: the recovered value does not include what was persisted\n      persisted: {}\n      recovered: {}",
                        k, peer(t, modulo), peer(g, modulo)
                    ));
                }
            }
        }
    }
    None
}

#[derive(Clone, Copy, PartialEq, Debug)]
enum Entry {
    Recover,
    Progress,
    WithWal,
}

fn run_entry(entry: Entry, store: &RaceStore, wal: &InMemoryWalStore) -> Result<RecoveredState, String> {
    let mgr = RecoveryManager::new(store.clone(), PREFIX, 1);
    match entry {
        Entry::Recover => ready(mgr.recover()).map_err(|e| e.to_string()),
        Entry::Progress => ready(mgr.recover_with_progress(|_| {})).map_err(|e| e.to_string()),
        Entry::WithWal => {
            let rot = WalRotator::new(wal.clone(), 1 << 20).map_err(|e| e.to_string())?;
            ready(mgr.recover_with_wal(&rot)).map_err(|e| e.to_string())
        }
    }
}

fn check_race(case: &RaceCase, ctx: &mut CaseCtx<'_>) -> Result<(), String> {
    let (d, _) = worldgen::run(&case.world);
    if d.is_empty() {
        return Ok(());
    }
    let modulo = ctx.finding_open(KF_OUTER_STAMP);
    // undisturbed run: counts the store calls of recovery and fixes the ground truth
    let b0 = build(&d, &case.arr).map_err(|e| format!("harness: {}", e))?;
    let persisted_store: BTreeSet<usize> = b0.in_checkpoint.union(&b0.in_live_segments).copied().collect();
    let truth_store = fold(persisted_store.iter().map(|&i| &d[i]));
    let truth_all = fold(d.iter());
    let quiet = RaceStore::new(b0.store.clone(), 0, None);
    let r0 = run_entry(Entry::Recover, &quiet, &b0.wal).map_err(|e| format!("undisturbed recover(): {}", e))?;
    if let Some(diff) = diff_states(&truth_store, &fold_recovered(&r0), modulo) {
        return Err(format!("undisturbed recover() is not the merge of what is persisted (see 'layouts'): {}", diff));
    }
    let n_calls = quiet.calls();
    let listed = b0.manifest.segments.len();
    ctx.label(match listed {
        0 => "race_listed_segments_0",
        1 => "race_listed_segments_1",
        2..=3 => "race_listed_segments_2_3",
        _ => "race_listed_segments_4_plus",
    });
    let mut evals = 0u64;
    let mut nontrivial = false;
    for w in &case.writers {
        for fire_at in 1..=n_calls + 1 {
            for entry in [Entry::Recover, Entry::Progress, Entry::WithWal] {
                let b = build(&d, &case.arr).map_err(|e| format!("harness: {}", e))?;
                let store = RaceStore::new(b.store.clone(), fire_at, Some(writer_action(w, &b.store, &d)));
                let truth = if entry == Entry::WithWal { &truth_all } else { &truth_store };
                let out = run_entry(entry, &store, &b.wal);
                evals += 1;
                let fired = store.ctl.lock().unwrap().action.is_none();
                let describe = || {
                    format!(
                        "{:?} running while recovery ({:?}) is between store calls: it ran before call #{} of [{}]",
                        w, entry, fire_at, store.log().join(", ")
                    )
                };
                match out {
                    Ok(rs) => {
                        if let Some(what) = missing_from(truth, &fold_recovered(&rs), modulo) {
                            return Err(format!(
                                "recovery returned Ok with persisted updates missing.\n  {}\n    {}\n  manifest recovery worked from: {}",
                                describe(), what, serde_json::to_string(&rs.manifest).unwrap_or_default()
                            ));
                        }
                        ctx.label(if fired { "race_ok_complete" } else { "race_writer_after_last_call" });
                    }
                    Err(e) => {
                        // an error is acceptable if a retry on the now quiet store sees everything
                        let again = run_entry(entry, &RaceStore::new(b.store.clone(), 0, None), &b.wal)
                            .map_err(|e2| format!("recovery failed ({}) and the undisturbed retry failed too: {}\n  {}", e, e2, describe()))?;
                        if let Some(what) = missing_from(truth, &fold_recovered(&again), modulo) {
                            return Err(format!(
                                "recovery failed ({}); the undisturbed retry returned Ok with persisted updates missing.\n  {}\n    {}",
                                e, describe(), what
                            ));
                        }
                        ctx.label("race_err_then_retry_complete");
                    }
                }
                if fired && fire_at >= 2 && fire_at <= n_calls && listed >= 2 {
                    nontrivial = true;
                }
            }
        }
        ctx.label(match w {
            Writer::Compact { .. } => "race_writer_compaction",
            Writer::Flush { .. } => "race_writer_flush",
            Writer::Checkpoint { delete_objects: true, .. } => "race_writer_checkpoint_deleting",
            Writer::Checkpoint { .. } => "race_writer_checkpoint",
        });
    }
    ctx.add_evaluations(evals);
    if nontrivial {
        ctx.nontrivial(case);
    }
    Ok(())
}

fn delta(key: &str, val: &str, time: u64, replica: u64) -> ReplicationDelta {
    ReplicationDelta::new(
        key.to_string(),
        ReplicatedValue::with_value(
            SDS::from_str(val),
            LamportClock {
                time,
                replica_id: ReplicaId::new(replica),
            },
        ),
        ReplicaId::new(replica),
    )
}

fn main() {
    let args = vcore::parse_args();
    let s = Session::new(
        "C11",
        Level::Exploration,
        "a case = ground-truth updates (<= 25 ops: SET incl. expiry, DEL, HSET, HDEL, gossip between replicas, remote far-ahead stamps) emitted through ShardReplicaState by 1-3 replicas x 16 shard clocks, \
         string keys and hash keys disjoint (no type flips), plus two independent arrangements of the same updates into checkpoint (fold of the covered segments + a generated subset; manifest compacted or not) / \
         0-6 segments (StreamingPersistence::push+flush or SegmentWriter+Manifest::add_segment with id gaps; duplicates within and across segments; generated order) / WAL files (WalRotator over InMemoryWalStore, overlapping the store or not). \
         40 % of the arrangements truncate the WAL (WalRotator::truncate_before, sound mark, running or restarted rotator) and crash before recovery. \
         maintenance: a causal layout (per key, segments in id order then the WAL hold the updates in stamp order) + 1-2 real compaction passes with a generated tombstone horizon, the first with max_segments_per_compaction 2-4; non-trivial = a pass left segments out and tombstones were collected. \
         race: one arrangement + 1-3 concurrent writers fired before every store call index of recover / recover_with_progress / recover_with_wal. \
         non-trivial = (layouts) an arrangement has >= 2 segments with overlapping stamp ranges and >= 1 key present in two containers; (race) the writer ran between the manifest read and the last call, >= 2 listed segments; distinct by the whole case",
        &args,
    );
    s.assume("every update is persisted at least once (segment or WAL); a checkpoint covers >= 1 existing segment and contains at least everything in the segments it covers (the API's precondition)");
    s.assume("ReplicatedValue::merge is the reference fold; its own algebraic laws are C07's (outer-stamp replica id compared only when KF-C07-01 is not open; no type flips on one key, so KF-C07-02 cannot trigger)");
    s.assume("per key, stamps (time, replica) are unique, as Lamport clocks of one shard per replica produce them");
    s.assume("expiries are >= 1 s (what re-application through SETEX can carry); GET/HGETALL are compared, TTLs are not");
    s.assume("in-memory object store and WAL store without faults (faults are C12's/C10's)");
    s.assume("a WAL truncation mark is sound: every update stamped at or below it is in the checkpoint or in a listed segment (a stamp threshold above an unstreamed stamp of another shard clock loses data by design of the interface and is not generated)");
    s.assume("maintenance: tombstone collection is judged only on layouts where it is sound on the unchanged tree - causal per-key order over segment ids, no checkpoint, no segment above the target size, no older copy of an update in a later segment or the WAL, a pass that leaves segments out only as the first pass (otherwise KF-C13-02/-03, C13's open findings); compactor clock = harness clock read against stamps, as the code does; a collected tombstone older than the horizon may be missing only together with every older update of its key");

    // ---- known finding: recover_with_wal's high-water filter
    s.probe(
        KF_WAL,
        json!({
            "segment 0": [["a", "streamed", 10, 1]],
            "wal": [["a", "streamed", 10, 1], ["b", "not-yet-streamed", 3, 1]],
            "expected": "recover_with_wal() returns both keys", "observed": "key b is missing"
        }),
        || {
            let d = vec![delta("a", "streamed", 10, 1), delta("b", "not-yet-streamed", 3, 1)];
            let arr = Arrangement {
                n_segments: 1,
                // update 0 -> segment 0 and also WAL; update 1 -> WAL only
                place: vec![0x0100, 0x00ff],
                checkpoint: None,
                via_persistence: true,
                id_gaps: vec![0],
                order: vec![0],
                wal_file_size: 0,
                wal_mode: 0,
                wal_q: 0,
                truncate: None,
                causal: false,
            };
            let b = build(&d, &arr).ok()?;
            let (_, _, _, rw) = recover_all(&b).ok()?;
            let got = fold_recovered(&rw);
            diff_states(&fold(d.iter()), &got, false)
        },
    );

    // ---- observation only (no verdict): a sub-second TTL cannot be re-applied through SETEX
    if !s.is_replay() {
        let mut dl = delta("px", "v", 5, 1);
        dl.value.expiry_ms = Some(500);
        let rs = RecoveredState {
            manifest: Manifest::new(1),
            checkpoint_state: None,
            deltas: vec![dl],
            stats: Default::default(),
        };
        let got = node_answers(1, &rs, &[("px".to_string(), false)], 1);
        s.note(
            "observation_subsecond_expiry",
            json!({
                "what": "recovered update SET px v with expiry_ms=500 applied to a fresh node, then GET px",
                "answer": got.map(|v| v[0].show()).unwrap_or_else(|e| e),
                "verdict": "none - the generator keeps expiries >= 1 s; what a restarted node should do with a relative sub-second TTL is not stated by C11",
            }),
        );
    }

    s.describe_check("layouts", "ground truth x two arrangements; recover / recover_with_progress / recover_with_wal folds, idempotence, node answers");
    s.run_cases("layouts", s.scale(8_000, 600_000), layout, check_layout);
    s.describe_check("boundary", "the boundary layouts (checkpoint only / checkpoint + only older segments / segments only / WAL only / nothing at all / checkpoint covering everything + WAL / empty manifest) through every oracle of 'layouts', incl. the server's start-up sequence (StreamingIntegration::recover + WAL replay, twice) compared by GET/HGETALL/EXISTS/snapshot_state");
    s.run_cases("boundary", s.scale(1_400, 60_000), boundary_case, check_boundary);
    s.describe_check("maintenance", "causal layouts (per key, segments in id order and then the WAL hold the updates in stamp order; no checkpoint) + 1-2 real Compactor::compact passes with a generated tombstone horizon, the first with max_segments_per_compaction 2-4 (mostly fewer than the listed segments), then recover / recover_with_progress / recover_with_wal and the server's start-up sequence: per key the recovered state is the merge of everything persisted, or that merge minus a collected tombstone older than the horizon TOGETHER WITH everything older; a client reads (GET / HGETALL / EXISTS) exactly the merge of everything persisted; non-trivial = a pass left segments out and tombstones were collected");
    s.run_cases("maintenance", s.scale(6_000, 180_000), maint_case, check_maintenance);
    s.describe_check("lifecycle", "1-3 process lifetimes over one store wired as the binary does (recover, start_workers, set_delta_sink, commands, graceful shutdown): what a restarted node serves = what the previous process served last; non-trivial = >= 2 sessions with writes");
    s.run_cases("lifecycle", s.scale(400, 12_000), life_case, check_lifecycle);
    s.describe_check("scale", "fixed size, not work-factor scaled: 70 000 / 100 000 / 150 000 distinct keys (checkpoint of 20-25k keys over compacted segments, 40-60 live segments, a WAL tail) and 100 000 updates on 100 keys, and 200 keys of which four carry 1.5-3 MiB values (one only in the WAL), recovered in one burst through StreamingIntegration::recover + the binary's WAL replay into a fresh node on a current-thread and on a multi-thread runtime; snapshot_state() count + checksum over sorted (key, value, stamps), sampled GET/HGETALL, number of keys listed by KEYS * vs the ground-truth fold");
    s.run_enumerated("scale", scale_cases().into_iter(), check_scale);
    s.describe_check(
        "race",
        "one arrangement; a concurrent writer (real Compactor::compact / StreamingPersistence::flush / checkpoint install + manifest compaction) runs before EVERY store call index of recover(), recover_with_progress() and recover_with_wal(): Err (then an undisturbed retry holds everything) or a state that holds everything persisted before recovery started; non-trivial = the writer ran after the manifest read and before the last call, >= 2 listed segments",
    );
    s.run_cases("race", s.scale(4_000, 120_000), race_case, check_race);
    s.finish();
}
