//! The command grammar the two RESP command parsers implement, written down once more as a
//! table (names, fixed arguments, option keywords with their values, repeating groups), and
//! the frame generators built from it.

use proptest::prelude::*;
use proptest::strategy::BoxedStrategy;
use redis_sim::redis::{RespValue, RespValueZeroCopy};
use serde::{Deserialize, Serialize};
use vcore::resp::Argv;

#[derive(Clone, Copy, Debug)]
pub enum A {
    Key,
    Val,
    Int,
    UInt,
    Float,
    Bound,
    Pat,
    Script,
    NumKeys,
    Tok(&'static [&'static str]),
}
use A::*;

pub struct Opt {
    pub kw: &'static str,
    pub vals: &'static [A],
}

pub struct Spec {
    /// one token, or command + subcommand
    pub name: &'static [&'static str],
    pub fixed: &'static [A],
    pub opts: &'static [Opt],
    /// repeating group (may be empty)
    pub rep: &'static [A],
}

const fn s(name: &'static [&'static str], fixed: &'static [A], opts: &'static [Opt], rep: &'static [A]) -> Spec {
    Spec { name, fixed, opts, rep }
}
const fn o(kw: &'static str, vals: &'static [A]) -> Opt {
    Opt { kw, vals }
}

const NO: &[Opt] = &[];
const SET_OPTS: &[Opt] = &[
    o("NX", &[]),
    o("XX", &[]),
    o("GET", &[]),
    o("EX", &[Int]),
    o("PX", &[Int]),
    o("EXAT", &[Int]),
    o("PXAT", &[Int]),
    o("KEEPTTL", &[]),
    o("IFEQ", &[Val]),
    o("IFGT", &[Val]),
    o("BOGUS", &[]),
];
const GETEX_OPTS: &[Opt] = &[
    o("EX", &[Int]),
    o("PX", &[Int]),
    o("EXAT", &[Int]),
    o("PXAT", &[Int]),
    o("PERSIST", &[]),
    o("BOGUS", &[]),
];
const EXPIRE_OPTS: &[Opt] = &[o("NX", &[]), o("XX", &[]), o("GT", &[]), o("LT", &[]), o("BOGUS", &[])];
const ZADD_OPTS: &[Opt] = &[o("NX", &[]), o("XX", &[]), o("GT", &[]), o("LT", &[]), o("CH", &[]), o("INCR", &[])];
const WITHSCORES: &[Opt] = &[o("WITHSCORES", &[]), o("BOGUS", &[])];
const ZRBS_OPTS: &[Opt] = &[o("WITHSCORES", &[]), o("LIMIT", &[Int, Int]), o("BOGUS", &[])];
const SCAN_OPTS: &[Opt] = &[o("MATCH", &[Pat]), o("COUNT", &[Int]), o("TYPE", &[Val])];
const SORT_OPTS: &[Opt] = &[
    o("STORE", &[Key]),
    o("ALPHA", &[]),
    o("DESC", &[]),
    o("LIMIT", &[Int, Int]),
    o("BY", &[Pat]),
];
const SIDES: &[&str] = &["LEFT", "RIGHT", "left", "UP", ""];

/// Every command name (and subcommand) either parser knows, plus a few neither knows.
pub const SPECS: &[Spec] = &[
    s(&["PING"], &[], NO, &[Val]),
    s(&["INFO"], &[], NO, &[Val]),
    s(&["TIME"], &[], NO, &[]),
    s(&["DBSIZE"], &[], NO, &[]),
    s(&["CONFIG", "GET"], &[Pat], NO, &[]),
    s(&["CONFIG", "SET"], &[Val, Val], NO, &[]),
    s(&["CONFIG", "RESETSTAT"], &[], NO, &[]),
    s(&["CONFIG", "REWRITE"], &[], NO, &[]),
    s(&["SELECT"], &[UInt], NO, &[]),
    s(&["ECHO"], &[Val], NO, &[]),
    s(&["AUTH"], &[Val], NO, &[Val]),
    s(&["ACL", "WHOAMI"], &[], NO, &[]),
    s(&["ACL", "LIST"], &[], NO, &[]),
    s(&["ACL", "USERS"], &[], NO, &[]),
    s(&["ACL", "GETUSER"], &[Val], NO, &[]),
    s(&["ACL", "SETUSER"], &[Val], NO, &[Val]),
    s(&["ACL", "DELUSER"], &[Val], NO, &[Val]),
    s(&["ACL", "CAT"], &[], NO, &[Val]),
    s(&["ACL", "GENPASS"], &[], NO, &[UInt]),
    s(&["ACL", "DRYRUN"], &[Val, Tok(&["GET", "set", "NOSUCH"])], NO, &[Val]),
    s(&["ACL", "LOG"], &[], &[o("RESET", &[])], &[UInt]),
    s(&["ACL", "HELP"], &[], NO, &[]),
    s(&["ACL", "LOAD"], &[], NO, &[]),
    s(&["ACL", "SAVE"], &[], NO, &[]),
    s(&["ACL", "BOGUS"], &[], NO, &[]),
    s(&["FLUSHDB"], &[], &[o("ASYNC", &[])], &[]),
    s(&["FLUSHALL"], &[], &[o("SYNC", &[])], &[]),
    s(&["MULTI"], &[], NO, &[]),
    s(&["EXEC"], &[], NO, &[]),
    s(&["DISCARD"], &[], NO, &[]),
    s(&["WATCH"], &[], NO, &[Key]),
    s(&["UNWATCH"], &[], NO, &[]),
    s(&["EVAL"], &[Script, NumKeys], NO, &[Val]),
    s(&["EVALSHA"], &[Val, NumKeys], NO, &[Val]),
    s(&["SCRIPT", "LOAD"], &[Script], NO, &[]),
    s(&["SCRIPT", "EXISTS"], &[], NO, &[Val]),
    s(&["SCRIPT", "FLUSH"], &[], &[o("ASYNC", &[])], &[]),
    s(&["SCRIPT", "BOGUS"], &[], NO, &[]),
    s(&["GET"], &[Key], NO, &[]),
    s(&["SET"], &[Key, Val], SET_OPTS, &[]),
    s(&["SETEX"], &[Key, Int, Val], NO, &[]),
    s(&["PSETEX"], &[Key, Int, Val], NO, &[]),
    s(&["SETNX"], &[Key, Val], NO, &[]),
    s(&["DEL"], &[], NO, &[Key]),
    s(&["UNLINK"], &[], NO, &[Key]),
    s(&["EXISTS"], &[], NO, &[Key]),
    s(&["TYPE"], &[Key], NO, &[]),
    s(&["KEYS"], &[Pat], NO, &[]),
    s(&["EXPIRE"], &[Key, Int], EXPIRE_OPTS, &[]),
    s(&["PEXPIRE"], &[Key, Int], EXPIRE_OPTS, &[]),
    s(&["EXPIREAT"], &[Key, Int], EXPIRE_OPTS, &[]),
    s(&["PEXPIREAT"], &[Key, Int], EXPIRE_OPTS, &[]),
    s(&["TTL"], &[Key], NO, &[]),
    s(&["PTTL"], &[Key], NO, &[]),
    s(&["EXPIRETIME"], &[Key], NO, &[]),
    s(&["PEXPIRETIME"], &[Key], NO, &[]),
    s(&["PERSIST"], &[Key], NO, &[]),
    s(&["INCR"], &[Key], NO, &[]),
    s(&["DECR"], &[Key], NO, &[]),
    s(&["INCRBY"], &[Key, Int], NO, &[]),
    s(&["DECRBY"], &[Key, Int], NO, &[]),
    s(&["INCRBYFLOAT"], &[Key, Float], NO, &[]),
    s(&["APPEND"], &[Key, Val], NO, &[]),
    s(&["GETSET"], &[Key, Val], NO, &[]),
    s(&["GETDEL"], &[Key], NO, &[]),
    s(&["GETEX"], &[Key], GETEX_OPTS, &[]),
    s(&["STRLEN"], &[Key], NO, &[]),
    s(&["GETRANGE"], &[Key, Int, Int], NO, &[]),
    s(&["SUBSTR"], &[Key, Int, Int], NO, &[]),
    s(&["SETRANGE"], &[Key, Int, Val], NO, &[]),
    s(&["SETBIT"], &[Key, UInt, Int], NO, &[]),
    s(&["GETBIT"], &[Key, UInt], NO, &[]),
    s(&["MGET"], &[], NO, &[Key]),
    s(&["MSET"], &[], NO, &[Key, Val]),
    s(&["MSETNX"], &[], NO, &[Key, Val]),
    s(&["LPUSH"], &[Key], NO, &[Val]),
    s(&["RPUSH"], &[Key], NO, &[Val]),
    s(&["LPOP"], &[Key], NO, &[UInt]),
    s(&["RPOP"], &[Key], NO, &[UInt]),
    s(&["LRANGE"], &[Key, Int, Int], NO, &[]),
    s(&["LLEN"], &[Key], NO, &[]),
    s(&["LINDEX"], &[Key, Int], NO, &[]),
    s(&["LSET"], &[Key, Int, Val], NO, &[]),
    s(&["LTRIM"], &[Key, Int, Int], NO, &[]),
    s(&["RPOPLPUSH"], &[Key, Key], NO, &[]),
    s(&["LMOVE"], &[Key, Key, Tok(SIDES), Tok(SIDES)], NO, &[]),
    s(&["SADD"], &[Key], NO, &[Val]),
    s(&["SREM"], &[Key], NO, &[Val]),
    s(&["SMEMBERS"], &[Key], NO, &[]),
    s(&["SISMEMBER"], &[Key, Val], NO, &[]),
    s(&["SCARD"], &[Key], NO, &[]),
    s(&["SPOP"], &[Key], NO, &[Int]),
    s(&["HSET"], &[Key], NO, &[Val, Val]),
    s(&["HGET"], &[Key, Val], NO, &[]),
    s(&["HGETALL"], &[Key], NO, &[]),
    s(&["HINCRBY"], &[Key, Val, Int], NO, &[]),
    s(&["HDEL"], &[Key], NO, &[Val]),
    s(&["HKEYS"], &[Key], NO, &[]),
    s(&["HVALS"], &[Key], NO, &[]),
    s(&["HLEN"], &[Key], NO, &[]),
    s(&["HEXISTS"], &[Key, Val], NO, &[]),
    s(&["ZADD"], &[Key], ZADD_OPTS, &[Float, Val]),
    s(&["ZREM"], &[Key], NO, &[Val]),
    s(&["ZRANGE"], &[Key, Int, Int], WITHSCORES, &[]),
    s(&["ZREVRANGE"], &[Key, Int, Int], WITHSCORES, &[]),
    s(&["ZSCORE"], &[Key, Val], NO, &[]),
    s(&["ZRANK"], &[Key, Val], NO, &[]),
    s(&["ZCARD"], &[Key], NO, &[]),
    s(&["ZCOUNT"], &[Key, Bound, Bound], NO, &[]),
    s(&["ZRANGEBYSCORE"], &[Key, Bound, Bound], ZRBS_OPTS, &[]),
    s(&["SCAN"], &[UInt], SCAN_OPTS, &[]),
    s(&["HSCAN"], &[Key, UInt], SCAN_OPTS, &[]),
    s(&["ZSCAN"], &[Key, UInt], SCAN_OPTS, &[]),
    s(&["FUNCTION", "FLUSH"], &[], &[o("ASYNC", &[])], &[]),
    s(&["FUNCTION", "LIST"], &[], NO, &[]),
    s(&["COMMAND"], &[], NO, &[]),
    s(&["COMMAND", "COUNT"], &[], NO, &[]),
    s(&["COMMAND", "DOCS"], &[], NO, &[Val]),
    s(&["CLIENT", "SETNAME"], &[Val], NO, &[]),
    s(&["CLIENT", "GETNAME"], &[], NO, &[]),
    s(&["CLIENT", "ID"], &[], NO, &[]),
    s(&["CLIENT", "INFO"], &[], NO, &[]),
    s(&["CLIENT", "LIST"], &[], NO, &[]),
    s(&["OBJECT", "HELP"], &[], NO, &[]),
    s(&["OBJECT", "ENCODING"], &[Key], NO, &[]),
    s(&["OBJECT", "REFCOUNT"], &[Key], NO, &[]),
    s(&["OBJECT", "IDLETIME"], &[Key], NO, &[]),
    s(&["OBJECT", "FREQ"], &[Key], NO, &[]),
    s(&["OBJECT", "BOGUS"], &[Key], NO, &[]),
    s(&["DEBUG", "SLEEP"], &[Float], NO, &[]),
    s(&["DEBUG", "SET-ACTIVE-EXPIRE"], &[Int], NO, &[]),
    s(&["DEBUG", "JMAP"], &[], NO, &[]),
    s(&["DEBUG", "RELOAD"], &[], NO, &[]),
    s(&["DEBUG", "LOADAOF"], &[], NO, &[]),
    s(&["DEBUG", "QUICKLIST-PACKED-THRESHOLD"], &[Int], NO, &[]),
    s(&["DEBUG", "OBJECT"], &[Key], NO, &[]),
    s(&["DEBUG", "BOGUS"], &[Val], NO, &[]),
    s(&["WAIT"], &[Int, Int], NO, &[]),
    s(&["SORT"], &[Key], SORT_OPTS, &[]),
    s(&["RANDOMKEY"], &[], NO, &[]),
    s(&["RENAME"], &[Key, Key], NO, &[]),
    s(&["RENAMENX"], &[Key, Key], NO, &[]),
    // names neither parser knows
    s(&["XADD"], &[Key, Val], NO, &[Val, Val]),
    s(&["NOSUCHCOMMAND"], &[], NO, &[Val]),
    s(&[""], &[], NO, &[Val]),
    s(&["G\u{00e9}T"], &[Key], NO, &[]),
];

const KEYS_P: &[&[u8]] = &[
    b"k0",
    b"k1",
    b"{t}a",
    b"",
    b"key with space",
    &[0xff, 0xfe, b'k'],
    b"a-much-longer-key-name-that-exceeds-the-sso-boundary-0123456789",
    b"NX",
];
const VALS_P: &[&[u8]] = &[
    b"v",
    b"",
    b"hello",
    b"10",
    &[0x00, 0xff, 0x80, 0x0d, 0x0a],
    b"with\r\nnewline",
    b"123456789012345678901234",
    b"EX",
    b"-1",
];
const INTS_P: &[&[u8]] = &[
    b"0",
    b"1",
    b"-1",
    b"10",
    b"100",
    b"9223372036854775807",
    b"-9223372036854775808",
    b"9223372036854775808",
    b"-9223372036854775809",
    b"18446744073709551615",
    b"+5",
    b" 5",
    b"5 ",
    b"1.0",
    b"1e3",
    b"0x10",
    b"-0",
    b"007",
    b"abc",
    b"",
    "\u{0663}".as_bytes(),
    &[b'1', 0xff],
];
const UINTS_P: &[&[u8]] = &[
    b"0",
    b"1",
    b"7",
    b"15",
    b"16",
    b"4294967295",
    b"4294967296",
    b"18446744073709551615",
    b"18446744073709551616",
    b"-1",
    b"-0",
    b"+3",
    b"abc",
    b"",
];
const FLOATS_P: &[&[u8]] = &[
    b"1", b"-2.5", b"0", b"-0", b"inf", b"-inf", b"+inf", b"Infinity", b"nan", b"NaN", b"-nan", b"1e400", b"-1e400", b"1e-400",
    b"1.5e308", b".5", b"5.", b"1_000", b"0x1p3", b" 1", b"abc", b"", b"(1",
];
const BOUNDS_P: &[&[u8]] = &[b"1", b"(1", b"-inf", b"+inf", b"inf", b"(-inf", b"abc", b"", b"(", b"[1", b"nan"];
const PATS_P: &[&[u8]] = &[b"*", b"k*", b"[", b"k[0-9]", &[0xff, b'*'], b"", b"COUNT", b"MATCH"];
const SCRIPTS_P: &[&[u8]] = &[b"return 1", b"return redis.call('GET', KEYS[1])", b"", &[0xff], b"return ("];
const NUMKEYS_P: &[&[u8]] = &[
    b"0",
    b"1",
    b"2",
    b"3",
    b"-1",
    b"-2",
    b"-3",
    b"-4",
    b"100",
    b"9223372036854775807",
    b"-9223372036854775808",
    b"18446744073709551615",
    b"abc",
    b"",
];
/// replacement values for the "one adversarial argument" mutation
const ADVERSARIAL: &[&[u8]] = &[
    b"",
    &[0xff],
    &[0xc3, 0x28],
    &[0x00],
    b"9223372036854775808",
    b"-9223372036854775809",
    b"18446744073709551615",
    b"18446744073709551616",
    b"340282366920938463463374607431768211456",
    b"nan",
    b"inf",
    b"-inf",
    b"1e400",
    b"+5",
    b" 5",
    b"-0",
    b"MATCH",
    b"COUNT",
    b"LIMIT",
    b"STORE",
    b"EX",
    b"withscores",
    b"\r\n",
];

fn pick(pool: &'static [&'static [u8]], sel: u16) -> Vec<u8> {
    pool[(sel as usize * pool.len()) >> 16].to_vec()
}

/// a number within +-20 of one of the range limits (decimal text, may be out of range)
fn near_limit(sel: u16) -> Vec<u8> {
    const CENTRES: [i128; 8] = [
        0,
        i64::MAX as i128,
        i64::MIN as i128,
        u64::MAX as i128,
        u32::MAX as i128,
        i32::MIN as i128,
        (i64::MAX / 1000) as i128,
        512 * 1024 * 1024 * 8,
    ];
    let centre = CENTRES[((sel >> 2) & 7) as usize];
    let off = ((sel >> 5) as i128 % 41) - 20;
    (centre + off).to_string().into_bytes()
}

fn arg(a: A, sel: u16) -> Vec<u8> {
    match a {
        Int | UInt | NumKeys if sel & 3 == 3 => near_limit(sel),
        Key => pick(KEYS_P, sel),
        Val => pick(VALS_P, sel),
        Int => pick(INTS_P, sel),
        UInt => pick(UINTS_P, sel),
        Float => pick(FLOATS_P, sel),
        Bound => pick(BOUNDS_P, sel),
        Pat => pick(PATS_P, sel),
        Script => pick(SCRIPTS_P, sel),
        NumKeys => pick(NUMKEYS_P, sel),
        Tok(l) => l[(sel as usize * l.len()) >> 16].as_bytes().to_vec(),
    }
}

fn canonical(a: A) -> Vec<u8> {
    match a {
        Key => b"k0".to_vec(),
        Val => b"v".to_vec(),
        Int => b"1".to_vec(),
        UInt => b"0".to_vec(),
        Float => b"1.5".to_vec(),
        Bound => b"1".to_vec(),
        Pat => b"*".to_vec(),
        Script => b"return 1".to_vec(),
        NumKeys => b"0".to_vec(),
        Tok(l) => l[0].as_bytes().to_vec(),
    }
}

/// letter-case variants of a token
pub fn recase(tok: &str, mode: u8) -> Vec<u8> {
    match mode % 4 {
        0 => tok.to_uppercase().into_bytes(),
        1 => tok.to_lowercase().into_bytes(),
        2 => tok
            .chars()
            .enumerate()
            .map(|(i, c)| if i % 2 == 0 { c.to_ascii_uppercase() } else { c.to_ascii_lowercase() })
            .collect::<String>()
            .into_bytes(),
        _ => tok
            .chars()
            .enumerate()
            .map(|(i, c)| if i == 0 { c.to_ascii_lowercase() } else { c.to_ascii_uppercase() })
            .collect::<String>()
            .into_bytes(),
    }
}

/// name + fixed + every option once (with values) + two repeating groups + two extra
/// arguments: every prefix of this vector is one point of the arity matrix.
pub fn long_canonical(sp: &Spec, case_mode: u8) -> Argv {
    let mut a: Argv = sp.name.iter().map(|t| recase(t, case_mode)).collect();
    a.extend(sp.fixed.iter().map(|x| canonical(*x)));
    for op in sp.opts {
        a.push(recase(op.kw, case_mode));
        a.extend(op.vals.iter().map(|x| canonical(*x)));
    }
    for _ in 0..2 {
        a.extend(sp.rep.iter().map(|x| canonical(*x)));
    }
    a.push(b"x".to_vec());
    a.push(b"y".to_vec());
    a
}

/// All frames of the arity matrix: every prefix of the long canonical form of every spec in
/// three letter cases, plus EVAL/EVALSHA with every numkeys value and 0..4 trailing args.
pub fn arity_matrix() -> Vec<Argv> {
    let mut out = Vec::new();
    for sp in SPECS {
        for case_mode in 0..3u8 {
            let long = long_canonical(sp, case_mode);
            for n in 0..=long.len() {
                out.push(long[..n].to_vec());
            }
        }
    }
    for name in ["EVAL", "EVALSHA"] {
        for nk in NUMKEYS_P {
            for extra in 0..5usize {
                let mut a: Argv = vec![name.as_bytes().to_vec(), b"return 1".to_vec(), nk.to_vec()];
                for i in 0..extra {
                    a.push(format!("a{}", i).into_bytes());
                }
                out.push(a);
            }
        }
    }
    out
}

/// Every sequence (with repetition) of up to 3 option keywords for every spec that has
/// options, each keyword with its canonical values; and the same with the last keyword's
/// values omitted. Followed by one repeating group where the spec has one.
pub fn option_orders() -> Vec<Argv> {
    let mut out = Vec::new();
    for sp in SPECS {
        if sp.opts.is_empty() {
            continue;
        }
        let n = sp.opts.len();
        let mut seqs: Vec<Vec<usize>> = vec![vec![]];
        let mut frontier: Vec<Vec<usize>> = vec![vec![]];
        for _ in 0..3 {
            let mut next = Vec::new();
            for sq in &frontier {
                for i in 0..n {
                    let mut t = sq.clone();
                    t.push(i);
                    next.push(t);
                }
            }
            seqs.extend(next.iter().cloned());
            frontier = next;
        }
        for sq in &seqs {
            for omit_last in [false, true] {
                if omit_last && sq.last().map(|&i| sp.opts[i].vals.is_empty()).unwrap_or(true) {
                    continue;
                }
                for with_rep in [true, false] {
                    if !with_rep && sp.rep.is_empty() {
                        continue;
                    }
                    if omit_last && with_rep && !sp.rep.is_empty() {
                        continue;
                    }
                    let mut a: Argv = sp.name.iter().map(|t| t.as_bytes().to_vec()).collect();
                    a.extend(sp.fixed.iter().map(|x| canonical(*x)));
                    for (j, &i) in sq.iter().enumerate() {
                        a.push(sp.opts[i].kw.as_bytes().to_vec());
                        if !(omit_last && j + 1 == sq.len()) {
                            a.extend(sp.opts[i].vals.iter().map(|x| canonical(*x)));
                        }
                    }
                    if with_rep {
                        a.extend(sp.rep.iter().map(|x| canonical(*x)));
                    }
                    out.push(a);
                }
            }
        }
    }
    out
}

/// Generated frame: a spec in a letter case, fixed arguments from adversarial pools, a
/// shuffled / repeated selection of option keywords (with, without, or with wrong values),
/// 0..3 repeating groups (maybe one partial), then optionally an arity perturbation and one
/// adversarial replacement.
pub fn frame(only: Option<&'static [&'static str]>) -> BoxedStrategy<Argv> {
    let idx: Vec<usize> = SPECS
        .iter()
        .enumerate()
        .filter(|(_, sp)| only.map(|l| l.contains(&sp.name[0])).unwrap_or(true))
        .map(|(i, _)| i)
        .collect();
    (
        (any::<u16>(), 0u8..8, proptest::collection::vec(any::<u16>(), 6)),
        proptest::collection::vec((any::<u16>(), 0u8..10, any::<u16>(), any::<u16>()), 0..5),
        (0usize..4, 0u8..6, proptest::collection::vec(any::<u16>(), 8)),
        (0u8..10, any::<u16>(), any::<u16>()),
        (0u8..10, any::<u16>(), any::<u16>()),
    )
        .prop_map(move |((si, case_mode, fsel), opts, (nrep, partial, rsel), (pert, ppos, psel), (mutk, mpos, msel))| {
            let sp = &SPECS[idx[(si as usize * idx.len()) >> 16]];
            let mut a: Argv = sp.name.iter().map(|t| recase(t, case_mode)).collect();
            let name_len = a.len();
            for (i, x) in sp.fixed.iter().enumerate() {
                a.push(arg(*x, fsel[i % fsel.len()]));
            }
            let mut tail_opts: Argv = Vec::new();
            if !sp.opts.is_empty() {
                for (which, mode, v1, v2) in &opts {
                    let op = &sp.opts[(*which as usize * sp.opts.len()) >> 16];
                    tail_opts.push(recase(op.kw, if *mode >= 8 { 1 } else { 0 }));
                    if *mode != 7 {
                        for (j, x) in op.vals.iter().enumerate() {
                            tail_opts.push(arg(*x, if j == 0 { *v1 } else { *v2 }));
                        }
                    }
                }
            }
            let mut reps: Argv = Vec::new();
            if !sp.rep.is_empty() {
                let mut n = 0;
                for _ in 0..nrep {
                    for x in sp.rep {
                        reps.push(arg(*x, rsel[n % rsel.len()]));
                        n += 1;
                    }
                }
                if partial == 0 && sp.rep.len() > 1 {
                    reps.push(arg(sp.rep[0], rsel[n % rsel.len()]));
                }
            }
            // ZADD-style: options precede the groups; everything else: options last
            if sp.name[0] == "ZADD" {
                a.extend(tail_opts);
                a.extend(reps);
            } else {
                a.extend(reps);
                a.extend(tail_opts);
            }
            match pert {
                0 | 1 => {
                    let keep = (ppos as usize * (a.len() + 1)) >> 16;
                    a.truncate(keep);
                }
                2 => a.push(pick(VALS_P, psel)),
                3 => {
                    a.push(pick(KEYS_P, psel));
                    a.push(pick(INTS_P, ppos));
                }
                _ => {}
            }
            if mutk < 3 && a.len() > name_len {
                let at = name_len + ((mpos as usize * (a.len() - name_len)) >> 16);
                a[at] = pick(ADVERSARIAL, msel);
            }
            a
        })
        .boxed()
}

pub fn is_option_keyword(tok: &[u8]) -> bool {
    let t = String::from_utf8_lossy(tok).to_uppercase();
    SPECS.iter().any(|sp| sp.opts.iter().any(|op| op.kw == t))
}

/// distinct first tokens of the table
pub fn top_level_names() -> Vec<&'static str> {
    let mut v: Vec<&'static str> = SPECS.iter().map(|sp| sp.name[0]).collect();
    v.sort();
    v.dedup();
    v
}

// =======================================================================================
// typed frames: command arrays whose elements are not all bulk strings
// =======================================================================================
//
// A RESP command frame is an array; clients send bulk strings, but the frame decoders accept
// any element type in it (`:5\r\n`, `+OK\r\n`, `-ERR x\r\n`, `$-1\r\n`, `*-1\r\n`, nested
// arrays), and the frame itself may be a nil array or not an array at all. Both command
// parsers are handed such frames; the property quantifies over all frames.

/// One element of a command frame (everything the two frame decoders can produce).
#[derive(Clone, Debug, PartialEq, Eq, Hash, Serialize, Deserialize)]
pub enum El {
    Bulk(Vec<u8>),
    /// `:n\r\n`
    Int(i64),
    /// `+text\r\n` (valid UTF-8, no CR / LF: what can come off the wire)
    Simple(String),
    /// `-text\r\n`
    Error(String),
    /// `$-1\r\n`
    NilBulk,
    /// `*-1\r\n`
    NilArray,
    /// `*n\r\n` followed by n bulk strings (n may be 0)
    Array(Vec<Vec<u8>>),
}

/// Shape of the frame itself.
#[derive(Clone, Copy, Debug, Default, PartialEq, Eq, Hash, Serialize, Deserialize)]
pub enum Top {
    /// `*N` + the elements (what every client sends)
    #[default]
    Array,
    /// `*-1\r\n`
    NilArray,
    /// not an array: the first element alone is the frame
    Bare,
}

impl Top {
    pub fn is_array(&self) -> bool {
        *self == Top::Array
    }
}

impl El {
    pub fn kind(&self) -> &'static str {
        match self {
            El::Bulk(_) => "bulk",
            El::Int(_) => "int",
            El::Simple(_) => "simple",
            El::Error(_) => "error",
            El::NilBulk => "nil_bulk",
            El::NilArray => "nil_array",
            El::Array(_) => "array",
        }
    }
    pub fn show(&self) -> String {
        match self {
            El::Bulk(b) => {
                let s = vcore::show(b);
                if s.is_empty() || s.contains(' ') {
                    format!("\"{}\"", s)
                } else {
                    s
                }
            }
            El::Int(n) => format!("<:{}>", n),
            El::Simple(t) => format!("<+{}>", t),
            El::Error(t) => format!("<-{}>", t),
            El::NilBulk => "<$-1>".to_string(),
            El::NilArray => "<*-1>".to_string(),
            El::Array(v) => format!("<*{}[{}]>", v.len(), vcore::resp::show_argv(v)),
        }
    }
    pub fn to_sim(&self) -> RespValue {
        match self {
            El::Bulk(b) => RespValue::BulkString(Some(b.clone())),
            El::Int(n) => RespValue::Integer(*n),
            El::Simple(t) => RespValue::SimpleString(t.clone().into()),
            El::Error(t) => RespValue::Error(t.clone().into()),
            El::NilBulk => RespValue::BulkString(None),
            El::NilArray => RespValue::Array(None),
            El::Array(v) => vcore::resp::frame(v),
        }
    }
    pub fn to_zc(&self) -> RespValueZeroCopy {
        // `Bytes` values are obtained through vcore (this crate does not depend on `bytes`)
        fn bulk(a: &[u8]) -> RespValueZeroCopy {
            match vcore::resp::frame_zc(&[a.to_vec()]) {
                RespValueZeroCopy::Array(Some(mut v)) => v.pop().expect("one element"),
                _ => unreachable!(),
            }
        }
        match self {
            El::Bulk(b) => bulk(b),
            El::Int(n) => RespValueZeroCopy::Integer(*n),
            El::Simple(t) => match bulk(t.as_bytes()) {
                RespValueZeroCopy::BulkString(Some(b)) => RespValueZeroCopy::SimpleString(b),
                _ => unreachable!(),
            },
            El::Error(t) => match bulk(t.as_bytes()) {
                RespValueZeroCopy::BulkString(Some(b)) => RespValueZeroCopy::Error(b),
                _ => unreachable!(),
            },
            El::NilBulk => RespValueZeroCopy::BulkString(None),
            El::NilArray => RespValueZeroCopy::Array(None),
            El::Array(v) => vcore::resp::frame_zc(v),
        }
    }
}

/// The elements of the frame: `argv` as bulk strings, with the listed positions replaced.
pub fn elements(argv: &Argv, retype: &[(usize, El)]) -> Vec<El> {
    let mut v: Vec<El> = argv.iter().map(|a| El::Bulk(a.clone())).collect();
    for (pos, e) in retype {
        if *pos < v.len() {
            v[*pos] = e.clone();
        }
    }
    v
}

pub fn frame_sim(els: &[El], top: Top) -> RespValue {
    match top {
        Top::Array => RespValue::Array(Some(els.iter().map(|e| e.to_sim()).collect())),
        Top::NilArray => RespValue::Array(None),
        Top::Bare => els.first().map(|e| e.to_sim()).unwrap_or(RespValue::BulkString(None)),
    }
}

pub fn frame_zc(els: &[El], top: Top) -> RespValueZeroCopy {
    match top {
        Top::Array => RespValueZeroCopy::Array(Some(els.iter().map(|e| e.to_zc()).collect())),
        Top::NilArray => RespValueZeroCopy::Array(None),
        Top::Bare => els.first().map(|e| e.to_zc()).unwrap_or(RespValueZeroCopy::BulkString(None)),
    }
}

pub fn show_frame(els: &[El], top: Top) -> String {
    let body = els.iter().map(|e| e.show()).collect::<Vec<_>>().join(" ");
    match top {
        Top::Array => body,
        Top::NilArray => "<frame *-1>".to_string(),
        Top::Bare => format!("<frame is not an array> {}", els.first().map(|e| e.show()).unwrap_or_else(|| "<$-1>".into())),
    }
}

/// the i64 an argument text denotes, if the helpers' `str::parse::<i64>` accepts it
pub fn as_i64(a: &[u8]) -> Option<i64> {
    std::str::from_utf8(a).ok().and_then(|s| s.parse::<i64>().ok())
}

/// integer element values at and around the limits of the target types (isize/i64/u64/u32/usize casts)
const I64_POOL: &[i64] = &[
    0,
    1,
    -1,
    2,
    5,
    7,
    100,
    -100,
    i64::MAX,
    i64::MIN,
    i64::MAX - 1,
    i64::MIN + 1,
    u32::MAX as i64,
    u32::MAX as i64 + 1,
    i32::MIN as i64,
    1 << 53,
];

/// wire-representable text for a simple string / error element derived from an argument
fn line_text(a: &[u8]) -> String {
    match std::str::from_utf8(a) {
        Ok(s) if !s.contains('\r') && !s.contains('\n') => s.to_string(),
        _ => "OK".to_string(),
    }
}

const N_KINDS: u8 = 7;

/// the k-th non-bulk rendering of an argument (k in 0..N_KINDS)
fn retyped(a: &[u8], k: u8, int_fallback: i64) -> El {
    match k {
        0 => El::Int(as_i64(a).unwrap_or(int_fallback)),
        1 => El::Simple(line_text(a)),
        2 => El::Error(line_text(a)),
        3 => El::NilBulk,
        4 => El::NilArray,
        5 => El::Array(vec![a.to_vec()]),
        _ => El::Array(vec![]),
    }
}

/// every position >= 1 whose text denotes an i64 becomes an integer element
/// (`LRANGE l :0 :-1`, `SET k v EX :100`): what a client that types its arguments sends
pub fn all_numeric_as_int(argv: &Argv) -> Vec<(usize, El)> {
    argv.iter().enumerate().skip(1).filter_map(|(i, a)| as_i64(a).map(|n| (i, El::Int(n)))).collect()
}

/// Exhaustive typed frames:
///  * every prefix of the long canonical form of every spec (upper case), every single
///    position (name included) x every non-bulk element kind, and all numeric texts as integers;
///  * every option-order frame: each single numeric-text position as an integer element, and
///    all of them at once;
///  * every Int / UInt / NumKeys fixed position of every spec x the integer pool;
///  * frames that are a nil array / not an array.
pub fn typed_matrix() -> Vec<(Argv, Vec<(usize, El)>, Top)> {
    let mut out = Vec::new();
    for sp in SPECS {
        let long = long_canonical(sp, 0);
        for n in 1..=long.len() {
            let base: Argv = long[..n].to_vec();
            for pos in 0..n {
                for k in 0..N_KINDS {
                    out.push((base.clone(), vec![(pos, retyped(&base[pos], k, 1))], Top::Array));
                }
            }
            let all = all_numeric_as_int(&base);
            if all.len() > 1 {
                out.push((base, all, Top::Array));
            }
        }
        let mut full: Argv = sp.name.iter().map(|t| t.as_bytes().to_vec()).collect();
        let name_len = full.len();
        full.extend(sp.fixed.iter().map(|x| canonical(*x)));
        full.extend(sp.rep.iter().map(|x| canonical(*x)));
        for (i, x) in sp.fixed.iter().enumerate() {
            if matches!(x, Int | UInt | NumKeys) {
                for v in I64_POOL {
                    out.push((full.clone(), vec![(name_len + i, El::Int(*v))], Top::Array));
                }
            }
        }
    }
    for base in option_orders() {
        let all = all_numeric_as_int(&base);
        for one in &all {
            out.push((base.clone(), vec![one.clone()], Top::Array));
        }
        if all.len() > 1 {
            out.push((base, all, Top::Array));
        }
    }
    for base in [vec![b"PING".to_vec()], vec![b"GET".to_vec(), b"k0".to_vec()], vec![b"5".to_vec()], vec![]] {
        out.push((base.clone(), vec![], Top::NilArray));
        out.push((base.clone(), vec![], Top::Bare));
        if !base.is_empty() {
            for k in 0..N_KINDS {
                out.push((base.clone(), vec![(0, retyped(&base[0], k, 1))], Top::Bare));
            }
        }
    }
    out
}

/// Generated typed frame: a generated argv (same grammar, pools, perturbations as `frame`)
/// plus an overlay of element types: with weight 2/5 every numeric text becomes an integer
/// element, else 1..3 single positions (the name in ~6 % of the picks) are retyped (integer 50 %, nil bulk
/// 15 %, simple string 10 %, nested array 10 %, error / nil array / empty array 5 % each);
/// integer values are the text's own value, or pool / near-limit values; 3 % of the frames
/// are a nil array or not an array.
pub fn typed_frame() -> BoxedStrategy<(Argv, Vec<(usize, El)>, Top)> {
    (
        frame(None),
        0u8..5,
        proptest::collection::vec((any::<u16>(), 0u8..100, any::<u16>()), 1..4),
        0u8..100,
    )
        .prop_map(|(argv, mode, picks, top_sel)| {
            let mut retype: Vec<(usize, El)> = Vec::new();
            if mode < 2 {
                retype = all_numeric_as_int(&argv);
            }
            if (mode >= 2 || retype.is_empty()) && !argv.is_empty() {
                let numeric: Vec<usize> = (1..argv.len()).filter(|i| as_i64(&argv[*i]).is_some()).collect();
                for (psel, ksel, vsel) in &picks {
                    // the command name is retyped in ~6 % of the picks (everything after it is
                    // then moot); an integer element goes to a numeric text 3 times out of 4
                    let pos = if argv.len() == 1 || psel & 15 == 0 {
                        0
                    } else if *ksel < 50 && !numeric.is_empty() && (vsel >> 2) & 3 != 0 {
                        numeric[((*psel >> 4) as usize * numeric.len()) >> 12]
                    } else {
                        1 + ((((*psel >> 4) as usize) * (argv.len() - 1)) >> 12)
                    };
                    let a = &argv[pos];
                    let e = match *ksel {
                        0..=49 => {
                            let pool = I64_POOL[(*vsel as usize * I64_POOL.len()) >> 16];
                            match vsel & 3 {
                                0 | 1 => El::Int(as_i64(a).unwrap_or(pool)),
                                2 => El::Int(pool),
                                _ => El::Int(as_i64(&near_limit(*vsel)).unwrap_or(pool)),
                            }
                        }
                        50..=64 => El::NilBulk,
                        65..=74 => El::Simple(line_text(a)),
                        75..=84 => El::Array(vec![a.clone()]),
                        85..=89 => El::Error(line_text(a)),
                        90..=94 => El::NilArray,
                        _ => El::Array(vec![]),
                    };
                    retype.retain(|(p, _)| *p != pos);
                    retype.push((pos, e));
                }
                retype.sort_by_key(|(p, _)| *p);
            }
            let top = match top_sel {
                0 => Top::NilArray,
                1 | 2 => Top::Bare,
                _ => Top::Array,
            };
            (argv, retype, top)
        })
        .boxed()
}
