//! The command grammar the two RESP command parsers implement, written down once more as a
//! table (names, fixed arguments, option keywords with their values, repeating groups), and
//! the frame generators built from it.

use proptest::prelude::*;
use proptest::strategy::BoxedStrategy;
use vcore::resp::Argv;

#[derive(Clone, Copy, Debug)]
pub enum A {
    Key,
    Val,
    Int,
    UInt,
    Float,
    Bound,
    Pat,
    Script,
    NumKeys,
    Tok(&'static [&'static str]),
}
use A::*;

pub struct Opt {
    pub kw: &'static str,
    pub vals: &'static [A],
}

pub struct Spec {
    /// one token, or command + subcommand
    pub name: &'static [&'static str],
    pub fixed: &'static [A],
    pub opts: &'static [Opt],
    /// repeating group (may be empty)
    pub rep: &'static [A],
}

const fn s(name: &'static [&'static str], fixed: &'static [A], opts: &'static [Opt], rep: &'static [A]) -> Spec {
    Spec { name, fixed, opts, rep }
}
const fn o(kw: &'static str, vals: &'static [A]) -> Opt {
    Opt { kw, vals }
}

const NO: &[Opt] = &[];
const SET_OPTS: &[Opt] = &[
    o("NX", &[]),
    o("XX", &[]),
    o("GET", &[]),
    o("EX", &[Int]),
    o("PX", &[Int]),
    o("EXAT", &[Int]),
    o("PXAT", &[Int]),
    o("KEEPTTL", &[]),
    o("IFEQ", &[Val]),
    o("IFGT", &[Val]),
    o("BOGUS", &[]),
];
const GETEX_OPTS: &[Opt] = &[
    o("EX", &[Int]),
    o("PX", &[Int]),
    o("EXAT", &[Int]),
    o("PXAT", &[Int]),
    o("PERSIST", &[]),
    o("BOGUS", &[]),
];
const EXPIRE_OPTS: &[Opt] = &[o("NX", &[]), o("XX", &[]), o("GT", &[]), o("LT", &[]), o("BOGUS", &[])];
const ZADD_OPTS: &[Opt] = &[o("NX", &[]), o("XX", &[]), o("GT", &[]), o("LT", &[]), o("CH", &[]), o("INCR", &[])];
const WITHSCORES: &[Opt] = &[o("WITHSCORES", &[]), o("BOGUS", &[])];
const ZRBS_OPTS: &[Opt] = &[o("WITHSCORES", &[]), o("LIMIT", &[Int, Int]), o("BOGUS", &[])];
const SCAN_OPTS: &[Opt] = &[o("MATCH", &[Pat]), o("COUNT", &[Int]), o("TYPE", &[Val])];
const SORT_OPTS: &[Opt] = &[
    o("STORE", &[Key]),
    o("ALPHA", &[]),
    o("DESC", &[]),
    o("LIMIT", &[Int, Int]),
    o("BY", &[Pat]),
];
const SIDES: &[&str] = &["LEFT", "RIGHT", "left", "UP", ""];

/// Every command name (and subcommand) either parser knows, plus a few neither knows.
pub const SPECS: &[Spec] = &[
    s(&["PING"], &[], NO, &[Val]),
    s(&["INFO"], &[], NO, &[Val]),
    s(&["TIME"], &[], NO, &[]),
    s(&["DBSIZE"], &[], NO, &[]),
    s(&["CONFIG", "GET"], &[Pat], NO, &[]),
    s(&["CONFIG", "SET"], &[Val, Val], NO, &[]),
    s(&["CONFIG", "RESETSTAT"], &[], NO, &[]),
    s(&["CONFIG", "REWRITE"], &[], NO, &[]),
    s(&["SELECT"], &[UInt], NO, &[]),
    s(&["ECHO"], &[Val], NO, &[]),
    s(&["AUTH"], &[Val], NO, &[Val]),
    s(&["ACL", "WHOAMI"], &[], NO, &[]),
    s(&["ACL", "LIST"], &[], NO, &[]),
    s(&["ACL", "USERS"], &[], NO, &[]),
    s(&["ACL", "GETUSER"], &[Val], NO, &[]),
    s(&["ACL", "SETUSER"], &[Val], NO, &[Val]),
    s(&["ACL", "DELUSER"], &[Val], NO, &[Val]),
    s(&["ACL", "CAT"], &[], NO, &[Val]),
    s(&["ACL", "GENPASS"], &[], NO, &[UInt]),
    s(&["ACL", "DRYRUN"], &[Val, Tok(&["GET", "set", "NOSUCH"])], NO, &[Val]),
    s(&["ACL", "LOG"], &[], &[o("RESET", &[])], &[UInt]),
    s(&["ACL", "HELP"], &[], NO, &[]),
    s(&["ACL", "LOAD"], &[], NO, &[]),
    s(&["ACL", "SAVE"], &[], NO, &[]),
    s(&["ACL", "BOGUS"], &[], NO, &[]),
    s(&["FLUSHDB"], &[], &[o("ASYNC", &[])], &[]),
    s(&["FLUSHALL"], &[], &[o("SYNC", &[])], &[]),
    s(&["MULTI"], &[], NO, &[]),
    s(&["EXEC"], &[], NO, &[]),
    s(&["DISCARD"], &[], NO, &[]),
    s(&["WATCH"], &[], NO, &[Key]),
    s(&["UNWATCH"], &[], NO, &[]),
    s(&["EVAL"], &[Script, NumKeys], NO, &[Val]),
    s(&["EVALSHA"], &[Val, NumKeys], NO, &[Val]),
    s(&["SCRIPT", "LOAD"], &[Script], NO, &[]),
    s(&["SCRIPT", "EXISTS"], &[], NO, &[Val]),
    s(&["SCRIPT", "FLUSH"], &[], &[o("ASYNC", &[])], &[]),
    s(&["SCRIPT", "BOGUS"], &[], NO, &[]),
    s(&["GET"], &[Key], NO, &[]),
    s(&["SET"], &[Key, Val], SET_OPTS, &[]),
    s(&["SETEX"], &[Key, Int, Val], NO, &[]),
    s(&["PSETEX"], &[Key, Int, Val], NO, &[]),
    s(&["SETNX"], &[Key, Val], NO, &[]),
    s(&["DEL"], &[], NO, &[Key]),
    s(&["UNLINK"], &[], NO, &[Key]),
    s(&["EXISTS"], &[], NO, &[Key]),
    s(&["TYPE"], &[Key], NO, &[]),
    s(&["KEYS"], &[Pat], NO, &[]),
    s(&["EXPIRE"], &[Key, Int], EXPIRE_OPTS, &[]),
    s(&["PEXPIRE"], &[Key, Int], EXPIRE_OPTS, &[]),
    s(&["EXPIREAT"], &[Key, Int], EXPIRE_OPTS, &[]),
    s(&["PEXPIREAT"], &[Key, Int], EXPIRE_OPTS, &[]),
    s(&["TTL"], &[Key], NO, &[]),
    s(&["PTTL"], &[Key], NO, &[]),
    s(&["EXPIRETIME"], &[Key], NO, &[]),
    s(&["PEXPIRETIME"], &[Key], NO, &[]),
    s(&["PERSIST"], &[Key], NO, &[]),
    s(&["INCR"], &[Key], NO, &[]),
    s(&["DECR"], &[Key], NO, &[]),
    s(&["INCRBY"], &[Key, Int], NO, &[]),
    s(&["DECRBY"], &[Key, Int], NO, &[]),
    s(&["INCRBYFLOAT"], &[Key, Float], NO, &[]),
    s(&["APPEND"], &[Key, Val], NO, &[]),
    s(&["GETSET"], &[Key, Val], NO, &[]),
    s(&["GETDEL"], &[Key], NO, &[]),
    s(&["GETEX"], &[Key], GETEX_OPTS, &[]),
    s(&["STRLEN"], &[Key], NO, &[]),
    s(&["GETRANGE"], &[Key, Int, Int], NO, &[]),
    s(&["SUBSTR"], &[Key, Int, Int], NO, &[]),
    s(&["SETRANGE"], &[Key, Int, Val], NO, &[]),
    s(&["SETBIT"], &[Key, UInt, Int], NO, &[]),
    s(&["GETBIT"], &[Key, UInt], NO, &[]),
    s(&["MGET"], &[], NO, &[Key]),
    s(&["MSET"], &[], NO, &[Key, Val]),
    s(&["MSETNX"], &[], NO, &[Key, Val]),
    s(&["LPUSH"], &[Key], NO, &[Val]),
    s(&["RPUSH"], &[Key], NO, &[Val]),
    s(&["LPOP"], &[Key], NO, &[UInt]),
    s(&["RPOP"], &[Key], NO, &[UInt]),
    s(&["LRANGE"], &[Key, Int, Int], NO, &[]),
    s(&["LLEN"], &[Key], NO, &[]),
    s(&["LINDEX"], &[Key, Int], NO, &[]),
    s(&["LSET"], &[Key, Int, Val], NO, &[]),
    s(&["LTRIM"], &[Key, Int, Int], NO, &[]),
    s(&["RPOPLPUSH"], &[Key, Key], NO, &[]),
    s(&["LMOVE"], &[Key, Key, Tok(SIDES), Tok(SIDES)], NO, &[]),
    s(&["SADD"], &[Key], NO, &[Val]),
    s(&["SREM"], &[Key], NO, &[Val]),
    s(&["SMEMBERS"], &[Key], NO, &[]),
    s(&["SISMEMBER"], &[Key, Val], NO, &[]),
    s(&["SCARD"], &[Key], NO, &[]),
    s(&["SPOP"], &[Key], NO, &[Int]),
    s(&["HSET"], &[Key], NO, &[Val, Val]),
    s(&["HGET"], &[Key, Val], NO, &[]),
    s(&["HGETALL"], &[Key], NO, &[]),
    s(&["HINCRBY"], &[Key, Val, Int], NO, &[]),
    s(&["HDEL"], &[Key], NO, &[Val]),
    s(&["HKEYS"], &[Key], NO, &[]),
    s(&["HVALS"], &[Key], NO, &[]),
    s(&["HLEN"], &[Key], NO, &[]),
    s(&["HEXISTS"], &[Key, Val], NO, &[]),
    s(&["ZADD"], &[Key], ZADD_OPTS, &[Float, Val]),
    s(&["ZREM"], &[Key], NO, &[Val]),
    s(&["ZRANGE"], &[Key, Int, Int], WITHSCORES, &[]),
    s(&["ZREVRANGE"], &[Key, Int, Int], WITHSCORES, &[]),
    s(&["ZSCORE"], &[Key, Val], NO, &[]),
    s(&["ZRANK"], &[Key, Val], NO, &[]),
    s(&["ZCARD"], &[Key], NO, &[]),
    s(&["ZCOUNT"], &[Key, Bound, Bound], NO, &[]),
    s(&["ZRANGEBYSCORE"], &[Key, Bound, Bound], ZRBS_OPTS, &[]),
    s(&["SCAN"], &[UInt], SCAN_OPTS, &[]),
    s(&["HSCAN"], &[Key, UInt], SCAN_OPTS, &[]),
    s(&["ZSCAN"], &[Key, UInt], SCAN_OPTS, &[]),
    s(&["FUNCTION", "FLUSH"], &[], &[o("ASYNC", &[])], &[]),
    s(&["FUNCTION", "LIST"], &[], NO, &[]),
    s(&["COMMAND"], &[], NO, &[]),
    s(&["COMMAND", "COUNT"], &[], NO, &[]),
    s(&["COMMAND", "DOCS"], &[], NO, &[Val]),
    s(&["CLIENT", "SETNAME"], &[Val], NO, &[]),
    s(&["CLIENT", "GETNAME"], &[], NO, &[]),
    s(&["CLIENT", "ID"], &[], NO, &[]),
    s(&["CLIENT", "INFO"], &[], NO, &[]),
    s(&["CLIENT", "LIST"], &[], NO, &[]),
    s(&["OBJECT", "HELP"], &[], NO, &[]),
    s(&["OBJECT", "ENCODING"], &[Key], NO, &[]),
    s(&["OBJECT", "REFCOUNT"], &[Key], NO, &[]),
    s(&["OBJECT", "IDLETIME"], &[Key], NO, &[]),
    s(&["OBJECT", "FREQ"], &[Key], NO, &[]),
    s(&["OBJECT", "BOGUS"], &[Key], NO, &[]),
    s(&["DEBUG", "SLEEP"], &[Float], NO, &[]),
    s(&["DEBUG", "SET-ACTIVE-EXPIRE"], &[Int], NO, &[]),
    s(&["DEBUG", "JMAP"], &[], NO, &[]),
    s(&["DEBUG", "RELOAD"], &[], NO, &[]),
    s(&["DEBUG", "LOADAOF"], &[], NO, &[]),
    s(&["DEBUG", "QUICKLIST-PACKED-THRESHOLD"], &[Int], NO, &[]),
    s(&["DEBUG", "OBJECT"], &[Key], NO, &[]),
    s(&["DEBUG", "BOGUS"], &[Val], NO, &[]),
    s(&["WAIT"], &[Int, Int], NO, &[]),
    s(&["SORT"], &[Key], SORT_OPTS, &[]),
    s(&["RANDOMKEY"], &[], NO, &[]),
    s(&["RENAME"], &[Key, Key], NO, &[]),
    s(&["RENAMENX"], &[Key, Key], NO, &[]),
    // names neither parser knows
    s(&["XADD"], &[Key, Val], NO, &[Val, Val]),
    s(&["NOSUCHCOMMAND"], &[], NO, &[Val]),
    s(&[""], &[], NO, &[Val]),
    s(&["G\u{00e9}T"], &[Key], NO, &[]),
];

const KEYS_P: &[&[u8]] = &[
    b"k0",
    b"k1",
    b"{t}a",
    b"",
    b"key with space",
    &[0xff, 0xfe, b'k'],
    b"a-much-longer-key-name-that-exceeds-the-sso-boundary-0123456789",
    b"NX",
];
const VALS_P: &[&[u8]] = &[
    b"v",
    b"",
    b"hello",
    b"10",
    &[0x00, 0xff, 0x80, 0x0d, 0x0a],
    b"with\r\nnewline",
    b"123456789012345678901234",
    b"EX",
    b"-1",
];
const INTS_P: &[&[u8]] = &[
    b"0",
    b"1",
    b"-1",
    b"10",
    b"100",
    b"9223372036854775807",
    b"-9223372036854775808",
    b"9223372036854775808",
    b"-9223372036854775809",
    b"18446744073709551615",
    b"+5",
    b" 5",
    b"5 ",
    b"1.0",
    b"1e3",
    b"0x10",
    b"-0",
    b"007",
    b"abc",
    b"",
    "\u{0663}".as_bytes(),
    &[b'1', 0xff],
];
const UINTS_P: &[&[u8]] = &[
    b"0",
    b"1",
    b"7",
    b"15",
    b"16",
    b"4294967295",
    b"4294967296",
    b"18446744073709551615",
    b"18446744073709551616",
    b"-1",
    b"-0",
    b"+3",
    b"abc",
    b"",
];
const FLOATS_P: &[&[u8]] = &[
    b"1", b"-2.5", b"0", b"-0", b"inf", b"-inf", b"+inf", b"Infinity", b"nan", b"NaN", b"-nan", b"1e400", b"-1e400", b"1e-400",
    b"1.5e308", b".5", b"5.", b"1_000", b"0x1p3", b" 1", b"abc", b"", b"(1",
];
const BOUNDS_P: &[&[u8]] = &[b"1", b"(1", b"-inf", b"+inf", b"inf", b"(-inf", b"abc", b"", b"(", b"[1", b"nan"];
const PATS_P: &[&[u8]] = &[b"*", b"k*", b"[", b"k[0-9]", &[0xff, b'*'], b"", b"COUNT", b"MATCH"];
const SCRIPTS_P: &[&[u8]] = &[b"return 1", b"return redis.call('GET', KEYS[1])", b"", &[0xff], b"return ("];
const NUMKEYS_P: &[&[u8]] = &[
    b"0",
    b"1",
    b"2",
    b"3",
    b"-1",
    b"-2",
    b"-3",
    b"-4",
    b"100",
    b"9223372036854775807",
    b"-9223372036854775808",
    b"18446744073709551615",
    b"abc",
    b"",
];
/// replacement values for the "one adversarial argument" mutation
const ADVERSARIAL: &[&[u8]] = &[
    b"",
    &[0xff],
    &[0xc3, 0x28],
    &[0x00],
    b"9223372036854775808",
    b"-9223372036854775809",
    b"18446744073709551615",
    b"18446744073709551616",
    b"340282366920938463463374607431768211456",
    b"nan",
    b"inf",
    b"-inf",
    b"1e400",
    b"+5",
    b" 5",
    b"-0",
    b"MATCH",
    b"COUNT",
    b"LIMIT",
    b"STORE",
    b"EX",
    b"withscores",
    b"\r\n",
];

fn pick(pool: &'static [&'static [u8]], sel: u16) -> Vec<u8> {
    pool[(sel as usize * pool.len()) >> 16].to_vec()
}

/// a number within +-20 of one of the range limits (decimal text, may be out of range)
fn near_limit(sel: u16) -> Vec<u8> {
    const CENTRES: [i128; 8] = [
        0,
        i64::MAX as i128,
        i64::MIN as i128,
        u64::MAX as i128,
        u32::MAX as i128,
        i32::MIN as i128,
        (i64::MAX / 1000) as i128,
        512 * 1024 * 1024 * 8,
    ];
    let centre = CENTRES[((sel >> 2) & 7) as usize];
    let off = ((sel >> 5) as i128 % 41) - 20;
    (centre + off).to_string().into_bytes()
}

fn arg(a: A, sel: u16) -> Vec<u8> {
    match a {
        Int | UInt | NumKeys if sel & 3 == 3 => near_limit(sel),
        Key => pick(KEYS_P, sel),
        Val => pick(VALS_P, sel),
        Int => pick(INTS_P, sel),
        UInt => pick(UINTS_P, sel),
        Float => pick(FLOATS_P, sel),
        Bound => pick(BOUNDS_P, sel),
        Pat => pick(PATS_P, sel),
        Script => pick(SCRIPTS_P, sel),
        NumKeys => pick(NUMKEYS_P, sel),
        Tok(l) => l[(sel as usize * l.len()) >> 16].as_bytes().to_vec(),
    }
}

fn canonical(a: A) -> Vec<u8> {
    match a {
        Key => b"k0".to_vec(),
        Val => b"v".to_vec(),
        Int => b"1".to_vec(),
        UInt => b"0".to_vec(),
        Float => b"1.5".to_vec(),
        Bound => b"1".to_vec(),
        Pat => b"*".to_vec(),
        Script => b"return 1".to_vec(),
        NumKeys => b"0".to_vec(),
        Tok(l) => l[0].as_bytes().to_vec(),
    }
}

/// letter-case variants of a token
pub fn recase(tok: &str, mode: u8) -> Vec<u8> {
    match mode % 4 {
        0 => tok.to_uppercase().into_bytes(),
        1 => tok.to_lowercase().into_bytes(),
        2 => tok
            .chars()
            .enumerate()
            .map(|(i, c)| if i % 2 == 0 { c.to_ascii_uppercase() } else { c.to_ascii_lowercase() })
            .collect::<String>()
            .into_bytes(),
        _ => tok
            .chars()
            .enumerate()
            .map(|(i, c)| if i == 0 { c.to_ascii_lowercase() } else { c.to_ascii_uppercase() })
            .collect::<String>()
            .into_bytes(),
    }
}

/// name + fixed + every option once (with values) + two repeating groups + two extra
/// arguments: every prefix of this vector is one point of the arity matrix.
pub fn long_canonical(sp: &Spec, case_mode: u8) -> Argv {
    let mut a: Argv = sp.name.iter().map(|t| recase(t, case_mode)).collect();
    a.extend(sp.fixed.iter().map(|x| canonical(*x)));
    for op in sp.opts {
        a.push(recase(op.kw, case_mode));
        a.extend(op.vals.iter().map(|x| canonical(*x)));
    }
    for _ in 0..2 {
        a.extend(sp.rep.iter().map(|x| canonical(*x)));
    }
    a.push(b"x".to_vec());
    a.push(b"y".to_vec());
    a
}

/// All frames of the arity matrix: every prefix of the long canonical form of every spec in
/// three letter cases, plus EVAL/EVALSHA with every numkeys value and 0..4 trailing args.
pub fn arity_matrix() -> Vec<Argv> {
    let mut out = Vec::new();
    for sp in SPECS {
        for case_mode in 0..3u8 {
            let long = long_canonical(sp, case_mode);
            for n in 0..=long.len() {
                out.push(long[..n].to_vec());
            }
        }
    }
    for name in ["EVAL", "EVALSHA"] {
        for nk in NUMKEYS_P {
            for extra in 0..5usize {
                let mut a: Argv = vec![name.as_bytes().to_vec(), b"return 1".to_vec(), nk.to_vec()];
                for i in 0..extra {
                    a.push(format!("a{}", i).into_bytes());
                }
                out.push(a);
            }
        }
    }
    out
}

/// Every sequence (with repetition) of up to 3 option keywords for every spec that has
/// options, each keyword with its canonical values; and the same with the last keyword's
/// values omitted. Followed by one repeating group where the spec has one.
pub fn option_orders() -> Vec<Argv> {
    let mut out = Vec::new();
    for sp in SPECS {
        if sp.opts.is_empty() {
            continue;
        }
        let n = sp.opts.len();
        let mut seqs: Vec<Vec<usize>> = vec![vec![]];
        let mut frontier: Vec<Vec<usize>> = vec![vec![]];
        for _ in 0..3 {
            let mut next = Vec::new();
            for sq in &frontier {
                for i in 0..n {
                    let mut t = sq.clone();
                    t.push(i);
                    next.push(t);
                }
            }
            seqs.extend(next.iter().cloned());
            frontier = next;
        }
        for sq in &seqs {
            for omit_last in [false, true] {
                if omit_last && sq.last().map(|&i| sp.opts[i].vals.is_empty()).unwrap_or(true) {
                    continue;
                }
                for with_rep in [true, false] {
                    if !with_rep && sp.rep.is_empty() {
                        continue;
                    }
                    if omit_last && with_rep && !sp.rep.is_empty() {
                        continue;
                    }
                    let mut a: Argv = sp.name.iter().map(|t| t.as_bytes().to_vec()).collect();
                    a.extend(sp.fixed.iter().map(|x| canonical(*x)));
                    for (j, &i) in sq.iter().enumerate() {
                        a.push(sp.opts[i].kw.as_bytes().to_vec());
                        if !(omit_last && j + 1 == sq.len()) {
                            a.extend(sp.opts[i].vals.iter().map(|x| canonical(*x)));
                        }
                    }
                    if with_rep {
                        a.extend(sp.rep.iter().map(|x| canonical(*x)));
                    }
                    out.push(a);
                }
            }
        }
    }
    out
}

/// Generated frame: a spec in a letter case, fixed arguments from adversarial pools, a
/// shuffled / repeated selection of option keywords (with, without, or with wrong values),
/// 0..3 repeating groups (maybe one partial), then optionally an arity perturbation and one
/// adversarial replacement.
pub fn frame(only: Option<&'static [&'static str]>) -> BoxedStrategy<Argv> {
    let idx: Vec<usize> = SPECS
        .iter()
        .enumerate()
        .filter(|(_, sp)| only.map(|l| l.contains(&sp.name[0])).unwrap_or(true))
        .map(|(i, _)| i)
        .collect();
    (
        (any::<u16>(), 0u8..8, proptest::collection::vec(any::<u16>(), 6)),
        proptest::collection::vec((any::<u16>(), 0u8..10, any::<u16>(), any::<u16>()), 0..5),
        (0usize..4, 0u8..6, proptest::collection::vec(any::<u16>(), 8)),
        (0u8..10, any::<u16>(), any::<u16>()),
        (0u8..10, any::<u16>(), any::<u16>()),
    )
        .prop_map(move |((si, case_mode, fsel), opts, (nrep, partial, rsel), (pert, ppos, psel), (mutk, mpos, msel))| {
            let sp = &SPECS[idx[(si as usize * idx.len()) >> 16]];
            let mut a: Argv = sp.name.iter().map(|t| recase(t, case_mode)).collect();
            let name_len = a.len();
            for (i, x) in sp.fixed.iter().enumerate() {
                a.push(arg(*x, fsel[i % fsel.len()]));
            }
            let mut tail_opts: Argv = Vec::new();
            if !sp.opts.is_empty() {
                for (which, mode, v1, v2) in &opts {
                    let op = &sp.opts[(*which as usize * sp.opts.len()) >> 16];
                    tail_opts.push(recase(op.kw, if *mode >= 8 { 1 } else { 0 }));
                    if *mode != 7 {
                        for (j, x) in op.vals.iter().enumerate() {
                            tail_opts.push(arg(*x, if j == 0 { *v1 } else { *v2 }));
                        }
                    }
                }
            }
            let mut reps: Argv = Vec::new();
            if !sp.rep.is_empty() {
                let mut n = 0;
                for _ in 0..nrep {
                    for x in sp.rep {
                        reps.push(arg(*x, rsel[n % rsel.len()]));
                        n += 1;
                    }
                }
                if partial == 0 && sp.rep.len() > 1 {
                    reps.push(arg(sp.rep[0], rsel[n % rsel.len()]));
                }
            }
            // ZADD-style: options precede the groups; everything else: options last
            if sp.name[0] == "ZADD" {
                a.extend(tail_opts);
                a.extend(reps);
            } else {
                a.extend(reps);
                a.extend(tail_opts);
            }
            match pert {
                0 | 1 => {
                    let keep = (ppos as usize * (a.len() + 1)) >> 16;
                    a.truncate(keep);
                }
                2 => a.push(pick(VALS_P, psel)),
                3 => {
                    a.push(pick(KEYS_P, psel));
                    a.push(pick(INTS_P, ppos));
                }
                _ => {}
            }
            if mutk < 3 && a.len() > name_len {
                let at = name_len + ((mpos as usize * (a.len() - name_len)) >> 16);
                a[at] = pick(ADVERSARIAL, msel);
            }
            a
        })
        .boxed()
}

pub fn is_option_keyword(tok: &[u8]) -> bool {
    let t = String::from_utf8_lossy(tok).to_uppercase();
    SPECS.iter().any(|sp| sp.opts.iter().any(|op| op.kw == t))
}

/// distinct first tokens of the table
pub fn top_level_names() -> Vec<&'static str> {
    let mut v: Vec<&'static str> = SPECS.iter().map(|sp| sp.name[0]).collect();
    v.sort();
    v.dedup();
    v
}
