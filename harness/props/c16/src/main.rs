//! C16 — a command means the same via every entry path.
//!
//! Parser half (`Command::from_resp` vs `Command::from_resp_zero_copy` on the same argv):
//!   arity_matrix   exhaustive: every prefix of a long canonical form of every command /
//!                  subcommand either parser knows, in three letter cases; EVAL/EVALSHA x numkeys
//!   option_orders  exhaustive: every sequence (with repetition) of <= 3 option keywords of
//!                  every command that has options, with and without the last keyword's value
//!   gen_frames     generated frames from the same grammar with adversarial value pools,
//!                  arity perturbation and one adversarial replacement
//!   typed_matrix   exhaustive: frames whose elements are not all bulk strings (integer, simple
//!                  string, error, nil bulk, nil array, nested array at every single position of
//!                  every prefix; numeric texts as integer elements), nil-array / non-array frames
//!   gen_typed      generated frames of the same grammar with an overlay of element types
//! Lua half (direct execution on executor A vs `EVAL "return redis.call|pcall(table.unpack(ARGV))"`
//! on twin executor B with the same state and clock):
//!   lua_coverage   exhaustive over command names: which names the redis.call translator knows
//!   lua_twins      generated (state, invocation, call|pcall): replies equal under the
//!                  documented RESP -> Lua -> RESP conversion, keyspace dumps equal; in part of
//!                  the twins the script passes integer-valued arguments as Lua numbers

mod grammar;
use grammar::{El, Top};
#[path = "../../c17/src/forms.rs"]
#[allow(dead_code)]
mod forms;
#[path = "../../c17/src/state.rs"]
#[allow(dead_code)]
mod state;

use proptest::prelude::*;
use redis_sim::redis::Command;
use serde::{Deserialize, Serialize};
use serde_json::json;
use state::{av, b, pool_keys, state_steps, Step, World};
use vcore::dump::show_dump;
use vcore::gen::{cmd_name, GenOpts};
use vcore::resp::{parse_sim, parse_zc, show_argv, Argv, Reply};
use vcore::runner::catch;
use vcore::{CaseCtx, Level, Session};

// =======================================================================================
// parser half
// =======================================================================================

/// The frame is `argv` as an array of bulk strings, except that the elements listed in
/// `retype` have another RESP type and `top` may make the frame a nil array / a non-array.
#[derive(Clone, Debug, Serialize, Deserialize)]
struct FrameCase {
    argv: Argv,
    #[serde(default, skip_serializing_if = "Vec::is_empty")]
    retype: Vec<(usize, El)>,
    #[serde(default, skip_serializing_if = "Top::is_array")]
    top: Top,
}

impl FrameCase {
    fn plain(argv: Argv) -> FrameCase {
        FrameCase { argv, retype: Vec::new(), top: Top::Array }
    }
    fn typed((argv, retype, top): (Argv, Vec<(usize, El)>, Top)) -> FrameCase {
        FrameCase { argv, retype, top }
    }
    fn is_plain(&self) -> bool {
        self.retype.is_empty() && self.top.is_array()
    }
    fn show(&self) -> String {
        if self.is_plain() {
            show_argv(&self.argv)
        } else {
            grammar::show_frame(&grammar::elements(&self.argv, &self.retype), self.top)
        }
    }
}

#[derive(Clone, Debug, PartialEq)]
enum Out {
    Parsed(String),
    Rejected(String),
    Panicked(String),
}

fn run_parser(which: &str, c: &FrameCase) -> Out {
    let argv = &c.argv;
    let r = if c.is_plain() {
        if which == "sim" {
            catch(|| parse_sim(argv).map(|c| format!("{:?}", c)))
        } else {
            catch(|| parse_zc(argv).map(|c| format!("{:?}", c)))
        }
    } else {
        let els = grammar::elements(argv, &c.retype);
        if which == "sim" {
            let f = grammar::frame_sim(&els, c.top);
            catch(|| Command::from_resp(&f).map(|c| format!("{:?}", c)))
        } else {
            let f = grammar::frame_zc(&els, c.top);
            catch(|| Command::from_resp_zero_copy(&f).map(|c| format!("{:?}", c)))
        }
    };
    match r {
        Ok(Ok(c)) => Out::Parsed(c),
        Ok(Err(e)) => Out::Rejected(e),
        Err(p) => Out::Panicked(p),
    }
}

fn upper(a: &[u8]) -> String {
    String::from_utf8_lossy(a).to_uppercase()
}

/// KF-C16-03: SCAN / HSCAN / ZSCAN index the element after MATCH / COUNT without a bounds check.
fn is_scan_missing_value(argv: &Argv, sim: &Out, zc: &Out) -> bool {
    let name = cmd_name(argv);
    let both_oob = |o: &Out| matches!(o, Out::Panicked(m) if m.contains("index out of bounds"));
    matches!(name.as_str(), "SCAN" | "HSCAN" | "ZSCAN")
        && argv.last().map(|l| matches!(upper(l).as_str(), "MATCH" | "COUNT")).unwrap_or(false)
        && both_oob(sim)
        && both_oob(zc)
}

/// KF-C16-04: EVAL / EVALSHA turn a negative numkeys into a huge usize; for -1, -2, -3 the sum
/// `3 + numkeys` wraps and the key slice `elements[3..3 + numkeys]` panics.
fn is_negative_numkeys(argv: &Argv, sim: &Out, zc: &Out) -> bool {
    let name = cmd_name(argv);
    let slice_panic = |o: &Out| matches!(o, Out::Panicked(m) if m.contains("slice index starts at 3 but ends at"));
    matches!(name.as_str(), "EVAL" | "EVALSHA")
        && argv.len() >= 3
        && matches!(String::from_utf8_lossy(&argv[2]).parse::<isize>(), Ok(-3..=-1))
        && slice_panic(sim)
        && slice_panic(zc)
}

/// KF-C16-01: the arity error of LPUSH / RPUSH / SADD is worded differently in the two parsers.
fn is_push_arity_text(argv: &Argv, sim: &Out, zc: &Out) -> bool {
    let name = cmd_name(argv);
    if argv.len() >= 3 {
        return false;
    }
    let (s, z) = match name.as_str() {
        "LPUSH" => ("LPUSH requires at least 2 arguments", "LPUSH requires key and values"),
        "RPUSH" => ("RPUSH requires at least 2 arguments", "RPUSH requires key and values"),
        "SADD" => ("SADD requires at least 2 arguments", "SADD requires key and members"),
        _ => return false,
    };
    *sim == Out::Rejected(s.to_string()) && *zc == Out::Rejected(z.to_string())
}

/// KF-C16-02: `ACL HELP|LOAD|SAVE` is an Unknown command in the zero-copy parser and a parse
/// error in the other one.
fn is_acl_stub(argv: &Argv, sim: &Out, zc: &Out) -> bool {
    if cmd_name(argv) != "ACL" || argv.len() < 2 {
        return false;
    }
    let sub = upper(&argv[1]);
    if !matches!(sub.as_str(), "HELP" | "LOAD" | "SAVE") {
        return false;
    }
    *sim == Out::Rejected(format!("Unknown ACL subcommand '{}'", sub))
        && *zc == Out::Parsed(format!("{:?}", Command::Unknown(format!("ACL {}", sub))))
}

fn looks_numeric(a: &[u8]) -> bool {
    std::str::from_utf8(a).ok().map(|s| s.parse::<f64>().is_ok()).unwrap_or(false)
}

fn check_frame(c: &FrameCase, ctx: &mut CaseCtx<'_>) -> Result<(), String> {
    let argv = &c.argv;
    let sim = run_parser("sim", c);
    let zc = run_parser("zc", c);
    let plain = c.is_plain();
    let parsed = matches!((&sim, &zc), (Out::Parsed(_), _) | (_, Out::Parsed(_)));
    match (&sim, &zc) {
        (Out::Parsed(_), _) | (_, Out::Parsed(_)) => {
            ctx.label("parsed");
            if plain && argv.iter().skip(1).any(|a| looks_numeric(a) || grammar::is_option_keyword(a)) {
                ctx.nontrivial(argv);
            }
        }
        (Out::Rejected(_), Out::Rejected(_)) => ctx.label("rejected"),
        _ => ctx.label("panicked"),
    }
    if !plain {
        // typed frame: which element types it carries, and whether the parsers take it
        let mut kinds: Vec<&'static str> = c.retype.iter().filter(|(p, _)| *p < argv.len()).map(|(_, e)| e.kind()).collect();
        kinds.sort();
        kinds.dedup();
        for k in &kinds {
            ctx.label(&format!("el:{}", k));
        }
        if c.retype.iter().any(|(p, e)| *p == 0 && !matches!(e, El::Bulk(_))) {
            ctx.label("el:name_not_bulk");
        }
        match c.top {
            Top::Array => {}
            Top::NilArray => ctx.label("top:nil_array"),
            Top::Bare => ctx.label("top:not_an_array"),
        }
        let ints = c.retype.iter().filter(|(p, e)| *p < argv.len() && matches!(e, El::Int(_))).count();
        if ints > 1 {
            ctx.label("el:int_several");
        }
        if ints > 0 && c.top.is_array() {
            ctx.label(if parsed { "el:int_frame_parsed" } else { "el:int_frame_rejected" });
            // non-trivial: a frame with an integer element that at least one parser accepts
            if parsed {
                ctx.nontrivial(&(argv, &c.retype));
            }
        }
    }
    if sim == zc && !matches!(sim, Out::Panicked(_)) {
        return Ok(());
    }
    if !plain {
        // none of the listed parser findings concerns typed frames: nothing is tolerated here
        return Err(match (&sim, &zc) {
            (Out::Panicked(a), Out::Panicked(z)) => {
                format!("both parsers panic on the frame {}: from_resp: {}; from_resp_zero_copy: {}", c.show(), a, z)
            }
            _ => format!(
                "the parsers disagree on the frame {} (<:n> integer, <+s> simple string, <-s> error, <$-1> nil bulk, <*-1> nil array, <*n[..]> nested array element):\n  from_resp           -> {:?}\n  from_resp_zero_copy -> {:?}",
                c.show(),
                sim,
                zc
            ),
        });
    }
    if is_push_arity_text(argv, &sim, &zc) && ctx.tolerate("KF-C16-01") {
        return Ok(());
    }
    if is_acl_stub(argv, &sim, &zc) && ctx.tolerate("KF-C16-02") {
        return Ok(());
    }
    if is_scan_missing_value(argv, &sim, &zc) && ctx.tolerate("KF-C16-03") {
        return Ok(());
    }
    if is_negative_numkeys(argv, &sim, &zc) && ctx.tolerate("KF-C16-04") {
        return Ok(());
    }
    if let (Out::Panicked(a), Out::Panicked(z)) = (&sim, &zc) {
        return Err(format!(
            "both parsers panic on {}: from_resp: {}; from_resp_zero_copy: {}",
            show_argv(argv),
            a,
            z
        ));
    }
    Err(format!(
        "the parsers disagree on {}:\n  from_resp           -> {:?}\n  from_resp_zero_copy -> {:?}",
        show_argv(argv),
        sim,
        zc
    ))
}

// =======================================================================================
// Lua half
// =======================================================================================

/// Names the redis.call translator (`parse_lua_command_bytes`) knows.
const LUA_COVERED: &[&str] = &[
    "GET", "SET", "DEL", "INCR", "DECR", "INCRBY", "HGET", "HSET", "HDEL", "LPUSH", "RPUSH", "LPOP", "RPOP", "LLEN",
    "SADD", "SREM", "SMEMBERS", "EXISTS", "EXPIRE", "TTL", "TYPE", "HINCRBY", "LRANGE", "RPOPLPUSH", "LMOVE",
    "HGETALL", "SISMEMBER", "ZADD", "ZREM", "ZRANGE", "ZSCORE", "ZCARD", "ZCOUNT", "ZRANGEBYSCORE",
];

/// KF-C16-05: commands both RESP parsers know and scripts cannot call (the set at the time of
/// listing; a name outside this set that turns out to be unknown to the translator is a
/// violation, a name of this set that has become callable is simply compared like any other).
const LUA_UNCOVERED_LISTED: &[&str] = &[
    "ACL", "APPEND", "AUTH", "CLIENT", "COMMAND", "CONFIG", "DBSIZE", "DEBUG", "DECRBY", "DISCARD", "ECHO", "EVAL",
    "EVALSHA", "EXEC", "EXPIREAT", "EXPIRETIME", "FLUSHALL", "FLUSHDB", "FUNCTION", "GETBIT", "GETDEL", "GETEX",
    "GETRANGE", "GETSET", "HEXISTS", "HKEYS", "HLEN", "HSCAN", "HVALS", "INCRBYFLOAT", "INFO", "KEYS", "LINDEX",
    "LSET", "LTRIM", "MGET", "MSET", "MSETNX", "MULTI", "OBJECT", "PERSIST", "PEXPIRE", "PEXPIREAT", "PEXPIRETIME",
    "PING", "PSETEX", "PTTL", "RANDOMKEY", "RENAME", "RENAMENX", "SCAN", "SCARD", "SCRIPT", "SELECT", "SETBIT",
    "SETEX", "SETNX", "SETRANGE", "SORT", "SPOP", "STRLEN", "SUBSTR", "TIME", "UNLINK", "UNWATCH", "WAIT", "WATCH",
    "ZRANK", "ZREVRANGE", "ZSCAN",
];

/// Commands flagged `noscript` in Redis 7 (refused from scripts by Redis itself).
const REDIS_NOSCRIPT: &[&str] = &[
    "AUTH", "EVAL", "EVALSHA", "SCRIPT", "FUNCTION", "MULTI", "EXEC", "DISCARD", "WATCH", "UNWATCH", "CLIENT", "WAIT",
    "CONFIG", "ACL", "DEBUG",
];

#[derive(Clone, Debug, Serialize, Deserialize)]
struct TwinCase {
    steps: Vec<Step>,
    argv: Argv,
    pcall: bool,
    /// argv positions (>= 1) the script passes as Lua numbers instead of strings
    /// (`redis.call('INCRBY', 'k', 5)`); only positions whose text is the canonical decimal of
    /// an integer of magnitude <= 2^53, so that number -> string is the identity in every Lua
    #[serde(default, skip_serializing_if = "Vec::is_empty")]
    numbers: Vec<usize>,
    /// pass those numbers as Lua floats (`5.0`) rather than Lua integers
    #[serde(default, skip_serializing_if = "std::ops::Not::not")]
    float: bool,
}

const CALL: &str = "return redis.call(table.unpack(ARGV))";
const PCALL: &str = "return redis.pcall(table.unpack(ARGV))";

/// text that is the canonical decimal of an integer every Lua number type holds exactly
fn small_canonical_int(a: &[u8]) -> bool {
    match grammar::as_i64(a) {
        Some(n) => n.unsigned_abs() <= (1u64 << 53) && n.to_string().as_bytes() == a,
        None => false,
    }
}

/// the script of a twin: all arguments arrive as strings in ARGV; the chosen positions are
/// turned into Lua numbers before the call
fn twin_script(c: &TwinCase) -> String {
    let numbers: Vec<usize> =
        c.numbers.iter().copied().filter(|p| *p >= 1 && *p < c.argv.len() && small_canonical_int(&c.argv[*p])).collect();
    if numbers.is_empty() {
        return (if c.pcall { PCALL } else { CALL }).to_string();
    }
    let mut s = String::from("local a = {table.unpack(ARGV)} ");
    for p in numbers {
        s.push_str(&format!("a[{}] = tonumber(a[{}]){} ", p + 1, p + 1, if c.float { " + 0.0" } else { "" }));
    }
    s.push_str(if c.pcall { "return redis.pcall(table.unpack(a))" } else { "return redis.call(table.unpack(a))" });
    s
}

/// The documented conversion RESP -> Lua -> RESP of a non-error reply: status <-> {ok=},
/// integer <-> number, bulk <-> string, nil bulk / nil array -> false -> nil, array <-> table
/// (a nil element ends the Lua table).
fn conv(r: &Reply) -> Reply {
    match r {
        Reply::NilArray => Reply::Nil,
        Reply::Array(items) => {
            let mut v = Vec::new();
            for it in items {
                if matches!(it, Reply::Nil | Reply::NilArray) {
                    break;
                }
                v.push(conv(it));
            }
            Reply::Array(v)
        }
        other => other.clone(),
    }
}

/// replies whose element order follows hash iteration order (differs between two executors)
fn normalise(name: &str, r: &Reply) -> Reply {
    match name {
        "SMEMBERS" | "KEYS" | "HKEYS" | "HVALS" => r.sorted(),
        "HGETALL" => r.sorted_pairs(),
        _ => r.clone(),
    }
}

/// Commands whose reply (and for SPOP also effect) is a choice made by hash iteration order,
/// or depends on per-executor counters: two executors legitimately answer differently.
/// Today none of them is callable from scripts; should they become callable, only the
/// outcome kind (error / non-error / nil) is compared, and the keyspace except for SPOP.
const INSTANCE_DEPENDENT: &[&str] = &["RANDOMKEY", "SPOP", "SCAN", "HSCAN", "ZSCAN", "INFO"];

fn unknown_from_lua(r: &Reply) -> Option<String> {
    let t = r.error_text()?;
    let i = t.find("Unknown Redis command '")?;
    let rest = &t[i + "Unknown Redis command '".len()..];
    let j = rest.find("' called from Lua")?;
    Some(rest[..j].to_string())
}

fn has_token(argv: &Argv, from: usize, toks: &[&str]) -> Option<String> {
    argv.iter().skip(from).map(|a| upper(a)).find(|t| toks.contains(&t.as_str()))
}

fn check_twin(c: &TwinCase, ctx: &mut CaseCtx<'_>) -> Result<(), String> {
    let argv = &c.argv;
    if argv.is_empty() {
        return Ok(());
    }
    let name = cmd_name(argv);
    let mut extra = pool_keys();
    extra.extend(argv.iter().skip(1).filter(|a| a.len() <= 80).cloned());

    // ---- direct, executor A
    // the untouched state, from a third executor: dumping A or B before the command would
    // purge lazily-expired keys on one side only
    let before = World::build(&c.steps).dump(&extra);
    let mut a = World::build(&c.steps);
    enum Direct {
        ParseErr(String),
        Reply(Reply),
    }
    let parsed = match catch(|| parse_zc(argv)) {
        Ok(p) => p,
        Err(_) => {
            ctx.label("direct_parse_panic");
            return Ok(()); // parser half
        }
    };
    let mut direct_unknown = false;
    let direct = match parsed {
        Err(e) => Direct::ParseErr(e),
        Ok(cmd) => {
            direct_unknown = matches!(cmd, Command::Unknown(_));
            let r = match catch(|| Reply::from_resp(&a.ex.execute(&cmd))) {
                Ok(r) => r,
                Err(_) => {
                    ctx.label("direct_exec_panic");
                    ctx.abstain();
                    return Ok(());
                }
            };
            if matches!(cmd, Command::Multi) && !r.is_error() {
                let _ = a.exec(&av(&["DISCARD"]));
            }
            Direct::Reply(r)
        }
    };
    let dump_a = a.dump(&extra);

    // ---- through the script, executor B
    let mut bw = World::build(&c.steps);
    let script = twin_script(c);
    let with_numbers = script.starts_with("local");
    let mut ev: Argv = vec![b("EVAL"), b(&script), b("0")];
    ev.extend(argv.iter().cloned());
    let lua = match catch(|| bw.exec(&ev)) {
        Ok(r) => r,
        Err(p) => return Err(format!("EVAL of {} panicked: {}", show_argv(argv), p)),
    };
    let dump_b = bw.dump(&extra);

    let how = if c.pcall { "redis.pcall" } else { "redis.call" };
    ctx.label(how);
    if with_numbers {
        ctx.label(if c.float { "lua_number_args:float" } else { "lua_number_args:integer" });
    }
    let describe = |d: &Direct| match d {
        Direct::ParseErr(e) => format!("rejected by the parser: {:?}", e),
        Direct::Reply(r) => r.show(),
    };
    let mismatch = |why: &str, direct: &Direct| -> String {
        format!(
            "{} {}{}: {}\n  direct        -> {}\n  {} -> {}\n  keyspace after direct:\n{}  keyspace after script:\n{}",
            how,
            show_argv(argv),
            if with_numbers { format!(" [script: {}]", script) } else { String::new() },
            why,
            describe(direct),
            how,
            lua.show(),
            show_dump(&dump_a),
            show_dump(&dump_b)
        )
    };

    // non-trivial: the command mutates state or returns a non-trivial reply
    let mutated = before != dump_a;
    let rich_reply = matches!(&direct, Direct::Reply(r) if matches!(r, Reply::Array(v) if !v.is_empty()) || matches!(r, Reply::Bulk(_)) || matches!(r, Reply::Int(i) if *i != 0));
    let kind = match &direct {
        Direct::ParseErr(_) => "parse_error",
        Direct::Reply(r) if r.is_error() => "error",
        Direct::Reply(_) => "ok",
    };
    ctx.label(&format!("direct:{}", kind));
    if mutated || rich_reply {
        ctx.nontrivial(&(name.clone(), c.pcall, kind, mutated, argv.len()));
    }

    // ---- 1. the translator does not know the command at all
    if let Some(n) = unknown_from_lua(&lua) {
        let direct_rejects_name = direct_unknown;
        if direct_rejects_name {
            ctx.label("unknown_everywhere");
            if dump_a != dump_b {
                return Err(mismatch("unknown to both paths, yet the keyspaces differ", &direct));
            }
            return Ok(());
        }
        ctx.label("lua_gap");
        if LUA_UNCOVERED_LISTED.contains(&n.as_str()) && n == name && ctx.tolerate("KF-C16-05") {
            return Ok(());
        }
        return Err(mismatch(
            "the RESP parsers know this command, the redis.call translator does not (and it is not in the listed coverage gap)",
            &direct,
        ));
    }
    ctx.label("lua_covered");

    // Commands Redis itself refuses inside scripts (flag `noscript`): a refusal with Redis'
    // wording is the documented behaviour, provided nothing changed.
    if REDIS_NOSCRIPT.contains(&name.as_str())
        && lua.error_text().map(|t| t.contains("not allowed from script")).unwrap_or(false)
    {
        ctx.label("noscript_refused");
        if dump_b != before {
            return Err(mismatch("the script was refused (noscript) but the keyspace changed", &direct));
        }
        return Ok(());
    }

    let lua_text = lua.error_text();
    let lua_says = |needle: &str| lua_text.as_deref().map(|t| t.contains(needle)).unwrap_or(false);

    // ---- 2. drift inside covered commands, one matcher per listed root cause
    // KF-C16-06: translator's SET has no EXAT / PXAT / KEEPTTL
    if name == "SET" {
        if let Some(t) = has_token(argv, 3, &["EXAT", "PXAT", "KEEPTTL"]) {
            if lua_says(&format!("Unknown SET option: {}", t)) && ctx.tolerate("KF-C16-06") {
                return Ok(());
            }
        }
    }
    // KF-C16-08: translator's EXPIRE takes no NX/XX/GT/LT flags
    if name == "EXPIRE"
        && argv.len() > 3
        && matches!(&direct, Direct::Reply(_))
        && lua_says("EXPIRE requires 2 arguments")
        && ctx.tolerate("KF-C16-08")
    {
        return Ok(());
    }
    // KF-C16-09: translator's ZRANGE takes no WITHSCORES (any 5th argument is an arity error)
    if name == "ZRANGE"
        && argv.len() == 5
        && matches!(&direct, Direct::Reply(_))
        && lua_says("ZRANGE requires 3 arguments")
        && ctx.tolerate("KF-C16-09")
    {
        return Ok(());
    }
    // KF-C16-10: ZRANGEBYSCORE LIMIT count: the parsers read an isize and cast it to usize
    // (negative = no limit, > isize::MAX rejected), the translator reads a usize (negative
    // rejected, up to u64::MAX accepted)
    if name == "ZRANGEBYSCORE" {
        let count_where = |pred: &dyn Fn(&str) -> bool| {
            argv.windows(3).any(|w| upper(&w[0]) == "LIMIT" && pred(&String::from_utf8_lossy(&w[2])))
        };
        // "-5", and also "-0": an isize but not a usize
        let negative = count_where(&|t| t.parse::<isize>().is_ok() && t.parse::<usize>().is_err());
        let beyond_isize = count_where(&|t| t.parse::<isize>().is_err() && t.parse::<usize>().is_ok());
        if negative
            && matches!(&direct, Direct::Reply(_))
            && lua_says("ZRANGEBYSCORE LIMIT count must be integer")
            && ctx.tolerate("KF-C16-10")
        {
            return Ok(());
        }
        if beyond_isize
            && matches!(&direct, Direct::ParseErr(e) if e == "ERR value is not an integer or out of range")
            && !lua.is_error()
            && dump_a == dump_b
            && ctx.tolerate("KF-C16-10")
        {
            return Ok(());
        }
    }

    match &direct {
        Direct::ParseErr(e) => {
            // KF-C16-07: the parsers reject SET … NX … XX, the translator executes it
            if name == "SET"
                && e == "ERR XX and NX options at the same time are not compatible"
                && (!lua.is_error() || lua_says("WRONGTYPE") || lua_says("invalid expire time"))
                && ctx.tolerate("KF-C16-07")
            {
                if dump_a != dump_b {
                    return Err(mismatch("SET NX XX through the script changed the keyspace", &direct));
                }
                return Ok(());
            }
            if !lua.is_error() {
                return Err(mismatch("the RESP parsers reject this invocation, the script executes it", &direct));
            }
            if dump_a != dump_b {
                return Err(mismatch("rejected on both paths, yet the keyspaces differ", &direct));
            }
            let same_text = if c.pcall { lua_text.as_deref() == Some(e.as_str()) } else { lua_says(e) };
            if same_text {
                return Ok(());
            }
            // KF-C16-11: both reject, with different words (the translator words its own
            // argument errors, without the ERR prefix)
            if ctx.tolerate("KF-C16-11") {
                return Ok(());
            }
            Err(mismatch("both paths reject the invocation but with different error texts", &direct))
        }
        Direct::Reply(ra) if INSTANCE_DEPENDENT.contains(&name.as_str()) => {
            ctx.label("instance_dependent");
            ctx.abstain();
            if name != "SPOP" && dump_a != dump_b {
                return Err(mismatch("the keyspaces differ", &direct));
            }
            if ra.is_error() != lua.is_error() || (*ra == Reply::Nil) != (lua == Reply::Nil) {
                return Err(mismatch("one path fails / answers nil, the other does not", &direct));
            }
            Ok(())
        }
        Direct::Reply(ra) => {
            if dump_a != dump_b {
                return Err(mismatch("the keyspaces differ", &direct));
            }
            if let Some(ea) = ra.error_text() {
                let ok = if c.pcall { lua_text.as_deref() == Some(ea.as_str()) } else { lua_says(&ea) };
                if ok {
                    return Ok(());
                }
                return Err(mismatch(
                    "the direct command fails; the script must fail with the same error (pcall: exactly, call: containing it)",
                    &direct,
                ));
            }
            let expect = normalise(&name, &conv(ra));
            if normalise(&name, &lua) == expect {
                return Ok(());
            }
            Err(mismatch(&format!("expected {} under the RESP->Lua->RESP conversion", expect.show()), &direct))
        }
    }
}

/// which top-level names of the grammar table the direct parser knows / the translator knows
fn coverage() -> (Vec<String>, Vec<String>) {
    let mut gap = Vec::new();
    let mut covered = Vec::new();
    for n in grammar::top_level_names() {
        if n.is_empty() || !n.is_ascii() {
            continue;
        }
        let direct_known = !matches!(parse_zc(&av(&[n])), Ok(Command::Unknown(_)));
        if !direct_known {
            continue;
        }
        let mut w = World::new();
        let r = w.exec(&vec![b("EVAL"), b("return redis.pcall(ARGV[1], 'k0', '1', '1')"), b("0"), b(n)]);
        if unknown_from_lua(&r).is_some() {
            gap.push(n.to_string());
        } else {
            covered.push(n.to_string());
        }
    }
    (gap, covered)
}

fn twin(steps: &[&[&str]], argv: &[&str], pcall: bool) -> TwinCase {
    TwinCase {
        steps: steps.iter().map(|s| Step::Cmd(av(s))).collect(),
        argv: av(argv),
        pcall,
        numbers: Vec::new(),
        float: false,
    }
}

fn main() {
    let args = vcore::parse_args();
    let s = Session::new(
        "C16",
        Level::Exploration,
        "parser half: argv vectors from a grammar table of every command / subcommand name either parser knows (4 letter cases), fixed arguments from adversarial pools \
         (integers at/beyond i64/u64/isize limits, floats incl. nan/inf/1e400, non-UTF-8, empty), option keywords in any order and repetition with / without values, repeating groups, \
         arity perturbation 0..max+2, one adversarial replacement; plus two exhaustive enumerations (arity matrix, option orders up to length 3). \
         non-trivial = parses in at least one parser and carries >= 1 option keyword or numeric argument; distinct by argv. \
         typed frames (typed_matrix, gen_typed): the same argv with elements of other RESP types (integer, simple string, error, nil bulk, nil array, nested / empty array) at single positions or at every numeric text, \
         and frames that are a nil array or not an array; non-trivial = carries an integer element and parses in at least one parser; distinct by (argv, retyped elements). \
         Lua half: C17's state generator, then one invocation (vcore data command / failure-biased form / grammar frame) executed directly and through EVAL redis.call|pcall on a twin executor \
         (all arguments as Lua strings; in ~1/6 of the twins the integer-valued ones, |n| <= 2^53 in canonical decimal, as Lua integers or floats); \
         non-trivial = the command mutates the keyspace or returns a non-empty array, a bulk or a non-zero integer; distinct by (name, call|pcall, outcome kind, mutated, argc)",
        &args,
    );
    s.assume("RESP -> Lua -> RESP conversion as documented by Redis: status <-> {ok=}, error raised by call / returned by pcall, integer <-> number, bulk <-> string, nil -> false -> nil, array <-> table, a nil inside an array ends the Lua table");
    s.assume("for redis.call only 'is an error and contains the direct error text' is required (Redis versions differ in decoration); for redis.pcall the text must be equal");
    s.assume("commands Redis 7 flags noscript (AUTH EVAL EVALSHA SCRIPT FUNCTION MULTI EXEC DISCARD WATCH UNWATCH CLIENT WAIT CONFIG ACL DEBUG) may be refused from scripts with '… not allowed from script' provided the keyspace is unchanged");
    s.assume("SMEMBERS / HGETALL replies are compared as multisets (two executor instances iterate their hash tables in different orders)");
    s.assume("a Lua number argument that is an integer of magnitude <= 2^53 reaches the command as its canonical decimal text (Redis converts number arguments of redis.call to strings), whether the Lua value is an integer or a float");
    s.assume("Debug rendering of Command is injective enough: two different Commands do not render the same");

    // ---------------------------------------------------------------- probes
    let frame_probe = |argv: &[&str]| {
        let c = FrameCase::plain(av(argv));
        s.strict_eval(|ctx| check_frame(&c, ctx)).err()
    };
    s.probe("KF-C16-01", json!({"argv": ["LPUSH", "k"], "also": [["RPUSH", "k"], ["SADD", "k"], ["LPUSH"]]}), || {
        frame_probe(&["LPUSH", "k"]).or_else(|| frame_probe(&["RPUSH", "k"])).or_else(|| frame_probe(&["SADD", "k"]))
    });
    s.probe("KF-C16-02", json!({"argv": ["ACL", "HELP"], "also": [["ACL", "LOAD"], ["ACL", "SAVE"]]}), || {
        frame_probe(&["ACL", "HELP"]).or_else(|| frame_probe(&["ACL", "LOAD"])).or_else(|| frame_probe(&["ACL", "SAVE"]))
    });
    s.probe("KF-C16-03", json!({"argv": ["SCAN", "0", "MATCH"], "also": [["SCAN", "0", "COUNT"], ["HSCAN", "k", "0", "MATCH"], ["ZSCAN", "k", "0", "COUNT"]]}), || {
        frame_probe(&["SCAN", "0", "MATCH"])
            .or_else(|| frame_probe(&["SCAN", "0", "COUNT"]))
            .or_else(|| frame_probe(&["HSCAN", "k", "0", "MATCH"]))
            .or_else(|| frame_probe(&["ZSCAN", "k", "0", "COUNT"]))
    });
    s.probe("KF-C16-04", json!({"argv": ["EVAL", "return 1", "-1"], "also": [["EVALSHA", "x", "-3", "a"]]}), || {
        frame_probe(&["EVAL", "return 1", "-1"]).or_else(|| frame_probe(&["EVALSHA", "x", "-3", "a"]))
    });
    let twin_probe = |c: TwinCase| s.strict_eval(|ctx| check_twin(&c, ctx)).err();
    s.probe("KF-C16-05", json!({"argv": ["APPEND", "k0", "x"], "via": "EVAL \"return redis.pcall(table.unpack(ARGV))\" 0 APPEND k0 x"}), || {
        let (gap, _) = coverage();
        if gap.is_empty() {
            None
        } else {
            twin_probe(twin(&[], &["APPEND", "k0", "x"], true))
                .or(Some(format!("{} commands cannot be called from scripts: {}", gap.len(), gap.join(" "))))
        }
    });
    s.probe("KF-C16-06", json!({"argv": ["SET", "k0", "v", "KEEPTTL"], "also": [["SET", "k0", "v", "PXAT", "99999"], ["SET", "k0", "v", "EXAT", "99"]]}), || {
        twin_probe(twin(&[], &["SET", "k0", "v", "KEEPTTL"], true))
            .or_else(|| twin_probe(twin(&[], &["SET", "k0", "v", "PXAT", "99999"], false)))
            .or_else(|| twin_probe(twin(&[], &["SET", "k0", "v", "EXAT", "99"], true)))
    });
    s.probe("KF-C16-07", json!({"argv": ["SET", "k0", "v", "NX", "XX"]}), || {
        twin_probe(twin(&[], &["SET", "k0", "v", "NX", "XX"], true))
    });
    s.probe("KF-C16-08", json!({"steps": [["SET", "k0", "v"]], "argv": ["EXPIRE", "k0", "100", "NX"]}), || {
        twin_probe(twin(&[&["SET", "k0", "v"]], &["EXPIRE", "k0", "100", "NX"], true))
    });
    s.probe("KF-C16-09", json!({"steps": [["ZADD", "k0", "1", "a"]], "argv": ["ZRANGE", "k0", "0", "-1", "WITHSCORES"]}), || {
        twin_probe(twin(&[&["ZADD", "k0", "1", "a"]], &["ZRANGE", "k0", "0", "-1", "WITHSCORES"], true))
    });
    s.probe("KF-C16-10", json!({"steps": [["ZADD", "k0", "1", "a"]], "argv": ["ZRANGEBYSCORE", "k0", "-inf", "+inf", "LIMIT", "0", "-1"]}), || {
        twin_probe(twin(&[&["ZADD", "k0", "1", "a"]], &["ZRANGEBYSCORE", "k0", "-inf", "+inf", "LIMIT", "0", "-1"], true))
    });
    s.probe("KF-C16-11", json!({"argv": ["GET"], "direct": "ERR wrong number of arguments for 'get' command", "pcall": "GET requires 1 argument"}), || {
        twin_probe(twin(&[], &["GET"], true))
    });

    // ---------------------------------------------------------------- parser half
    s.describe_check("arity_matrix", "every prefix (arity 0..max+2) of name + fixed + each option once + two repeating groups + two extra arguments, for every command/subcommand of the table in three letter cases; EVAL/EVALSHA x 14 numkeys values x 0..4 arguments");
    s.run_enumerated("arity_matrix", grammar::arity_matrix().into_iter().map(FrameCase::plain), check_frame);
    s.describe_check("option_orders", "every sequence with repetition of <= 3 option keywords of every command with options, canonical values, with and without the last keyword's value");
    s.run_enumerated("option_orders", grammar::option_orders().into_iter().map(FrameCase::plain), check_frame);
    s.run_cases(
        "gen_frames",
        s.scale(3_000_000, 30_000_000),
        || grammar::frame(None).prop_map(FrameCase::plain),
        check_frame,
    );
    s.describe_check("typed_matrix", "frames whose elements are not all bulk strings: every prefix of every command's long canonical form x every single position (name included) x {integer, simple string, error, nil bulk, nil array, nested array, empty array}; all numeric texts as integer elements at once; every option-order frame with each / all numeric option values as integer elements; every integer position x integer pool at the i64/u32 limits; frames that are a nil array or not an array");
    s.run_enumerated("typed_matrix", grammar::typed_matrix().into_iter().map(FrameCase::typed), check_frame);
    s.run_cases(
        "gen_typed",
        s.scale(500_000, 10_000_000),
        || grammar::typed_frame().prop_map(FrameCase::typed),
        check_frame,
    );

    // ---------------------------------------------------------------- Lua half
    let (gap, covered) = coverage();
    s.note("lua_translator_covers", json!(covered));
    s.note("lua_translator_gap", json!(gap));
    s.describe_check("lua_coverage", "every top-level command name of the grammar table that the RESP parser knows, invoked once through redis.pcall: does the translator know the name");
    s.run_enumerated(
        "lua_coverage",
        grammar::top_level_names().into_iter().filter(|n| !n.is_empty() && n.is_ascii()).map(|n| TwinCase {
            steps: vec![],
            argv: av(&[n, "k0", "1", "1"]),
            pcall: true,
            numbers: Vec::new(),
            float: false,
        }),
        |c, ctx| {
            let name = cmd_name(&c.argv);
            let mut w = World::new();
            let mut ev: Argv = vec![b("EVAL"), b(PCALL), b("0")];
            ev.extend(c.argv.iter().cloned());
            let r = w.exec(&ev);
            let direct_known = !matches!(parse_zc(&av(&[name.as_str()])), Ok(Command::Unknown(_)));
            let lua_known = unknown_from_lua(&r).is_none();
            ctx.nontrivial(&name);
            if LUA_COVERED.contains(&name.as_str()) && !lua_known {
                return Err(format!("the redis.call translator no longer knows {} (reply {})", name, r.show()));
            }
            if direct_known && !lua_known {
                ctx.label("gap");
                if LUA_UNCOVERED_LISTED.contains(&name.as_str()) && ctx.tolerate("KF-C16-05") {
                    return Ok(());
                }
                return Err(format!(
                    "{} is known to the RESP parsers but not callable from scripts (reply {}), and is not part of the listed coverage gap",
                    name,
                    r.show()
                ));
            }
            ctx.label(if lua_known { "covered" } else { "unknown_everywhere" });
            Ok(())
        },
    );

    s.run_cases(
        "lua_twins",
        s.scale(100_000, 3_000_000),
        || {
            let o = GenOpts {
                key_pool: state::NKEYS,
                ..Default::default()
            };
            let invocation = prop_oneof![
                8 => vcore::gen::data_command(&o),
                5 => forms::targeted(),
                5 => grammar::frame(Some(LUA_COVERED)),
                1 => grammar::frame(None),
                1 => forms::mutated(&o),
            ];
            // 1 twin in 2 (those that have such arguments: about a third): the script passes (a subset of) the integer-valued arguments as Lua
            // numbers (integers or floats) instead of strings
            (state_steps(5, 6), invocation, any::<bool>(), (0u8..2, any::<u8>(), any::<bool>())).prop_map(
                |(steps, argv, pcall, (gate, mask, float))| {
                    let mut numbers = Vec::new();
                    if gate == 0 {
                        let cand: Vec<usize> = (1..argv.len()).filter(|p| small_canonical_int(&argv[*p])).collect();
                        numbers = cand.iter().enumerate().filter(|(i, _)| mask == 0 || mask & (1 << (i % 8)) != 0).map(|(_, p)| *p).collect();
                        if numbers.is_empty() {
                            numbers = cand;
                        }
                    }
                    let float = float && !numbers.is_empty();
                    TwinCase { steps, argv, pcall, numbers, float }
                },
            )
        },
        check_twin,
    );

    s.finish();
}
