//! C08 — newest write wins: a node's stamps only grow, also across restart.
//!
//! Two checks over one case type and one oracle (see DESIGN.md §3 C08, notes/C08.md):
//! `restart_histories` hands the recovery sources to the restarted node in memory (any subset
//! of checkpoints / delta log, also lossy ones); `persisted_histories` (round 5) runs the same
//! histories with the repository's own persistence chain between the node and its next
//! incarnation: every emitted delta goes to a `StreamingPersistence` write buffer (flushed to
//! segments at generated points, lost with the process otherwise) and optionally to a WAL
//! (`WalRotator`, generated tail loss), checkpoints are written by `CheckpointManager` and
//! installed with `Manifest::compact_segments`, and the next incarnation is fed what
//! `RecoveryManager` and the WAL replay return, in the server's start-up order. There the
//! stamps "shown" to the new incarnation are those the harness handed to the persistence
//! layer and that layer acknowledged (plus whatever recovery really returned).
//!
//! `restart_histories`:
//!
//! A node N (production `ReplicatedShardedState`, replica id 1, delta sink attached exactly as
//! `server_persistent` attaches it) runs a generated multi-phase history. Within a phase: local
//! SET / HSET / DEL / HDEL, remote deltas from replicas 2/3 with arbitrary (also far-ahead)
//! stamps, checkpoints (`snapshot_state()`), echoes from a peer P (replica 9) that is shown
//! everything N is shown. Between phases N "crashes": a fresh `ReplicatedShardedState` with
//! the same replica id is fed `apply_recovered_state(checkpoint?, segment deltas)` and
//! optionally `apply_recovered_state(None, WAL deltas)` (the two calls the server makes) with
//! a generated choice of sources.
//!
//! Oracle
//!  (i)  every stamp a local write introduces (the written register/field stamps and the
//!       delta's outer stamp) is strictly greater than every stamp N has been shown for that
//!       shard in its current incarnation (own deltas, remote deltas, recovered checkpoint
//!       entries and recovered deltas, including per-field stamps), and carries N's replica id;
//!  (ii) consequences: P, holding only values N had observed, serves the new value after
//!       merging the delta; N still serves it after P echoes its state back; a later recovery
//!       whose sources contain the write serves it.

use proptest::prelude::*;
use redis_sim::production::ReplicatedShardedState;
use redis_sim::redis::SDS;
use redis_sim::replication::{
    ConsistencyLevel, CrdtValue, LamportClock, ReplicaId, ReplicatedValue, ReplicationConfig,
    ReplicationDelta, ShardReplicaState,
};
use redis_sim::streaming::{
    delta_sink_channel, CheckpointConfig, CheckpointInfo, CheckpointManager, DeltaSinkReceiver,
    InMemoryObjectStore, InMemoryWalStore, ManifestManager, RecoveryManager, SimulatedClock,
    StreamingPersistence, WalEntry, WalRotator, WriteBufferConfig,
};
use serde::{Deserialize, Serialize};
use serde_json::json;
use std::collections::hash_map::DefaultHasher;
use std::collections::{BTreeMap, BTreeSet, HashMap};
use std::hash::{Hash, Hasher};
use std::sync::{Arc, OnceLock};
use vcore::resp::{parse_zc, Reply};
use vcore::time::VerifTime;
use vcore::{CaseCtx, Level, Session};

const KF1: &str = "KF-C08-01";
const N_ID: u64 = 1;
const PEER_ID: u64 = 9;
const NUM_SHARDS: usize = 16;
/// object-store prefix of the persisted mode
const PREFIX: &str = "c08";

type Stamp = (u64, u64);

fn stamp(c: &LamportClock) -> Stamp {
    (c.time, c.replica_id.0)
}

/// Same function as `production::replicated_state::hash_key` (private there): SipHash with the
/// fixed keys of `DefaultHasher::new()` over `str::hash`, modulo 16.
fn shard_of(key: &str) -> usize {
    let mut h = DefaultHasher::new();
    key.hash(&mut h);
    (h.finish() as usize) % NUM_SHARDS
}

/// Key pool chosen so that keys share shards: shard A holds two string keys and one hash key,
/// shard B one string and one hash key, shards C and D one key each.
struct Pool {
    skeys: Vec<String>,
    hkeys: Vec<String>,
    /// keys on which both string and hash commands run (type flips): the stamp invariant (i)
    /// is judged for them like for every other key, the value-level consequences are not
    /// (C06's open type-flip findings would blur them)
    xkeys: Vec<String>,
}

fn pool() -> &'static Pool {
    static P: OnceLock<Pool> = OnceLock::new();
    P.get_or_init(|| {
        let mut by_shard: BTreeMap<usize, Vec<String>> = BTreeMap::new();
        for i in 0..400 {
            let k = format!("k{}", i);
            by_shard.entry(shard_of(&k)).or_default().push(k);
        }
        let groups: Vec<&Vec<String>> = by_shard.values().filter(|v| v.len() >= 4).collect();
        assert!(groups.len() >= 4, "key pool: not enough populated shards");
        Pool {
            skeys: vec![
                groups[0][0].clone(),
                groups[0][1].clone(),
                groups[1][0].clone(),
                groups[2][0].clone(),
            ],
            hkeys: vec![groups[0][2].clone(), groups[1][1].clone(), groups[3][0].clone()],
            xkeys: vec![groups[0][3].clone(), groups[2][1].clone()],
        }
    })
}

const FIELDS: [&str; 3] = ["f0", "f1", "f2"];

fn skey(i: u8) -> &'static str {
    let p = pool();
    &p.skeys[i as usize % p.skeys.len()]
}
fn hkey(i: u8) -> &'static str {
    let p = pool();
    &p.hkeys[i as usize % p.hkeys.len()]
}
fn field(i: u8) -> &'static str {
    FIELDS[i as usize % FIELDS.len()]
}

// ---------------------------------------------------------------------------------------
// case
// ---------------------------------------------------------------------------------------

#[derive(Clone, Debug, Serialize, Deserialize)]
enum Op {
    /// SET <string key k> <unique value>
    Set { k: u8 },
    /// HSET <hash key k> f v [f v]
    HSet { k: u8, f: Vec<u8> },
    /// DEL <string key k>
    Del { k: u8 },
    /// HDEL <hash key k> <field>
    HDel { k: u8, f: u8 },
    /// a delta from replica `rep` (2 or 3) written at logical time `t` (fresh replica state with
    /// its clock jumped to t-1): string write (hash = false) or hash write of fields `f`;
    /// `del` appends a delete / field delete. Delivered to N and to the peer.
    Remote { rep: u8, hash: bool, k: u8, f: Vec<u8>, t: u64, del: bool },
    /// snapshot_state() kept as a checkpoint candidate
    Checkpoint,
    /// the peer sends its current value of one key back to N (anti-entropy style)
    Echo { hash: bool, k: u8 },
    /// any other client command at N (reads, TTL commands, conditional / read-modify-write /
    /// multi-key / unrecorded / failing / unknown commands, FLUSHALL/FLUSHDB). `$V` in an
    /// argument is replaced by a value unique to the step, `$N` by a unique number.
    Local { argv: Vec<String> },
    /// persisted mode only: the write buffer is flushed into a segment (what the persistence
    /// actor does on its timer / size threshold); a no-op in the in-memory mode
    Flush,
}

#[derive(Clone, Debug, Serialize, Deserialize)]
struct Recovery {
    /// which of the checkpoints taken so far (fraction of the list); None = no checkpoint
    ckpt: Option<u16>,
    /// range (fractions of N's delta log) replayed as segment deltas in the first call
    seg: (u16, u16),
    /// optional second call apply_recovered_state(None, log[range]) (WAL replay)
    wal: Option<(u16, u16)>,
    /// shards whose data is missing from every source (bit i = shard i)
    drop_shards: u16,
    /// persisted mode only (there the fields above are not used: the sources are whatever the
    /// store and the WAL hold): how many of the newest WAL entries of the dying incarnation
    /// never became durable (0 = none lost, 255 = all of them)
    #[serde(default)]
    wal_lose: u8,
}

/// Persisted mode: the recovery sources go through the repository's persistence chain.
#[derive(Clone, Debug, Serialize, Deserialize)]
struct StoreCfg {
    /// WAL enabled (as `server_persistent` with a WAL config): rotation threshold in bytes
    wal: Option<u16>,
}

#[derive(Clone, Debug, Serialize, Deserialize)]
struct Phase {
    /// crash + recovery before the ops of this phase (None for the first phase)
    recovery: Option<Recovery>,
    ops: Vec<Op>,
}

#[derive(Clone, Debug, Serialize, Deserialize)]
struct Case {
    phases: Vec<Phase>,
    /// at the end the peer echoes every key back to N
    gossip_back: bool,
    /// Some = persisted mode (check `persisted_histories`)
    #[serde(default)]
    store: Option<StoreCfg>,
}

fn time_pool() -> impl Strategy<Value = u64> {
    prop_oneof![
        4 => 1u64..12,
        2 => 12u64..200,
        1 => Just(1000u64),
        1 => Just(1u64 << 32),
        1 => Just((1u64 << 53) + 1),
        1 => Just(1u64 << 62),
    ]
}

fn fields_strategy() -> impl Strategy<Value = Vec<u8>> {
    proptest::collection::btree_set(0u8..3, 1..3).prop_map(|s| s.into_iter().collect())
}

/// Commands that reach the shard actors between the tracked writes. Everything the
/// coordinator routes (first key -> shard) or fans out (FLUSH*, KEYS, DBSIZE), whether
/// `record_mutation_post_execute` records it, ignores it, or records it although it failed.
/// String commands stay on string keys and hash commands on hash keys (type flips and their
/// open findings belong to C06).
fn local_cmd_strategy() -> impl Strategy<Value = Vec<String>> {
    let p = pool();
    let sk = (0usize..p.skeys.len()).prop_map(move |i| pool().skeys[i].clone());
    let hk = (0usize..p.hkeys.len()).prop_map(move |i| pool().hkeys[i].clone());
    let fl = (0usize..FIELDS.len()).prop_map(|i| FIELDS[i].to_string());
    let xk = (0usize..p.xkeys.len()).prop_map(move |i| pool().xkeys[i].clone());
    let t = |parts: &[&str]| -> Vec<String> { parts.iter().map(|x| x.to_string()).collect() };
    (sk.clone(), sk, hk, fl, xk, 0u8..78).prop_map(move |(s, s2, h, f, x, which)| {
        let (s, s2, h, f, x) = (s.as_str(), s2.as_str(), h.as_str(), f.as_str(), x.as_str());
        match which {
            // type flips on the flip keys: string and hash writes (and deletes) on the same key,
            // also through the read-modify-write commands that reach the recorder
            56..=59 => t(&["SET", x, "$V"]),
            60..=63 => t(&["HSET", x, f, "$V"]),
            64 => t(&["DEL", x]),
            65 => t(&["GETSET", x, "$V"]),
            66 => t(&["APPEND", x, "$V"]),
            67 => t(&["INCR", x]),
            68 => t(&["HDEL", x, f]),
            69 => t(&["HINCRBY", x, f, "2"]),
            70 => t(&["SET", x, "$N"]),
            71 => t(&["HSET", x, f, "$N", "f0", "$V"]),
            72 => t(&["SET", x, "$V", "NX"]),
            73 => t(&["DEL", x, s]),
            74 => t(&["GET", x]),
            75 => t(&["HGETALL", x]),
            76 => t(&["SET", x, "$V", "XX"]),
            77 => t(&["HSET", x, f, "$V"]),
            // reads and server commands
            0 => t(&["GET", s]),
            1 => t(&["GET", h]),
            2 => t(&["HGET", h, f]),
            3 => t(&["HGETALL", h]),
            4 => t(&["EXISTS", s]),
            5 => t(&["EXISTS", s, s2]),
            6 => t(&["MGET", s, s2]),
            7 => t(&["TYPE", s]),
            8 => t(&["TTL", s]),
            9 => t(&["STRLEN", s]),
            10 => t(&["KEYS", "*"]),
            11 => t(&["DBSIZE"]),
            12 => t(&["PING"]),
            13 => t(&["HLEN", h]),
            14 => t(&["NOSUCHCMD", s]),
            // TTL commands (positive only: the clock never moves in this check)
            15 => t(&["EXPIRE", s, "100"]),
            16 => t(&["PEXPIRE", h, "100000"]),
            17 => t(&["PERSIST", s]),
            // recorded read-modify-write / conditional / multi-key commands
            18 | 19 => t(&["INCR", s]),
            20 => t(&["DECR", s]),
            21 => t(&["INCRBY", s, "5"]),
            22 | 23 => t(&["APPEND", s, "$V"]),
            24 => t(&["GETSET", s, "$V"]),
            25 | 26 => t(&["SET", s, "$V", "NX"]),
            27 => t(&["SET", s, "$V", "XX"]),
            28 | 29 => t(&["SET", s, "$N"]),
            30 => t(&["SET", s, "$V", "EX", "100"]),
            31 => t(&["SET", s, "$V", "GET"]),
            32 => t(&["SET", s, "$V", "KEEPTTL"]),
            33 | 34 => t(&["HINCRBY", h, f, "2"]),
            35 => t(&["HSET", h, f, "$N"]),
            36 | 37 => t(&["DEL", s, s2]),
            38 => t(&["DEL", "nosuchkey"]),
            39 => t(&["DEL", h]),
            40 => t(&["HDEL", h, f, "f9"]),
            // mutating commands the recorder ignores
            41 => t(&["SETNX", s, "$V"]),
            42 => t(&["MSET", s, "$V", s2, "$N"]),
            43 => t(&["GETDEL", s]),
            44 => t(&["INCRBYFLOAT", s, "1.5"]),
            45 => t(&["SETRANGE", s, "0", "$V"]),
            46 => t(&["LPUSH", "lst", "$V"]),
            47 => t(&["SADD", "st", "$V"]),
            // commands that fail
            48 => t(&["LPUSH", s, "x"]),
            49 => t(&["HSET", h]),
            50 => t(&["INCRBY", s, "notanumber"]),
            // whole-keyspace commands
            51 | 52 | 53 => t(&["FLUSHALL"]),
            54 => t(&["FLUSHDB"]),
            _ => t(&["INFO"]),
        }
    })
}

fn op_strategy() -> impl Strategy<Value = Op> {
    prop_oneof![
        9 => local_cmd_strategy().prop_map(|argv| Op::Local { argv }),
        6 => (0u8..4).prop_map(|k| Op::Set { k }),
        5 => (0u8..3, fields_strategy()).prop_map(|(k, f)| Op::HSet { k, f }),
        1 => (0u8..4).prop_map(|k| Op::Del { k }),
        1 => (0u8..3, 0u8..3).prop_map(|(k, f)| Op::HDel { k, f }),
        4 => (2u8..4, any::<bool>(), 0u8..4, fields_strategy(), time_pool(), prop::bool::weighted(0.15))
            .prop_map(|(rep, hash, k, f, t, del)| Op::Remote { rep, hash, k, f, t, del }),
        3 => Just(Op::Checkpoint),
        1 => (any::<bool>(), 0u8..4).prop_map(|(hash, k)| Op::Echo { hash, k }),
    ]
}

/// Persisted mode: the same steps plus flushes; deletes are more frequent (a tombstone is the
/// one kind of entry that carries a stamp but no data, i.e. what a persistence layer may be
/// tempted to leave out).
fn store_op_strategy() -> impl Strategy<Value = Op> {
    prop_oneof![
        9 => local_cmd_strategy().prop_map(|argv| Op::Local { argv }),
        6 => (0u8..4).prop_map(|k| Op::Set { k }),
        5 => (0u8..3, fields_strategy()).prop_map(|(k, f)| Op::HSet { k, f }),
        3 => (0u8..4).prop_map(|k| Op::Del { k }),
        3 => (0u8..3, 0u8..3).prop_map(|(k, f)| Op::HDel { k, f }),
        4 => (2u8..4, any::<bool>(), 0u8..4, fields_strategy(), time_pool(), prop::bool::weighted(0.15))
            .prop_map(|(rep, hash, k, f, t, del)| Op::Remote { rep, hash, k, f, t, del }),
        3 => Just(Op::Checkpoint),
        1 => (any::<bool>(), 0u8..4).prop_map(|(hash, k)| Op::Echo { hash, k }),
        4 => Just(Op::Flush),
    ]
}

fn recovery_strategy() -> impl Strategy<Value = Recovery> {
    let fr = || any::<u16>();
    let range = || (any::<u16>(), any::<u16>()).prop_map(|(a, b)| (a.min(b), a.max(b)));
    let rec = |ckpt, seg, wal| Recovery { ckpt, seg, wal, drop_shards: 0, wal_lose: 0 };
    let base = prop_oneof![
        // checkpoint only (latest more often than a stale one)
        3 => prop_oneof![Just(65535u16), fr()].prop_map(move |c| rec(Some(c), (0, 0), None)),
        // deltas only
        2 => range().prop_map(move |seg| rec(None, seg, None)),
        1 => Just(rec(None, (0, 65535), None)),
        // both; a stale checkpoint with newer deltas is the case ckpt small / seg late
        3 => (fr(), range()).prop_map(move |(c, seg)| rec(Some(c), seg, None)),
        // everything
        1 => Just(rec(Some(65535), (0, 65535), None)),
        // nothing at all
        1 => Just(rec(None, (0, 0), None)),
        // second call with WAL entries
        2 => (proptest::option::of(fr()), range(), range())
            .prop_map(move |(ckpt, seg, wal)| rec(ckpt, seg, Some(wal))),
    ];
    (base, prop_oneof![4 => Just(0u16), 1 => any::<u16>()]).prop_map(|(mut r, m)| {
        r.drop_shards = m;
        r
    })
}

/// Persisted mode: what survives is decided by the history itself (flushes, checkpoints) and
/// by how much of the WAL tail became durable.
fn store_recovery_strategy() -> impl Strategy<Value = Recovery> {
    prop_oneof![6 => Just(0u8), 3 => 1u8..4, 1 => Just(255u8)]
        .prop_map(|wal_lose| Recovery { ckpt: None, seg: (0, 0), wal: None, drop_shards: 0, wal_lose })
}

fn case_strategy(thorough: bool) -> impl Strategy<Value = Case> {
    let max_ops = if thorough { 14 } else { 9 };
    let ops = move || proptest::collection::vec(op_strategy(), 1..max_ops);
    let first = (ops(), prop::bool::weighted(0.5)).prop_map(|(mut ops, ck)| {
        if ck {
            ops.push(Op::Checkpoint);
        }
        Phase { recovery: None, ops }
    });
    let later = move || {
        (recovery_strategy(), ops()).prop_map(|(r, ops)| Phase { recovery: Some(r), ops })
    };
    (first, later(), proptest::option::weighted(0.4, later()), any::<bool>()).prop_map(
        |(p1, p2, p3, gossip_back)| {
            let mut phases = vec![p1, p2];
            if let Some(p) = p3 {
                phases.push(p);
            }
            Case { phases, gossip_back, store: None }
        },
    )
}

/// Persisted mode. Every phase may end with a flush and / or a checkpoint: the next recovery
/// has no other sources than what the history itself made durable.
fn store_case_strategy(thorough: bool) -> impl Strategy<Value = Case> {
    let max_ops = if thorough { 14 } else { 9 };
    let phase = move || {
        (
            proptest::collection::vec(store_op_strategy(), 1..max_ops),
            prop::bool::weighted(0.3),
            prop::bool::weighted(0.5),
        )
            .prop_map(|(mut ops, fl, ck)| {
                if fl {
                    ops.push(Op::Flush);
                }
                if ck {
                    ops.push(Op::Checkpoint);
                }
                ops
            })
    };
    let later = move || {
        (store_recovery_strategy(), phase()).prop_map(|(r, ops)| Phase { recovery: Some(r), ops })
    };
    let wal = prop_oneof![
        11 => Just(None),
        // rotation threshold: a file per entry / a few entries per file / one file
        9 => prop_oneof![Just(0u16), 0u16..600, Just(60000u16)].prop_map(Some),
    ];
    (phase(), later(), proptest::option::weighted(0.4, later()), any::<bool>(), wal).prop_map(
        |(p1, p2, p3, gossip_back, wal)| {
            let mut phases = vec![Phase { recovery: None, ops: p1 }, p2];
            if let Some(p) = p3 {
                phases.push(p);
            }
            Case { phases, gossip_back, store: Some(StoreCfg { wal }) }
        },
    )
}

// ---------------------------------------------------------------------------------------
// nodes
// ---------------------------------------------------------------------------------------

struct Node {
    st: ReplicatedShardedState<VerifTime>,
    rx: DeltaSinkReceiver,
}

fn new_node(id: u64) -> Node {
    let cfg = ReplicationConfig {
        enabled: false,
        replica_id: id,
        consistency_level: ConsistencyLevel::Eventual,
        ..ReplicationConfig::default()
    };
    let mut st = ReplicatedShardedState::with_time_source(cfg, VerifTime::new(0));
    let (tx, rx) = delta_sink_channel();
    // as server_persistent does: every delta of a local write goes to the persistence sink
    st.set_delta_sink(tx);
    Node { st, rx }
}

async fn exec(node: &Node, argv: &[&str]) -> Result<(Reply, Vec<ReplicationDelta>), String> {
    let a: Vec<Vec<u8>> = argv.iter().map(|s| s.as_bytes().to_vec()).collect();
    let cmd = parse_zc(&a).map_err(|e| format!("harness: {:?} does not parse: {}", argv, e))?;
    let r = node.st.execute(cmd).await;
    Ok((Reply::from_resp(&r), node.rx.drain()))
}

/// What a client reads for a slot: GET key, or HGET key field.
async fn read_slot(node: &Node, key: &str, fld: &str) -> Result<Reply, String> {
    let (r, _) = if fld.is_empty() {
        exec(node, &["GET", key]).await?
    } else {
        exec(node, &["HGET", key, fld]).await?
    };
    Ok(r)
}

/// (field or "" for the string register, stamp, live value)
fn slots_of(v: &ReplicatedValue) -> Vec<(String, Stamp, Option<Vec<u8>>)> {
    match &v.crdt {
        CrdtValue::Lww(l) => vec![(
            String::new(),
            stamp(&l.timestamp),
            l.get().map(|s| s.as_bytes().to_vec()),
        )],
        CrdtValue::Hash(h) => {
            let mut out: Vec<_> = h
                .iter()
                .map(|(f, l)| (f.clone(), stamp(&l.timestamp), l.get().map(|s| s.as_bytes().to_vec())))
                .collect();
            out.sort();
            out
        }
        _ => Vec::new(),
    }
}

fn all_stamps(v: &ReplicatedValue) -> Vec<Stamp> {
    let mut out: Vec<Stamp> = slots_of(v).into_iter().map(|s| s.1).collect();
    out.push(stamp(&v.timestamp));
    out
}

fn show_value(v: &ReplicatedValue) -> String {
    let slots: Vec<String> = slots_of(v)
        .iter()
        .map(|(f, st, val)| {
            format!(
                "{}={}@({},r{})",
                if f.is_empty() { "<reg>" } else { f },
                val.as_ref().map(|b| vcore::show(b)).unwrap_or_else(|| "<tomb>".into()),
                st.0,
                st.1
            )
        })
        .collect();
    format!("{{{} outer=({},r{})}}", slots.join(" "), v.timestamp.time, v.timestamp.replica_id.0)
}

#[derive(Clone, Debug)]
struct LastW {
    value: Option<String>,
    stamp: Stamp,
    seen_before: Stamp,
    tolerated: bool,
    pre_ok: bool,
    inc: usize,
    log_idx: usize,
    what: String,
}

type Sp = StreamingPersistence<InMemoryObjectStore, SimulatedClock>;

/// Persisted mode: the repository's persistence chain of node N, plus the harness' own record
/// (log indices) of what it handed to that chain and the chain acknowledged.
struct StoreH {
    os: Arc<InMemoryObjectStore>,
    /// write buffer + segment writer of the running incarnation (dies with it)
    sp: Sp,
    /// wall clock of the checkpoint manager (names the checkpoint objects); not the node's clock
    ck_time: VerifTime,
    /// WAL files and rotation threshold, if the WAL is enabled
    wal: Option<(InMemoryWalStore, usize)>,
    /// pushed, not yet flushed
    buffer: Vec<usize>,
    /// flushed segments the manifest still lists (id, log indices)
    live_segments: Vec<(u64, Vec<usize>)>,
    last_segment_id: Option<u64>,
    /// the snapshot handed to the latest installed checkpoint
    ckpt: Option<HashMap<String, ReplicatedValue>>,
    /// WAL entries of the running incarnation not yet known durable / durable entries of all incarnations
    wal_pending: Vec<usize>,
    wal_durable: Vec<usize>,
}

async fn new_sp(os: &Arc<InMemoryObjectStore>) -> Result<Sp, String> {
    StreamingPersistence::with_clock(
        os.clone(),
        PREFIX.to_string(),
        N_ID,
        WriteBufferConfig::test(),
        SimulatedClock::new(0),
    )
    .await
    .map_err(|e| format!("StreamingPersistence::with_clock: {}", e))
}

fn has_tombstone(v: &ReplicatedValue) -> bool {
    slots_of(v).iter().any(|(_, _, val)| val.is_none())
}

struct H<'a, 'b> {
    ctx: &'a mut CaseCtx<'b>,
    store: Option<StoreH>,
    kf_open: bool,
    n: Node,
    p: Node,
    inc: usize,
    log: Vec<ReplicationDelta>,
    ckpts: Vec<HashMap<String, ReplicatedValue>>,
    seen_ckpt: [Stamp; NUM_SHARDS],
    seen_other: [Stamp; NUM_SHARDS],
    recovered_keys: BTreeSet<String>,
    peer_max: BTreeMap<(String, String), Stamp>,
    last_w: BTreeMap<(String, String), LastW>,
    /// every (key, slot, stamp, content) N has been shown in this incarnation; a slot of a
    /// local delta that is not in here was introduced by that command
    shown_slots: BTreeSet<(String, String, Stamp, Option<Vec<u8>>)>,
    /// keys whose executor entry may stem from a command the recorder ignores (SETNX, MSET, ...)
    /// in this incarnation: "acknowledged delete => delta" is not demanded for them
    unrecorded: BTreeSet<String>,
    trace: Vec<String>,
    nontrivial: bool,
}

enum Written {
    Set(String),
    HSet(Vec<(String, String)>),
    Del,
    HDel(String),
}

impl<'a, 'b> H<'a, 'b> {
    fn fail(&self, msg: String) -> String {
        let n = self.trace.len();
        let from = n.saturating_sub(40);
        format!("{}\n  history (node N = replica {}):\n    {}", msg, N_ID, self.trace[from..].join("\n    "))
    }

    fn note_slots(&mut self, key: &str, v: &ReplicatedValue) {
        for (f, st, val) in slots_of(v) {
            self.shown_slots.insert((key.to_string(), f, st, val));
        }
    }

    /// A value shown to N through ApplyRecoveredState (checkpoint entry).
    fn shown_ckpt(&mut self, key: &str, v: &ReplicatedValue) {
        self.note_slots(key, v);
        let s = shard_of(key);
        for st in all_stamps(v) {
            self.seen_ckpt[s] = self.seen_ckpt[s].max(st);
        }
    }

    /// A value shown to N through the delta path (remote delta, recovered delta, echo).
    /// In every value the replication code can build, no inner stamp is later than the outer
    /// one. The one exception is a delta emitted by N itself after a checkpoint-only recovery
    /// (KF-C08-01: old field stamps from the checkpoint next to a restarted clock); those inner
    /// stamps are attributed to the checkpoint class while the finding is open, so that the
    /// knock-on effect of the same root cause is recognised and nothing else is.
    fn shown_delta(&mut self, key: &str, v: &ReplicatedValue) {
        self.note_slots(key, v);
        let s = shard_of(key);
        let outer = stamp(&v.timestamp);
        for st in all_stamps(v) {
            if st.0 > outer.0 && self.kf_open {
                self.seen_ckpt[s] = self.seen_ckpt[s].max(st);
            } else {
                self.seen_other[s] = self.seen_other[s].max(st);
            }
        }
    }

    fn deliver_to_peer(&mut self, d: &ReplicationDelta) {
        for (f, st, _) in slots_of(&d.value) {
            let e = self.peer_max.entry((d.key.clone(), f)).or_insert((0, 0));
            *e = (*e).max(st);
        }
        self.p.st.apply_remote_deltas(vec![d.clone()]);
    }

    /// One of the four tracked writes (SET / HSET / DEL / HDEL): reply shape, "acknowledged =>
    /// a delta exists and carries what was written", then the common judgement of the delta.
    async fn local_write(&mut self, what: String, argv: Vec<String>, key: &str, w: Written) -> Result<(), String> {
        let args: Vec<&str> = argv.iter().map(|x| x.as_str()).collect();
        let (reply, mut deltas) = exec(&self.n, &args).await?;
        self.trace.push(format!(
            "[inc {}] {} -> {}  delta: {}",
            self.inc,
            what,
            reply.show(),
            deltas.first().map(|d| show_value(&d.value)).unwrap_or_else(|| "none".into())
        ));
        if deltas.len() > 1 {
            return Err(self.fail(format!("{}: one command emitted {} deltas to the persistence sink", what, deltas.len())));
        }
        let delta = deltas.pop();
        // which slots did this command write, and with which expected value?
        let written: Vec<(String, Option<String>)> = match &w {
            Written::Set(v) => {
                if reply != Reply::ok() {
                    return Err(self.fail(format!("{}: expected +OK, got {}", what, reply.show())));
                }
                vec![(String::new(), Some(v.clone()))]
            }
            Written::HSet(fv) => {
                if !matches!(reply, Reply::Int(_)) {
                    return Err(self.fail(format!("{}: expected an integer reply, got {}", what, reply.show())));
                }
                fv.iter().map(|(f, v)| (f.clone(), Some(v.clone()))).collect()
            }
            Written::Del => match reply {
                Reply::Int(1) => vec![(String::new(), None)],
                Reply::Int(0) => Vec::new(),
                _ => return Err(self.fail(format!("{}: unexpected reply {}", what, reply.show()))),
            },
            Written::HDel(f) => match reply {
                Reply::Int(1) => vec![(f.clone(), None)],
                Reply::Int(0) => Vec::new(),
                _ => return Err(self.fail(format!("{}: unexpected reply {}", what, reply.show()))),
            },
        };
        let Some(delta) = delta else {
            if written.is_empty() {
                self.ctx.label("local_noop");
                return Ok(());
            }
            if matches!(w, Written::Del | Written::HDel(_)) && self.unrecorded.contains(key) {
                // the executor entry was created by a command that is never recorded (C06's
                // domain: such writes do not replicate at all); no stamp is involved
                self.ctx.label("local:delete_of_unrecorded_entry");
                self.last_w.retain(|(k, _), _| k != key);
                return Ok(());
            }
            return Err(self.fail(format!(
                "{}: the write was acknowledged ({}) but no delta was emitted, so no replica can ever see it",
                what,
                reply.show()
            )));
        };
        if delta.key != key {
            return Err(self.fail(format!("{}: delta is for key {:?} (expected {:?})", what, delta.key, key)));
        }
        let slots = slots_of(&delta.value);
        for (f, expect) in &written {
            let Some((_, _, val)) = slots.iter().find(|(sf, _, _)| sf == f) else {
                return Err(self.fail(format!("{}: the delta {} has no entry for the written slot {:?}", what, show_value(&delta.value), f)));
            };
            let got = val.as_ref().map(|b| String::from_utf8_lossy(b).into_owned());
            if got != *expect {
                return Err(self.fail(format!(
                    "{}: the delta carries {:?} for slot {:?}, the command wrote {:?}",
                    what, got, f, expect
                )));
            }
        }
        if written.is_empty() {
            self.ctx.label("local_noop_with_delta");
        } else {
            self.ctx.label("local_write");
        }
        self.judge_local_delta(&what, delta, true).await
    }

    /// Any other client command at N. Nothing is assumed about what it does; whatever deltas
    /// it emits are judged like those of the tracked writes, and afterwards the bookkeeping of
    /// "what N must still serve" is brought in line with what N serves (a command that is not
    /// a read may legitimately change it, recorded or not).
    async fn local_any(&mut self, argv: &[String]) -> Result<(), String> {
        let args: Vec<&str> = argv.iter().map(|x| x.as_str()).collect();
        let name = args[0].to_ascii_uppercase();
        let what = argv.join(" ");
        let a: Vec<Vec<u8>> = args.iter().map(|x| x.as_bytes().to_vec()).collect();
        let cmd = match parse_zc(&a) {
            Ok(c) => c,
            Err(e) => {
                // rejected by the parser: the connection answers the error, the state is not reached
                self.trace.push(format!("[inc {}] {} -> parse error {}", self.inc, what, e));
                self.ctx.label("local:parse_error");
                return Ok(());
            }
        };
        let reply = Reply::from_resp(&self.n.st.execute(cmd).await);
        let deltas = self.n.rx.drain();
        self.trace.push(format!(
            "[inc {}] {} -> {}  delta: {}",
            self.inc,
            what,
            if name == "INFO" { "(info)".to_string() } else { reply.show() },
            if deltas.is_empty() {
                "none".to_string()
            } else {
                deltas.iter().map(|d| format!("{}: {}", d.key, show_value(&d.value))).collect::<Vec<_>>().join("; ")
            }
        ));
        let class = match name.as_str() {
            "GET" | "HGET" | "HGETALL" | "EXISTS" | "MGET" | "TYPE" | "TTL" | "STRLEN" | "KEYS" | "DBSIZE" | "PING"
            | "HLEN" | "INFO" | "NOSUCHCMD" => "read_or_server",
            "EXPIRE" | "PEXPIRE" | "PERSIST" => "ttl",
            "FLUSHALL" | "FLUSHDB" => "flush",
            _ if reply.is_error() => "failed",
            "SETNX" | "MSET" | "GETDEL" | "INCRBYFLOAT" | "SETRANGE" | "LPUSH" | "SADD" => "unrecorded_write",
            _ => "recorded_family",
        };
        self.ctx.label(&format!("local:{}", class));
        if !deltas.is_empty() {
            self.ctx.label("local:emitted_delta");
        }
        for d in deltas {
            self.judge_local_delta(&what, d, false).await?;
        }
        if class == "unrecorded_write" {
            for x in &args[1..] {
                self.unrecorded.insert(x.to_string());
            }
        }
        if class != "read_or_server" {
            // what N serves may have changed without a delta (unrecorded commands, a multi-key
            // DEL whose first keys' deltas never reach the sink, a flush): N is no longer held
            // to an earlier write of those keys unless it still serves it
            let all = class == "flush";
            let slots: Vec<(String, String)> = self
                .last_w
                .keys()
                .filter(|(k, _)| all || args.iter().any(|x| x == k))
                .cloned()
                .collect();
            for (k, f) in slots {
                let got = read_slot(&self.n, &k, &f).await?;
                let want = match &self.last_w[&(k.clone(), f.clone())].value {
                    Some(v) => Reply::bulk(v),
                    None => Reply::Nil,
                };
                if got != want {
                    self.last_w.remove(&(k, f));
                    self.ctx.label("local:overrides_earlier_write");
                }
            }
        }
        Ok(())
    }

    /// Judgement of one delta emitted by a local command.
    /// (i)  every slot of the delta that N had not been shown before (same key, slot, stamp and
    ///      content) was introduced by this command: its stamp, and then also the delta's outer
    ///      stamp, must carry N's replica id and be strictly greater than every stamp shown to
    ///      that shard in this incarnation;
    /// (ii) a peer that holds only what N had observed serves the introduced content after
    ///      merging the delta.
    async fn judge_local_delta(&mut self, what: &str, delta: ReplicationDelta, tracked: bool) -> Result<(), String> {
        let key = delta.key.clone();
        if delta.source_replica.0 != N_ID {
            return Err(self.fail(format!(
                "{}: delta for {:?} names replica {} as its source (expected {})",
                what, key, delta.source_replica.0, N_ID
            )));
        }
        let s = shard_of(&key);
        let seen_before = self.seen_ckpt[s].max(self.seen_other[s]);
        let log_idx = self.log.len();
        self.log.push(delta.clone());
        if let Some(st) = self.store.as_mut() {
            // what the delta sink bridge does with every delta of a local command, and what
            // execute() does when a WAL is configured
            if let Err(e) = st.sp.push(delta.clone()) {
                return Err(format!("harness: StreamingPersistence::push refused a delta: {}", e));
            }
            st.buffer.push(log_idx);
            if st.wal.is_some() {
                st.wal_pending.push(log_idx);
            }
        }
        let slots = slots_of(&delta.value);
        let introduced: Vec<(String, Stamp, Option<Vec<u8>>)> = slots
            .iter()
            .filter(|(f, st, val)| !self.shown_slots.contains(&(key.clone(), f.clone(), *st, val.clone())))
            .cloned()
            .collect();
        self.note_slots(&key, &delta.value);
        if introduced.is_empty() {
            // nothing new (DEL of a hash key, HDEL of a missing field, ...): (i) does not speak
            // about it; the log and the peer still get it
            self.deliver_to_peer(&delta);
            return Ok(());
        }
        if self.inc > 0 && self.recovered_keys.contains(&key) {
            self.nontrivial = true;
            self.ctx.label("write_to_recovered_key");
        }

        // ---- (i)
        let mut fresh: Vec<(String, Stamp)> = introduced
            .iter()
            .map(|(f, st, _)| (if f.is_empty() { "register".to_string() } else { format!("field {}", f) }, *st))
            .collect();
        fresh.push(("outer".to_string(), stamp(&delta.value.timestamp)));
        let mut tolerated = false;
        for (name, st) in &fresh {
            if st.1 != N_ID {
                return Err(self.fail(format!(
                    "{}: {} stamp ({}, r{}) introduced by a local command does not carry the node's replica id {}",
                    what, name, st.0, st.1, N_ID
                )));
            }
            if *st <= seen_before {
                let only_ckpt = *st > self.seen_other[s] && *st <= self.seen_ckpt[s];
                if only_ckpt && self.kf_open {
                    tolerated = true;
                } else {
                    let mut src = if *st <= self.seen_other[s] {
                        format!(
                            "({}, r{}) shown through its own writes / applied deltas",
                            self.seen_other[s].0, self.seen_other[s].1
                        )
                    } else {
                        format!(
                            "({}, r{}) shown in the recovered checkpoint",
                            self.seen_ckpt[s].0, self.seen_ckpt[s].1
                        )
                    };
                    if self.store.is_some() && self.inc > 0 {
                        src.push_str(
                            " [persisted mode: 'shown' to this incarnation = held by the snapshot given to the installed checkpoint, \
                             by the flushed segments after it or by the durable WAL entries, or returned by the recovery]",
                        );
                    }
                    return Err(self.fail(format!(
                        "{}: {} stamp ({}, r{}) is not greater than a stamp the node had already been shown for shard {}: {}",
                        what, name, st.0, st.1, s, src
                    )));
                }
            }
        }
        if tolerated {
            self.ctx.tolerate(KF1);
        }
        for (_, st) in &fresh {
            self.seen_other[s] = self.seen_other[s].max(*st);
        }

        if pool().xkeys.contains(&key) {
            // flip key: the stamp invariant above is all that is judged here
            self.ctx.label("flip_key_stamp_checked");
            self.deliver_to_peer(&delta);
            return Ok(());
        }

        // ---- (ii)
        let mut pre: BTreeMap<String, bool> = BTreeMap::new();
        for (f, _, _) in &introduced {
            let held = self.peer_max.get(&(key.clone(), f.clone())).copied().unwrap_or((0, 0));
            pre.insert(f.clone(), held <= seen_before);
        }
        self.deliver_to_peer(&delta);
        for (f, st, val) in &introduced {
            let pre_ok = pre[f];
            let expect: Option<String> = val.as_ref().map(|b| String::from_utf8_lossy(b).into_owned());
            let want = match &expect {
                Some(v) => Reply::bulk(v),
                None => Reply::Nil,
            };
            // does N itself serve what the delta says it wrote?
            let own = read_slot(&self.n, &key, f).await?;
            if own == want {
                self.last_w.insert(
                    (key.clone(), f.clone()),
                    LastW {
                        value: expect.clone(),
                        stamp: *st,
                        seen_before,
                        tolerated,
                        pre_ok,
                        inc: self.inc,
                        log_idx,
                        what: what.to_string(),
                    },
                );
            } else if tracked {
                return Err(self.fail(format!(
                    "{}: acknowledged, the delta carries {} for {} {}, but the node itself serves {}",
                    what, want.show(), key, f, own.show()
                )));
            } else {
                // a conditional SET that did not write, or a failing command, still recorded a
                // value (C06's findings KF-C06-01/02): not a stamp matter; N is not held to it
                self.last_w.remove(&(key.clone(), f.clone()));
                self.ctx.label("local:delta_differs_from_served_value");
            }
            if !pre_ok {
                self.ctx.label("peer_holds_unobserved_value");
                continue;
            }
            self.ctx.label("peer_checked");
            let got = read_slot(&self.p, &key, f).await?;
            if got != want {
                if tolerated && self.kf_open {
                    continue;
                }
                return Err(self.fail(format!(
                    "{}: a peer that held only values the node had observed merged the delta and serves {} for {} {}, expected {} (the new stamp does not supersede the older value)",
                    what, got.show(), key, f, want.show()
                )));
            }
        }
        Ok(())
    }

    async fn remote(&mut self, rep: u8, key: &str, hash: bool, f: &[u8], t: u64, del: bool, tag: &str) {
        let mut st = ShardReplicaState::new(ReplicaId::new(rep as u64), ConsistencyLevel::Eventual);
        st.lamport_clock.time = t.saturating_sub(1);
        let mut d = if hash {
            let fv: Vec<(String, SDS)> = f
                .iter()
                .map(|&i| (field(i).to_string(), SDS::from_str(&format!("{}_{}", tag, field(i)))))
                .collect();
            st.record_hash_write(key.to_string(), fv)
        } else {
            st.record_write(key.to_string(), SDS::from_str(tag), None)
        };
        if del {
            let dd = if hash {
                st.record_hash_delete(key.to_string(), vec![field(f[0]).to_string()])
            } else {
                st.record_delete(key.to_string())
            };
            if let Some(dd) = dd {
                d = dd;
            }
        }
        self.trace.push(format!("[inc {}] remote delta from r{} for {}: {}", self.inc, rep, key, show_value(&d.value)));
        if t >= 1000 {
            self.ctx.label("remote_far_ahead");
        }
        self.shown_delta(key, &d.value);
        self.n.st.apply_remote_deltas(vec![d.clone()]);
        self.deliver_to_peer(&d);
        let gone: Vec<_> = self.last_w.keys().filter(|(k, _)| k == key).cloned().collect();
        for g in gone {
            self.last_w.remove(&g);
        }
    }

    async fn echo(&mut self, key: &str) {
        let snap = self.p.st.snapshot_state().await;
        if let Some(v) = snap.get(key) {
            self.trace.push(format!("[inc {}] peer echoes {}: {}", self.inc, key, show_value(v)));
            self.ctx.label("echo");
            self.shown_delta(key, v);
            let d = ReplicationDelta::new(key.to_string(), v.clone(), ReplicaId::new(PEER_ID));
            self.n.st.apply_remote_deltas(vec![d]);
        }
    }

    /// N must still serve every write it acknowledged last for a slot (in this incarnation),
    /// whatever older values were echoed back to it since.
    async fn check_served(&mut self) -> Result<(), String> {
        let items: Vec<_> = self.last_w.iter().map(|(k, v)| (k.clone(), v.clone())).collect();
        for ((key, f), w) in items {
            if w.inc != self.inc || !w.pre_ok {
                continue;
            }
            let got = read_slot(&self.n, &key, &f).await?;
            let want = match &w.value {
                Some(v) => Reply::bulk(v),
                None => Reply::Nil,
            };
            if got != want {
                if w.tolerated && self.kf_open {
                    continue;
                }
                return Err(self.fail(format!(
                    "node serves {} for {} {} although its last acknowledged write there was '{}' (stamp ({}, r{})) and it has only been shown values it had observed before",
                    got.show(), key, f, w.what, w.stamp.0, w.stamp.1
                )));
            }
            self.ctx.label("served_checked");
        }
        Ok(())
    }

    /// Persisted mode: the write buffer becomes a segment (and is listed in the manifest).
    async fn store_flush(&mut self) -> Result<(), String> {
        let Some(st) = self.store.as_mut() else { return Ok(()) };
        let n = st.buffer.len();
        let r = match st.sp.flush().await {
            Ok(r) => r,
            Err(e) => return Err(self.fail(format!("StreamingPersistence::flush of {} buffered deltas failed on the undamaged in-memory store: {}", n, e))),
        };
        if n == 0 {
            self.ctx.label("store:flush_empty");
            return Ok(());
        }
        let Some(seg) = r.segment else {
            return Err(self.fail(format!("flush of {} buffered deltas reported success but wrote no segment", n)));
        };
        if r.deltas_flushed != n {
            return Err(self.fail(format!("flush of {} buffered deltas reported {} flushed", n, r.deltas_flushed)));
        }
        let st = self.store.as_mut().unwrap();
        let idx = std::mem::take(&mut st.buffer);
        self.trace.push(format!("[inc {}] flush: segment {} holds log[{:?}]", self.inc, seg.id, idx));
        st.live_segments.push((seg.id, idx));
        st.last_segment_id = Some(seg.id);
        self.ctx.label("store:flush");
        Ok(())
    }

    /// Persisted mode: `CheckpointManager::create_checkpoint(snapshot, last flushed segment)`
    /// and its installation in the manifest (`compact_segments`), as checkpoint.rs documents.
    /// The API's precondition is that the checkpoint covers at least one existing segment.
    async fn store_checkpoint(&mut self, snap: HashMap<String, ReplicatedValue>) -> Result<(), String> {
        let Some(st) = self.store.as_ref() else { return Ok(()) };
        if st.last_segment_id.is_none() {
            if st.buffer.is_empty() {
                self.ctx.label("store:checkpoint_skipped_no_segment");
                return Ok(());
            }
            self.ctx.label("store:checkpoint_forces_first_flush");
            self.store_flush().await?;
        }
        let st = self.store.as_mut().unwrap();
        let last = st.last_segment_id.expect("a segment exists");
        st.ck_time.advance(1000);
        let mm = ManifestManager::new((*st.os).clone(), PREFIX);
        let cm = CheckpointManager::with_time_source(
            st.os.clone(),
            PREFIX.to_string(),
            mm.clone(),
            CheckpointConfig::test(),
            st.ck_time.clone(),
        );
        let cp = cm
            .create_checkpoint(snap.clone(), last)
            .await
            .map_err(|e| format!("CheckpointManager::create_checkpoint failed on the undamaged in-memory store: {}", e))?;
        let info = CheckpointInfo {
            key: cp.key.clone(),
            timestamp_ms: cp.timestamp_ms,
            key_count: cp.key_count,
            last_segment_id: cp.last_segment_id,
        };
        mm.update(|m| m.compact_segments(info))
            .await
            .map_err(|e| format!("installing the checkpoint in the manifest failed on the undamaged in-memory store: {}", e))?;
        st.live_segments.retain(|(id, _)| *id > last);
        let tomb = snap.values().any(has_tombstone);
        self.trace.push(format!(
            "[inc {}] checkpoint installed in the store: {} keys, covers segments <= {}, {} unflushed deltas",
            self.inc,
            snap.len(),
            last,
            st.buffer.len()
        ));
        st.ckpt = Some(snap);
        self.ctx.label("store:checkpoint");
        if tomb {
            self.ctx.label("store:checkpoint_holds_tombstone");
        }
        Ok(())
    }

    async fn crash_and_recover(&mut self, r: &Recovery) -> Result<(), String> {
        self.check_served().await?;
        let range = |(a, b): (u16, u16), len: usize| -> (usize, usize) {
            let lo = (a as usize * (len + 1)) >> 16;
            let hi = (b as usize * (len + 1)) >> 16;
            (lo.min(len), hi.min(len).max(lo.min(len)))
        };
        // ---- the sources: what a correct recovery hands to the new incarnation
        let ck: Option<HashMap<String, ReplicatedValue>>;
        let seg: Vec<(usize, ReplicationDelta)>;
        let wal: Option<Vec<(usize, ReplicationDelta)>>;
        if self.store.is_some() {
            // persisted mode: the process dies with its write buffer and the not yet durable
            // WAL tail; everything else is in the store / the WAL files
            let log = &self.log;
            let st = self.store.as_mut().unwrap();
            if !st.buffer.is_empty() {
                self.ctx.label("store:rec:unflushed_deltas_lost");
            }
            st.buffer.clear();
            let pending = std::mem::take(&mut st.wal_pending);
            if let Some((ws, size)) = &st.wal {
                let lose = (r.wal_lose as usize).min(pending.len());
                if lose > 0 {
                    self.ctx.label("store:rec:wal_tail_lost");
                }
                let keep = &pending[..pending.len() - lose];
                if !keep.is_empty() {
                    let mut rot = WalRotator::new(ws.clone(), *size).map_err(|e| format!("harness: WalRotator::new: {}", e))?;
                    for &i in keep {
                        let e = WalEntry::from_delta(&log[i], log[i].value.timestamp.time)
                            .map_err(|e| format!("harness: WalEntry::from_delta: {}", e))?;
                        rot.append(&e).map_err(|e| format!("harness: WAL append: {}", e))?;
                    }
                    rot.sync().map_err(|e| format!("harness: WAL sync: {}", e))?;
                }
                st.wal_durable.extend_from_slice(keep);
            }
            ck = st.ckpt.clone();
            seg = st
                .live_segments
                .iter()
                .flat_map(|(_, idx)| idx.iter().map(|&i| (i, log[i].clone())))
                .collect();
            wal = st.wal.as_ref().map(|_| st.wal_durable.iter().map(|&i| (i, log[i].clone())).collect());
            self.trace.push(format!(
                "---- crash; recovery #{} from the store: checkpoint {} ({} keys), live segments {:?}, durable WAL entries {:?}",
                self.inc + 1,
                if ck.is_some() { "installed" } else { "none" },
                ck.as_ref().map(|c| c.len()).unwrap_or(0),
                st.live_segments,
                wal.as_ref().map(|w| w.iter().map(|x| x.0).collect::<Vec<_>>())
            ));
            // how often is a shard's greatest persisted stamp held by the checkpoint alone,
            // and by a tombstone in it?
            let mut ck_max = [((0u64, 0u64), false); NUM_SHARDS];
            let mut other_max = [(0u64, 0u64); NUM_SHARDS];
            for (k, v) in ck.iter().flatten() {
                let e = &mut ck_max[shard_of(k)];
                for (_, stp, val) in slots_of(v) {
                    if stp > e.0 {
                        *e = (stp, val.is_none());
                    }
                }
                if stamp(&v.timestamp) > e.0 {
                    e.0 = stamp(&v.timestamp);
                }
            }
            for (_, d) in seg.iter().chain(wal.iter().flatten()) {
                let e = &mut other_max[shard_of(&d.key)];
                for stp in all_stamps(&d.value) {
                    *e = (*e).max(stp);
                }
            }
            if (0..NUM_SHARDS).any(|i| ck_max[i].0 > other_max[i]) {
                self.ctx.label("store:rec:shard_max_only_in_checkpoint");
            }
            if (0..NUM_SHARDS).any(|i| ck_max[i].0 > other_max[i] && ck_max[i].1) {
                self.ctx.label("store:rec:shard_max_is_checkpointed_tombstone");
            }
        } else {
            let dropped = |k: &str| (r.drop_shards >> shard_of(k)) & 1 == 1;
            let ck_idx = match r.ckpt {
                Some(c) if !self.ckpts.is_empty() => Some((c as usize * self.ckpts.len()) >> 16),
                _ => None,
            };
            ck = ck_idx.map(|i| {
                self.ckpts[i]
                    .iter()
                    .filter(|(k, _)| !dropped(k))
                    .map(|(k, v)| (k.clone(), v.clone()))
                    .collect()
            });
            let (s0, s1) = range(r.seg, self.log.len());
            seg = (s0..s1)
                .map(|i| (i, self.log[i].clone()))
                .filter(|(_, d)| !dropped(&d.key))
                .collect();
            wal = r.wal.map(|w| {
                let (w0, w1) = range(w, self.log.len());
                (w0..w1)
                    .map(|i| (i, self.log[i].clone()))
                    .filter(|(_, d)| !dropped(&d.key))
                    .collect()
            });
            if r.drop_shards != 0 {
                self.ctx.label("rec:some_shards_dropped");
            }
            self.trace.push(format!(
                "---- crash; recovery #{}: checkpoint {} ({} keys), segment deltas log[{}..{}), wal {:?}, dropped shards mask {:#06x}",
                self.inc + 1,
                ck_idx.map(|i| format!("#{}", i)).unwrap_or_else(|| "none".into()),
                ck.as_ref().map(|c| c.len()).unwrap_or(0),
                s0,
                s1,
                r.wal.map(|w| range(w, self.log.len())),
                r.drop_shards
            ));
        }
        let class = match (&ck, seg.is_empty() && wal.as_ref().map(|w| w.is_empty()).unwrap_or(true)) {
            (Some(c), true) if !c.is_empty() => "rec:checkpoint_only",
            (Some(c), false) if !c.is_empty() => "rec:checkpoint_and_deltas",
            (_, false) => "rec:deltas_only",
            _ => "rec:nothing",
        };
        self.ctx.label(class);
        if wal.is_some() {
            self.ctx.label("rec:second_call_wal");
        }

        // fresh node, same replica id
        self.n = new_node(N_ID);
        self.inc += 1;
        self.seen_ckpt = [(0, 0); NUM_SHARDS];
        self.seen_other = [(0, 0); NUM_SHARDS];
        self.recovered_keys.clear();
        self.shown_slots.clear();
        self.unrecorded.clear();

        // what is fed, per key, for the bookkeeping below
        let mut fed: BTreeMap<String, Vec<ReplicatedValue>> = BTreeMap::new();
        let mut fed_idx: BTreeSet<usize> = BTreeSet::new();
        if let Some(c) = &ck {
            let mut keys: Vec<&String> = c.keys().collect();
            keys.sort();
            for k in keys {
                self.trace.push(format!("       checkpoint entry {}: {}", k, show_value(&c[k])));
                self.shown_ckpt(k, &c[k]);
                self.recovered_keys.insert(k.clone());
                fed.entry(k.clone()).or_default().push(c[k].clone());
            }
        }
        for (i, d) in seg.iter().chain(wal.iter().flatten()) {
            self.shown_delta(&d.key, &d.value);
            self.recovered_keys.insert(d.key.clone());
            fed.entry(d.key.clone()).or_default().push(d.value.clone());
            fed_idx.insert(*i);
        }
        if self.store.is_some() {
            // the server's start-up sequence: StreamingIntegration::recover (needs_recovery,
            // recover_with_progress, apply_recovered_state), then the WAL replay, then a new
            // persistence pipeline. Whatever the recovery really returns has also been shown
            // to the node.
            let os = self.store.as_ref().unwrap().os.clone();
            let rm = RecoveryManager::new((*os).clone(), PREFIX, N_ID);
            let needs = rm.needs_recovery().await.map_err(|e| format!("harness: needs_recovery: {}", e))?;
            if needs {
                let rec = match rm.recover_with_progress(|_| {}).await {
                    Ok(rec) => rec,
                    Err(e) => return Err(self.fail(format!("recovery from the undamaged in-memory store failed: {}", e))),
                };
                if let Some(c) = &rec.checkpoint_state {
                    let mut keys: Vec<&String> = c.keys().collect();
                    keys.sort();
                    for k in keys {
                        self.shown_ckpt(k, &c[k]);
                        self.recovered_keys.insert(k.clone());
                    }
                }
                for d in &rec.deltas {
                    self.shown_delta(&d.key, &d.value);
                    self.recovered_keys.insert(d.key.clone());
                }
                self.trace.push(format!(
                    "       recover(): checkpoint {} keys, {} segment deltas",
                    rec.checkpoint_state.as_ref().map(|c| c.len()).unwrap_or(0),
                    rec.deltas.len()
                ));
                self.n.st.apply_recovered_state(rec.checkpoint_state, rec.deltas);
            }
            if let Some((ws, size)) = self.store.as_ref().unwrap().wal.clone() {
                let rot = WalRotator::new(ws, size).map_err(|e| format!("harness: WalRotator::new: {}", e))?;
                let entries = match rot.recover_all_entries() {
                    Ok(e) => e,
                    Err(e) => return Err(self.fail(format!("WAL replay of undamaged files failed: {}", e))),
                };
                let deltas: Vec<ReplicationDelta> = entries.iter().filter_map(|e| e.to_delta().ok()).collect();
                for d in &deltas {
                    self.shown_delta(&d.key, &d.value);
                    self.recovered_keys.insert(d.key.clone());
                }
                self.trace.push(format!("       WAL replay: {} entries", deltas.len()));
                if !deltas.is_empty() {
                    self.n.st.apply_recovered_state(None, deltas);
                }
            }
            let sp = new_sp(&os).await?;
            self.store.as_mut().unwrap().sp = sp;
        } else {
            // the two calls server_persistent makes
            self.n
                .st
                .apply_recovered_state(ck, seg.into_iter().map(|x| x.1).collect());
            if let Some(w) = wal {
                self.n
                    .st
                    .apply_recovered_state(None, w.into_iter().map(|x| x.1).collect());
            }
        }

        // (ii) a recovery whose sources contain an acknowledged write, and otherwise only
        // values the node had observed when it made that write, serves the write
        let items: Vec<_> = self.last_w.iter().map(|(k, v)| (k.clone(), v.clone())).collect();
        for ((key, f), w) in items {
            if !fed_idx.contains(&w.log_idx) {
                continue;
            }
            let others_ok = fed.get(&key).map(|vals| {
                vals.iter().all(|v| {
                    slots_of(v)
                        .iter()
                        .filter(|(sf, _, _)| *sf == f)
                        .all(|(_, st, val)| {
                            // the write itself (same stamp and same content) or something the
                            // node had been shown before it made the write
                            let same = *st == w.stamp
                                && val.as_ref().map(|b| String::from_utf8_lossy(b).into_owned()) == w.value;
                            same || *st <= w.seen_before
                        })
                })
            });
            if others_ok != Some(true) {
                self.ctx.label("rec:sources_hold_unobserved_value");
                continue;
            }
            let got = read_slot(&self.n, &key, &f).await?;
            let want = match &w.value {
                Some(v) => Reply::bulk(v),
                None => Reply::Nil,
            };
            if got != want {
                if w.tolerated && self.kf_open {
                    continue;
                }
                return Err(self.fail(format!(
                    "after recovery #{} the node serves {} for {} {}; the sources contain the acknowledged write '{}' (stamp ({}, r{})) and otherwise only values the node had observed when it made that write, so it must serve {}",
                    self.inc, got.show(), key, f, w.what, w.stamp.0, w.stamp.1, want.show()
                )));
            }
            self.ctx.label("rec:served_checked");
        }
        self.last_w.clear();
        Ok(())
    }
}

fn check_case(case: &Case, ctx: &mut CaseCtx<'_>) -> Result<(), String> {
    vcore::block_on(async {
        let kf_open = ctx.finding_open(KF1);
        let store = match &case.store {
            None => None,
            Some(cfg) => {
                ctx.label("store:case");
                if cfg.wal.is_some() {
                    ctx.label("store:wal_enabled");
                }
                let os = Arc::new(InMemoryObjectStore::new());
                let sp = new_sp(&os).await?;
                Some(StoreH {
                    os,
                    sp,
                    ck_time: VerifTime::new(1_000_000),
                    // WAL_HEADER_SIZE is 16; the threshold must be larger
                    wal: cfg.wal.map(|n| (InMemoryWalStore::new(), 17 + n as usize)),
                    buffer: Vec::new(),
                    live_segments: Vec::new(),
                    last_segment_id: None,
                    ckpt: None,
                    wal_pending: Vec::new(),
                    wal_durable: Vec::new(),
                })
            }
        };
        let mut h = H {
            ctx,
            store,
            kf_open,
            n: new_node(N_ID),
            p: new_node(PEER_ID),
            inc: 0,
            log: Vec::new(),
            ckpts: Vec::new(),
            seen_ckpt: [(0, 0); NUM_SHARDS],
            seen_other: [(0, 0); NUM_SHARDS],
            recovered_keys: BTreeSet::new(),
            peer_max: BTreeMap::new(),
            last_w: BTreeMap::new(),
            shown_slots: BTreeSet::new(),
            unrecorded: BTreeSet::new(),
            trace: Vec::new(),
            nontrivial: false,
        };
        for (pi, phase) in case.phases.iter().enumerate() {
            if let Some(r) = &phase.recovery {
                h.crash_and_recover(r).await?;
            }
            for (oi, op) in phase.ops.iter().enumerate() {
                // every third operation of a phase writes the SAME bytes ("same"), locally or as a
                // remote update: a write whose value equals what the node already holds is still a
                // write with its own stamp (a shortcut keyed on the bytes would lose the stamp)
                let tag = if oi % 3 == 2 { "same".to_string() } else { format!("w{}_{}", pi, oi) };
                match op {
                    Op::Set { k } => {
                        let key = skey(*k);
                        h.local_write(
                            format!("SET {} {}", key, tag),
                            vec!["SET".into(), key.into(), tag.clone()],
                            key,
                            Written::Set(tag.clone()),
                        )
                        .await?;
                    }
                    Op::HSet { k, f } => {
                        if f.is_empty() {
                            continue;
                        }
                        let key = hkey(*k);
                        let mut fs: Vec<u8> = f.iter().map(|x| x % 3).collect();
                        fs.sort();
                        fs.dedup();
                        let fv: Vec<(String, String)> = fs
                            .iter()
                            .map(|&i| (field(i).to_string(), format!("{}_{}", tag, field(i))))
                            .collect();
                        let mut argv = vec!["HSET".to_string(), key.to_string()];
                        for (a, b) in &fv {
                            argv.push(a.clone());
                            argv.push(b.clone());
                        }
                        h.local_write(argv.join(" "), argv.clone(), key, Written::HSet(fv)).await?;
                    }
                    Op::Del { k } => {
                        let key = skey(*k);
                        h.local_write(format!("DEL {}", key), vec!["DEL".into(), key.into()], key, Written::Del)
                            .await?;
                    }
                    Op::HDel { k, f } => {
                        let key = hkey(*k);
                        let fl = field(*f);
                        h.local_write(
                            format!("HDEL {} {}", key, fl),
                            vec!["HDEL".into(), key.into(), fl.into()],
                            key,
                            Written::HDel(fl.to_string()),
                        )
                        .await?;
                    }
                    Op::Remote { rep, hash, k, f, t, del } => {
                        if *hash && f.is_empty() {
                            continue;
                        }
                        let key = if *hash { hkey(*k) } else { skey(*k) };
                        let rep = 2 + (*rep % 2);
                        let t = (*t).clamp(1, 1u64 << 62);
                        h.remote(rep, key, *hash, f, t, *del, &format!("r{}_{}", pi, oi)).await;
                    }
                    Op::Checkpoint => {
                        let snap = h.n.st.snapshot_state().await;
                        if h.store.is_some() {
                            h.store_checkpoint(snap).await?;
                        } else {
                            h.trace.push(format!(
                                "[inc {}] checkpoint #{} taken ({} keys, {} deltas logged so far)",
                                h.inc,
                                h.ckpts.len(),
                                snap.len(),
                                h.log.len()
                            ));
                            h.ckpts.push(snap);
                        }
                    }
                    Op::Flush => {
                        h.store_flush().await?;
                    }
                    Op::Echo { hash, k } => {
                        let key = if *hash { hkey(*k) } else { skey(*k) };
                        h.echo(key).await;
                    }
                    Op::Local { argv } => {
                        if argv.is_empty() {
                            continue;
                        }
                        let num = format!("{}", 1000 * (pi + 1) + oi);
                        let argv: Vec<String> = argv.iter().map(|a| a.replace("$V", &tag).replace("$N", &num)).collect();
                        h.local_any(&argv).await?;
                    }
                }
            }
        }
        if case.gossip_back {
            h.ctx.label("gossip_back");
            let p = pool();
            let keys: Vec<String> = p.skeys.iter().chain(p.hkeys.iter()).chain(p.xkeys.iter()).cloned().collect();
            for k in keys {
                h.echo(&k).await;
            }
        }
        h.check_served().await?;
        if h.nontrivial {
            let fp = serde_json::to_string(case).unwrap_or_default();
            h.ctx.nontrivial(&fp);
        }
        Ok(())
    })
}

fn minimal_reproducer() -> Case {
    Case {
        phases: vec![
            Phase { recovery: None, ops: vec![Op::Set { k: 0 }, Op::Set { k: 0 }, Op::Checkpoint] },
            Phase {
                recovery: Some(Recovery { ckpt: Some(65535), seg: (0, 0), wal: None, drop_shards: 0, wal_lose: 0 }),
                ops: vec![Op::Set { k: 0 }],
            },
        ],
        gossip_back: true,
        store: None,
    }
}

fn main() {
    let args = vcore::parse_args();
    let s = Session::new(
        "C08",
        Level::Exploration,
        "generated 2-3 phase histories of one production ReplicatedShardedState (replica 1): per phase up to 9 (quick) / 14 (thorough) \
         steps out of local SET/HSET/DEL/HDEL on 4 string + 3 hash keys that share shards, remote deltas from replicas 2/3 stamped \
         1..2^62, checkpoints, echoes from a peer; between phases a crash and apply_recovered_state with a generated choice of \
         checkpoint (latest/stale/none), delta-log range, optional second WAL call and dropped shards. non-trivial = the history \
         contains a recovery followed by an acknowledged local write to a key present in the recovered sources; distinct by whole case",
        &args,
    );
    s.assume("shard routing of ReplicatedShardedState is DefaultHasher::new() over the key string modulo 16 (replicated in the harness; the function is private)");
    s.assume("remote deltas are built by the repository's own ShardReplicaState with its clock set to the chosen time, so every fed value has the shape the code itself produces; stamps are kept <= 2^62 (u64 wrap-around of the clock is outside the explored domain)");
    s.assume("a stamp counts as 'shown' to an incarnation only if it was fed to that incarnation (recovery sources, remote deltas, echoes, own writes); data that no recovery source contained cannot be outrun by any implementation");
    s.assume("persisted_histories: the recovery sources of an incarnation are what the persistence layer acknowledged before the crash - the snapshot passed to the last CheckpointManager::create_checkpoint that returned Ok and was installed with compact_segments, the deltas of every flush that returned Ok with a segment id above the checkpoint's last_segment_id, the WAL entries appended and synced - on an undamaged in-memory object store / WAL store; compaction is not run (C13), store faults are not injected (C12); a checkpoint always covers at least one flushed segment (the API's precondition, last_segment_id = newest flushed segment)");
    s.describe_check(
        "restart_histories",
        "oracle (i): every stamp introduced by an acknowledged local write > every stamp shown to that shard in the current incarnation and carries replica id 1; \
         (ii): a peer holding only observed values serves the new value after merging the delta; the node still serves it after echoes; a later recovery containing the write serves it",
    );

    s.probe(
        KF1,
        json!({"history": "SET k v1; SET k v2; checkpoint; crash; recover from checkpoint only; SET k v3", "case": minimal_reproducer()}),
        || s.strict_eval(|ctx| check_case(&minimal_reproducer(), ctx)).err(),
    );

    let thorough = s.thorough();
    s.run_cases(
        "restart_histories",
        s.scale(60_000, 1_500_000),
        || case_strategy(thorough),
        check_case,
    );
    s.describe_check(
        "persisted_histories",
        "the same histories and oracle with the repository's persistence chain between the incarnations: every emitted delta is pushed to a \
         StreamingPersistence write buffer (generated flushes -> segments; the unflushed rest dies with the process) and, if the WAL is on, \
         appended to a WalRotator (generated loss of the newest entries); checkpoints = CheckpointManager::create_checkpoint(snapshot_state(), \
         last flushed segment) + Manifest::compact_segments; restart = RecoveryManager::recover_with_progress + apply_recovered_state, then the \
         WAL replay, as StreamingIntegration::recover / server_persistent do. The stamps the new incarnation must outrun are those of the \
         snapshot given to the installed checkpoint, of the flushed segments after it and of the durable WAL entries (as handed in by the \
         harness), plus whatever the recovery returned",
    );
    s.run_cases(
        "persisted_histories",
        s.scale(15_000, 400_000),
        || store_case_strategy(thorough),
        check_case,
    );
    s.finish();
}
