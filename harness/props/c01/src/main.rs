fn main() {}
