//! C01 — Commands behave as Redis: every reply and the keyspace match the Redis model.
//!
//! Checks (DESIGN.md §3 C01, §2.2, Appendix A):
//!   exec_seq    generated command sequences interleaved with clock steps on one
//!               `CommandExecutor` driven as the shard actor drives it (`set_time(t)` then
//!               `execute(cmd)`, clock ticks optionally as `evict_expired_direct(t)`), argv pushed
//!               through the production parser. After EVERY step: reply vs expectation of the
//!               reference model (src/model.rs), then the whole visible keyspace (KEYS, TYPE, full
//!               value read, PTTL, EXISTS, DBSIZE) vs the model at the current instant.
//!   shard_seq   the same on a 1-shard `ShardedActorState<VerifTime>`, with
//!               fast_get/fast_set/pooled_*/fast_batch_*_pipeline as alternative spellings of
//!               GET/SET and `evict_expired_all_shards` as the TTL-manager tick.
//!   At the end of every case: deadline sweep (every pending deadline d: visible at d-1, absent
//!   at d) and a full SCAN walk. SCAN/HSCAN/ZSCAN are never compared page by page: a full cursor
//!   walk must terminate, return every element at least once and nothing that does not exist.

mod model;

use model::{Entry, Expect, Model, ScanItem, ScanKind, ScanSpec, Val};
use proptest::prelude::*;
use redis_sim::production::{ShardConfig, ShardedActorState};
use redis_sim::redis::CommandExecutor;
use redis_sim::simulator::VirtualTime;
use serde::{Deserialize, Serialize};
use serde_json::json;
use std::collections::{BTreeMap, BTreeSet, VecDeque};
use vcore::dump::{Dump, KeyDump};
use vcore::gen::{self, GenOpts};
use vcore::resp::{parse_zc, show_argv, Argv, Reply};
use vcore::time::VerifTime;
use vcore::{CaseCtx, Level, Session};

type Bytes = Vec<u8>;

// ---- known findings (one id per root cause); see /verif/known_findings.d/C01.json
const KF_GETSET_TTL: &str = "KF-C01-01";
const KF_MSET_TTL: &str = "KF-C01-02";
const KF_TTL_ROUND: &str = "KF-C01-03";
const KF_ZADD_XX_EMPTY: &str = "KF-C01-04";
const KF_INT_NONCANON: &str = "KF-C01-05";
const KF_EXPIRE_FLAGS: &str = "KF-C01-06";
const KF_SETRANGE_EMPTY: &str = "KF-C01-07";
const KF_ZADD_FLAGS: &str = "KF-C01-08";
const KF_EXPIRE_OVERFLOW: &str = "KF-C01-09";
const KF_LMOVE_DST: &str = "KF-C01-10";
const KF_LOSSY_NAMES: &str = "KF-C01-11";
const KF_HSCAN_LOSSY: &str = "KF-C01-12";
const KF_SHARD_SCAN: &str = "KF-C01-13";
const KF_FAST_STALE: &str = "KF-C01-14";
const KF_ZSET_EPS: &str = "KF-C01-15";
const KF_NAN_BOUND: &str = "KF-C01-16";
const KF_GETRANGE_NEG: &str = "KF-C01-17";

// =====================================================================================
// cases
// =====================================================================================

#[derive(Clone, Debug, Serialize, Deserialize)]
enum ClockStep {
    Zero,
    Ms(u16),
    /// aim at a pending deadline of the model: index into the sorted deadlines, delta -1/0/+1
    Aim(u16, i8),
    Secs(u8),
    Hours(u8),
}

/// How the absolute-time argument of EXPIREAT / PEXPIREAT / SET EXAT|PXAT / GETEX EXAT|PXAT is
/// aimed when the step runs (absolute time = start epoch + virtual clock).
#[derive(Clone, Debug, Serialize, Deserialize)]
enum AbsAim {
    /// start epoch + the grammar's own small value (which lives in the virtual clock's range)
    Virtual,
    /// now + delta ms; for second-granular commands the second containing it, plus one if `up`
    Now(i32, bool),
    /// a pending deadline of the model + delta ms (same rounding rule)
    Deadline(u16, i32, bool),
}

#[derive(Clone, Debug, Serialize, Deserialize)]
enum Step {
    Cmd(Argv),
    /// a command carrying an absolute time; the argument is resolved when the step runs
    AbsCmd(Argv, AbsAim),
    /// the clock moves; the next command carries the new time (set_time)
    Clock(ClockStep),
    /// the clock moves and the TTL manager ticks (evict_expired_direct / evict_expired_all_shards)
    Tick(ClockStep),
    // ---- only produced for the sharded entry mode
    FastGet(Bytes),
    FastSet(Bytes, Bytes),
    PooledGet(Bytes),
    PooledSet(Bytes, Bytes),
    BatchGet(Vec<Bytes>),
    BatchSet(Vec<(Bytes, Bytes)>),
}

#[derive(Clone, Debug, Serialize, Deserialize)]
struct SeqCase {
    /// server start in absolute Unix ms (what ShardActor::new takes from the wall clock); the
    /// virtual clock counts from it
    #[serde(default)]
    epoch_ms: u64,
    /// virtual time of the first step
    t0: u16,
    steps: Vec<Step>,
}

fn epoch_strategy() -> BoxedStrategy<u64> {
    prop_oneof![
        2 => Just(0u64),
        1 => Just(5_000u64),
        1 => Just(1_700_000_000_000u64),
        3 => Just(1_700_000_000_750u64),
        2 => (1u64..1000).prop_map(|f| 1_700_000_000_000 + f),
        1 => (1_000u64..2_000_000_000_000).prop_filter("non-zero ms fraction", |e| e % 1000 != 0),
        1 => Just(1u64),
        1 => Just(999u64),
        1 => Just(1001u64),
    ]
    .boxed()
}

/// Position and unit (true = seconds) of the absolute-time argument, if the command has one.
fn abs_arg(argv: &Argv) -> Option<(usize, bool)> {
    let name = gen::cmd_name(argv);
    match name.as_str() {
        "EXPIREAT" if argv.len() >= 3 => Some((2, true)),
        "PEXPIREAT" if argv.len() >= 3 => Some((2, false)),
        "SET" | "GETEX" => {
            let from = if name == "SET" { 3 } else { 2 };
            for i in from..argv.len().saturating_sub(1) {
                if argv[i].eq_ignore_ascii_case(b"EXAT") {
                    return Some((i + 1, true));
                }
                if argv[i].eq_ignore_ascii_case(b"PXAT") {
                    return Some((i + 1, false));
                }
            }
            None
        }
        _ => None,
    }
}

fn delta_ms() -> BoxedStrategy<i32> {
    prop_oneof![
        4 => prop_oneof![Just(0), Just(1), Just(-1), Just(2), Just(1000), Just(-1000), Just(999), Just(-999), Just(1001), Just(-1001)],
        3 => -3000i32..3000,
        1 => prop_oneof![Just(3_600_000), Just(-3_600_000), Just(40_000), Just(-40_000)],
    ]
    .boxed()
}

fn abs_aim() -> BoxedStrategy<AbsAim> {
    prop_oneof![
        3 => Just(AbsAim::Virtual),
        5 => (delta_ms(), any::<bool>()).prop_map(|(d, u)| AbsAim::Now(d, u)),
        3 => (any::<u16>(), delta_ms(), any::<bool>()).prop_map(|(w, d, u)| AbsAim::Deadline(w, d, u)),
    ]
    .boxed()
}

/// A grammar command; if it carries an absolute time, mostly with a run-time aim (1 in 6 keeps
/// the grammar's raw value: far past under a large epoch, plus the extreme spellings).
fn cmd_step(o: &GenOpts) -> BoxedStrategy<Step> {
    (gen::data_command(o), abs_aim(), 0u8..6)
        .prop_map(|(argv, aim, raw)| if abs_arg(&argv).is_some() && raw != 0 { Step::AbsCmd(argv, aim) } else { Step::Cmd(argv) })
        .boxed()
}

/// Dedicated absolute-time commands (the grammar produces them in ~3 % of the commands only).
fn abs_cmd_step(o: &GenOpts) -> BoxedStrategy<Step> {
    (gen::key(o), 0u8..8, gen::value(), abs_aim())
        .prop_map(|(k, sel, v, aim)| {
            let b = |s: &str| s.as_bytes().to_vec();
            let argv: Argv = match sel {
                0 | 1 => vec![b("EXPIREAT"), k, b("0")],
                2 | 3 => vec![b("PEXPIREAT"), k, b("0")],
                4 => vec![b("SET"), k, v, b("EXAT"), b("0")],
                5 => vec![b("SET"), k, v, b("PXAT"), b("0")],
                6 => vec![b("GETEX"), k, b("EXAT"), b("0")],
                _ => vec![b("GETEX"), k, b("PXAT"), b("0")],
            };
            let aim = if matches!(aim, AbsAim::Virtual) { AbsAim::Now(0, true) } else { aim };
            Step::AbsCmd(argv, aim)
        })
        .boxed()
}

#[derive(Clone, Debug, Serialize, Deserialize)]
struct GridCase {
    shard: bool,
    case: SeqCase,
}

fn clock_step() -> BoxedStrategy<ClockStep> {
    prop_oneof![
        1 => Just(ClockStep::Zero),
        3 => (1u16..3).prop_map(ClockStep::Ms),
        2 => (1u16..3000).prop_map(ClockStep::Ms),
        6 => (any::<u16>(), -1i8..2).prop_map(|(w, d)| ClockStep::Aim(w, d)),
        3 => (1u8..30).prop_map(ClockStep::Secs),
        1 => (1u8..5).prop_map(ClockStep::Hours),
    ]
    .boxed()
}

fn exec_step(o: &GenOpts) -> BoxedStrategy<Step> {
    prop_oneof![
        12 => cmd_step(o),
        1 => abs_cmd_step(o),
        2 => clock_step().prop_map(Step::Clock),
        1 => clock_step().prop_map(Step::Tick),
    ]
    .boxed()
}

fn shard_step(o: &GenOpts) -> BoxedStrategy<Step> {
    let k = || gen::key(o);
    prop_oneof![
        14 => cmd_step(o),
        1 => abs_cmd_step(o),
        3 => clock_step().prop_map(Step::Clock),
        1 => clock_step().prop_map(Step::Tick),
        2 => k().prop_map(Step::FastGet),
        2 => (k(), gen::value()).prop_map(|(k, v)| Step::FastSet(k, v)),
        2 => k().prop_map(Step::PooledGet),
        2 => (k(), gen::value()).prop_map(|(k, v)| Step::PooledSet(k, v)),
        1 => proptest::collection::vec(k(), 1..4).prop_map(Step::BatchGet),
        1 => proptest::collection::vec((k(), gen::value()), 1..4).prop_map(Step::BatchSet),
    ]
    .boxed()
}

fn seq_case(step: impl Fn(&GenOpts) -> BoxedStrategy<Step>, binary: bool, max_len: usize, long: bool) -> BoxedStrategy<SeqCase> {
    let small = GenOpts { key_pool: 4, binary_names: binary, ..GenOpts::default() };
    let wide = GenOpts { key_pool: 10, binary_names: binary, ..GenOpts::default() };
    let mk = |o: &GenOpts, lo: usize, hi: usize| {
        (epoch_strategy(), 1u16..2000, proptest::collection::vec(step(o), lo..=hi)).prop_map(|(epoch_ms, t0, steps)| SeqCase { epoch_ms, t0, steps })
    };
    if long {
        prop_oneof![
            4 => mk(&small, 1, 60),
            4 => mk(&wide, 1, 60),
            1 => mk(&small, 61, max_len),
            1 => mk(&wide, 61, max_len),
        ]
        .boxed()
    } else {
        prop_oneof![mk(&small, 1, max_len), mk(&wide, 1, max_len)].boxed()
    }
}

// =====================================================================================
// systems under test
// =====================================================================================

#[derive(Clone, Copy, PartialEq, Eq, Debug)]
enum Mode {
    Exec,
    Shard,
}

trait Sut {
    fn mode(&self) -> Mode;
    /// generic command at absolute time `now` ms (set_time(now - start epoch) + execute)
    fn exec(&mut self, argv: &Argv, now: u64) -> Reply;
    /// TTL manager tick at time `now`
    fn tick(&mut self, now: u64);
    /// passive clock move (only the sharded mode has a clock of its own)
    fn set_clock(&mut self, _now: u64) {}
    fn fast(&mut self, _step: &Step) -> Vec<Reply> {
        unreachable!("fast paths exist only in the sharded mode")
    }
}

struct ExecSut {
    ex: CommandExecutor,
    /// absolute start time; the executor's virtual clock is `now - epoch`
    epoch: u64,
}

impl ExecSut {
    fn new(epoch_ms: u64) -> ExecSut {
        // exactly what ShardActor::new does with (simulation_start_epoch, start_millis)
        let mut ex = CommandExecutor::new();
        ex.set_simulation_start_epoch((epoch_ms / 1000) as i64);
        ex.set_simulation_start_epoch_ms(epoch_ms as i64);
        ExecSut { ex, epoch: epoch_ms }
    }
    fn vt(&self, now: u64) -> VirtualTime {
        VirtualTime::from_millis(now.saturating_sub(self.epoch))
    }
}

impl Sut for ExecSut {
    fn mode(&self) -> Mode {
        Mode::Exec
    }
    fn exec(&mut self, argv: &Argv, now: u64) -> Reply {
        // exactly what ShardActor::run does for ShardMessage::Command
        self.ex.set_time(self.vt(now));
        match parse_zc(argv) {
            Ok(cmd) => Reply::from_resp(&self.ex.execute(&cmd)),
            Err(e) => Reply::Error(e.into_bytes()),
        }
    }
    fn tick(&mut self, now: u64) {
        // ShardMessage::EvictExpired
        self.ex.evict_expired_direct(self.vt(now));
    }
}

struct ShardSut {
    rt: tokio::runtime::Runtime,
    state: Option<ShardedActorState<VerifTime>>,
    time: VerifTime,
}

impl ShardSut {
    fn new(epoch_ms: u64, t0: u64) -> ShardSut {
        let rt = tokio::runtime::Builder::new_current_thread().enable_all().build().expect("runtime");
        // the TimeSource is the absolute (wall) clock: the state reads it once at construction
        // (start_millis = epoch of every shard executor) and computes virtual time as
        // now_millis() - start_millis afterwards
        let time = VerifTime::new(epoch_ms);
        let state = {
            let _g = rt.enter();
            ShardedActorState::with_config_and_time_source(ShardConfig::with_shards(1), time.clone())
        };
        time.set(epoch_ms + t0);
        ShardSut { rt, state: Some(state), time }
    }
    fn st(&self) -> &ShardedActorState<VerifTime> {
        self.state.as_ref().unwrap()
    }
}

impl Drop for ShardSut {
    fn drop(&mut self) {
        self.state.take();
    }
}

fn bb(b: &[u8]) -> bytes::Bytes {
    bytes::Bytes::copy_from_slice(b)
}

impl Sut for ShardSut {
    fn mode(&self) -> Mode {
        Mode::Shard
    }
    fn exec(&mut self, argv: &Argv, now: u64) -> Reply {
        self.time.set(now);
        match parse_zc(argv) {
            Ok(cmd) => Reply::from_resp(&self.rt.block_on(self.st().execute(&cmd))),
            Err(e) => Reply::Error(e.into_bytes()),
        }
    }
    fn tick(&mut self, now: u64) {
        self.time.set(now);
        self.rt.block_on(self.st().evict_expired_all_shards());
    }
    fn set_clock(&mut self, now: u64) {
        self.time.set(now);
    }
    fn fast(&mut self, step: &Step) -> Vec<Reply> {
        let st = self.st();
        match step {
            Step::FastGet(k) => vec![Reply::from_resp(&self.rt.block_on(st.fast_get(bb(k))))],
            Step::PooledGet(k) => vec![Reply::from_resp(&self.rt.block_on(st.pooled_fast_get(bb(k))))],
            Step::FastSet(k, v) => vec![Reply::from_resp(&self.rt.block_on(st.fast_set(bb(k), bb(v))))],
            Step::PooledSet(k, v) => vec![Reply::from_resp(&self.rt.block_on(st.pooled_fast_set(bb(k), bb(v))))],
            Step::BatchGet(ks) => self
                .rt
                .block_on(st.fast_batch_get_pipeline(ks.iter().map(|k| bb(k)).collect()))
                .iter()
                .map(Reply::from_resp)
                .collect(),
            Step::BatchSet(kvs) => self
                .rt
                .block_on(st.fast_batch_set_pipeline(kvs.iter().map(|(k, v)| (bb(k), bb(v))).collect()))
                .iter()
                .map(Reply::from_resp)
                .collect(),
            _ => unreachable!(),
        }
    }
}

// =====================================================================================
// reply comparison
// =====================================================================================

enum Cmp {
    Ok,
    Abstain,
    Mismatch(String),
}

fn show_expect(e: &Expect) -> String {
    match e {
        Expect::Exact(r) => r.show(),
        Expect::Unordered(v) => format!("(any order) {}", Reply::Array(v.clone()).sorted().show()),
        Expect::Pairs(p) => format!(
            "(pairs, any order) [{}]",
            p.iter().map(|(a, b)| format!("{}={}", a.show(), b.show())).collect::<Vec<_>>().join(", ")
        ),
        Expect::Err { code, text, rule } => format!("error {} {:?} (rule {})", code, text.unwrap_or("<text not asserted>"), rule),
        Expect::AnyError { rule } => format!("an error reply (rule {})", rule),
        Expect::Score(s) => format!("float {}", s),
        Expect::Scored(v) => format!(
            "[{}]",
            v.iter().map(|(m, s)| format!("\"{}\", {}", vcore::show(m), s)).collect::<Vec<_>>().join(", ")
        ),
        Expect::IntOneOf(v) => format!("one of {:?}", v),
        Expect::Judged(r) => format!("{:?}", r),
        Expect::Scan(_) => "(scan walk)".into(),
        Expect::Unspecified { why, .. } => format!("(unspecified: {})", why),
    }
}

fn compare_reply(exp: &Expect, got: &Reply) -> Cmp {
    let mis = |e: &Expect| Cmp::Mismatch(format!("expected {} — got {}", show_expect(e), got.show()));
    match exp {
        Expect::Exact(r) => {
            if r == got {
                Cmp::Ok
            } else {
                mis(exp)
            }
        }
        Expect::Unordered(v) => match got {
            Reply::Array(_) if Reply::Array(v.clone()).sorted() == got.sorted() => Cmp::Ok,
            _ => mis(exp),
        },
        Expect::Pairs(p) => match got {
            Reply::Array(a) if a.len() == p.len() * 2 => {
                let want = Reply::Array(p.iter().flat_map(|(a, b)| [a.clone(), b.clone()]).collect()).sorted_pairs();
                if want == got.sorted_pairs() {
                    Cmp::Ok
                } else {
                    mis(exp)
                }
            }
            _ => mis(exp),
        },
        Expect::Err { code, text, .. } => match got {
            Reply::Error(_) => {
                if got.error_code().as_deref() != Some(*code) {
                    return mis(exp);
                }
                match text {
                    Some(t) if got.error_text().as_deref() != Some(*t) => mis(exp),
                    _ => Cmp::Ok,
                }
            }
            _ => mis(exp),
        },
        Expect::AnyError { .. } => {
            if got.is_error() {
                Cmp::Ok
            } else {
                mis(exp)
            }
        }
        Expect::Score(s) => match got {
            Reply::Bulk(t) if model::score_text_ok(t, *s) => Cmp::Ok,
            _ => mis(exp),
        },
        Expect::Scored(v) => match got {
            Reply::Array(a) if a.len() == v.len() * 2 => {
                for (i, (m, s)) in v.iter().enumerate() {
                    let okm = matches!(&a[2 * i], Reply::Bulk(b) if b == m);
                    let oks = matches!(&a[2 * i + 1], Reply::Bulk(t) if model::score_text_ok(t, *s));
                    if !okm || !oks {
                        return mis(exp);
                    }
                }
                Cmp::Ok
            }
            _ => mis(exp),
        },
        Expect::IntOneOf(v) => match got {
            Reply::Int(i) if v.contains(i) => Cmp::Ok,
            _ => mis(exp),
        },
        Expect::Judged(Ok(())) => Cmp::Ok,
        Expect::Judged(Err(m)) => Cmp::Mismatch(m.clone()),
        Expect::Scan(_) => Cmp::Ok, // handled by the walk
        Expect::Unspecified { .. } => Cmp::Abstain,
    }
}

// =====================================================================================
// keyspace observation and comparison
// =====================================================================================

struct Observed {
    dump: Dump,
    dbsize: Reply,
    exists: BTreeMap<Bytes, Reply>,
}

fn observe<S: Sut>(sut: &mut S, now: u64, extra: &[Bytes]) -> Observed {
    let cell = std::cell::RefCell::new(sut);
    let dump = futures::executor::block_on(vcore::dump::dump_async(
        |a| {
            let r = cell.borrow_mut().exec(&a, now);
            std::future::ready(r)
        },
        extra,
    ));
    let sut = cell.into_inner();
    let dbsize = sut.exec(&vec![b"DBSIZE".to_vec()], now);
    let mut keys: BTreeSet<Bytes> = dump.keys().cloned().collect();
    keys.extend(extra.iter().cloned());
    let mut exists = BTreeMap::new();
    for k in keys {
        let r = sut.exec(&vec![b"EXISTS".to_vec(), k.clone()], now);
        exists.insert(k, r);
    }
    Observed { dump, dbsize, exists }
}

fn show_entry(e: &Entry, now: i64) -> String {
    let v = match &e.val {
        Val::Str(s) => format!("\"{}\"", vcore::show(s)),
        Val::List(l) => format!("[{}]", l.iter().map(|x| format!("\"{}\"", vcore::show(x))).collect::<Vec<_>>().join(", ")),
        Val::Set(s) => format!("{{{}}}", s.iter().map(|x| format!("\"{}\"", vcore::show(x))).collect::<Vec<_>>().join(", ")),
        Val::Hash(h) => format!(
            "{{{}}}",
            h.iter().map(|(f, v)| format!("\"{}\": \"{}\"", vcore::show(f), vcore::show(v))).collect::<Vec<_>>().join(", ")
        ),
        Val::ZSet(z) => format!(
            "[{}]",
            Model::zsorted(z).iter().map(|(m, s)| format!("\"{}\": {}", vcore::show(m), s)).collect::<Vec<_>>().join(", ")
        ),
    };
    format!("[{}] pttl={} {}", e.val.type_name(), e.deadline.map_or(-1, |d| d - now), v)
}

fn show_kd(kd: &KeyDump) -> String {
    format!("[{}] pttl={} {}", kd.ty, kd.pttl, kd.value.show())
}

#[derive(Debug, Clone, PartialEq)]
enum DiffKind {
    /// the implementation shows a key the model does not have
    Extra,
    /// the model has a key the implementation does not show
    Missing,
    Type,
    Value,
    Ttl,
}

struct Diff {
    key: Bytes,
    kind: DiffKind,
    text: String,
}

fn value_matches(val: &Val, kd: &KeyDump) -> bool {
    match val {
        Val::Str(s) => kd.value == Reply::Bulk(s.clone()),
        Val::List(l) => kd.value == Reply::Array(l.iter().map(|x| Reply::Bulk(x.clone())).collect()),
        Val::Set(s) => kd.value == Reply::Array(s.iter().map(|x| Reply::Bulk(x.clone())).collect()),
        Val::Hash(h) => kd.value == Reply::Array(h.iter().flat_map(|(f, v)| [Reply::Bulk(f.clone()), Reply::Bulk(v.clone())]).collect()),
        Val::ZSet(z) => {
            let want = Model::zsorted(z);
            match &kd.value {
                Reply::Array(a) if a.len() == want.len() * 2 => want.iter().enumerate().all(|(i, (m, s))| {
                    matches!(&a[2 * i], Reply::Bulk(b) if b == m) && matches!(&a[2 * i + 1], Reply::Bulk(t) if model::score_text_ok(t, *s))
                }),
                _ => false,
            }
        }
    }
}

fn compare_keyspace(m: &Model, o: &Observed) -> Vec<Diff> {
    let now = m.now;
    let mut diffs = Vec::new();
    let mut keys: BTreeSet<Bytes> = m.db.keys().cloned().collect();
    keys.extend(o.dump.keys().cloned());
    for k in keys {
        let ks = vcore::show(&k);
        match (m.db.get(&k), o.dump.get(&k)) {
            (None, Some(kd)) => diffs.push(Diff {
                key: k.clone(),
                kind: DiffKind::Extra,
                text: format!("key \"{}\": model: absent — implementation: {}", ks, show_kd(kd)),
            }),
            (Some(e), None) => diffs.push(Diff {
                key: k.clone(),
                kind: DiffKind::Missing,
                text: format!("key \"{}\": model: {} — implementation: absent (TYPE none)", ks, show_entry(e, now)),
            }),
            (Some(e), Some(kd)) => {
                let kind = if kd.ty != e.val.type_name() {
                    Some(DiffKind::Type)
                } else if !value_matches(&e.val, kd) {
                    Some(DiffKind::Value)
                } else if kd.pttl != e.deadline.map_or(-1, |d| d - now) {
                    Some(DiffKind::Ttl)
                } else {
                    None
                };
                if let Some(kind) = kind {
                    diffs.push(Diff {
                        key: k.clone(),
                        kind,
                        text: format!("key \"{}\": model: {} — implementation: {}", ks, show_entry(e, now), show_kd(kd)),
                    });
                }
            }
            (None, None) => {}
        }
    }
    diffs
}

/// Emptiness rule and agreement of EXISTS / DBSIZE with what TYPE shows (independent of the model).
fn self_consistency(o: &Observed) -> Result<(), String> {
    for (k, kd) in &o.dump {
        if kd.ty != "string" {
            if let Reply::Array(a) = &kd.value {
                if a.is_empty() {
                    return Err(format!("emptiness rule: key \"{}\" of type {} is visible with zero elements", vcore::show(k), kd.ty));
                }
            }
        }
    }
    for (k, r) in &o.exists {
        let want = if o.dump.contains_key(k) { 1 } else { 0 };
        if *r != Reply::Int(want) {
            return Err(format!(
                "EXISTS \"{}\" = {} but TYPE says the key is {}",
                vcore::show(k),
                r.show(),
                if want == 1 { "present" } else { "absent" }
            ));
        }
    }
    if o.dbsize != Reply::Int(o.dump.len() as i64) {
        return Err(format!("DBSIZE = {} but {} keys are visible through KEYS/TYPE", o.dbsize.show(), o.dump.len()));
    }
    Ok(())
}

// =====================================================================================
// the checker
// =====================================================================================

const OPTION_WORDS: &[&str] = &[
    "NX", "XX", "GT", "LT", "CH", "GET", "EX", "PX", "EXAT", "PXAT", "KEEPTTL", "PERSIST", "WITHSCORES", "LIMIT", "MATCH",
    "COUNT", "LEFT", "RIGHT",
];

fn is_write(name: &str) -> bool {
    !matches!(
        name,
        "GET" | "STRLEN" | "MGET" | "GETRANGE" | "GETBIT" | "EXISTS" | "TYPE" | "DBSIZE" | "KEYS" | "RANDOMKEY" | "TTL"
            | "PTTL" | "EXPIRETIME" | "PEXPIRETIME" | "LLEN" | "LINDEX" | "LRANGE" | "SMEMBERS" | "SISMEMBER" | "SCARD"
            | "HGET" | "HGETALL" | "HKEYS" | "HVALS" | "HLEN" | "HEXISTS" | "ZRANGE" | "ZREVRANGE" | "ZSCORE" | "ZRANK"
            | "ZCARD" | "ZCOUNT" | "ZRANGEBYSCORE" | "SCAN" | "HSCAN" | "ZSCAN"
    )
}

/// Strings Rust's `i64::from_str` accepts (the implementation's notion of "integer")
fn rust_int(b: &[u8]) -> Option<i64> {
    std::str::from_utf8(b).ok()?.parse::<i64>().ok()
}

enum Resync {
    Nothing,
    /// adopt these keys from the implementation's visible state
    Adopt(Vec<Bytes>),
    /// DEL on the implementation, remove from the model
    DeleteBoth(Vec<Bytes>),
    ModelStr(Bytes, Bytes),
    ModelField(Bytes, Bytes, Bytes),
    ModelRemove(Bytes),
}

struct Checker<'a, 'c, S: Sut> {
    sut: S,
    model: Model,
    /// absolute time in ms (start epoch + virtual clock); the model lives in absolute time
    now: i64,
    epoch: i64,
    ctx: &'a mut CaseCtx<'c>,
    /// sharded mode: the clock moved and no generic command / tick has reached the shard since
    stale: bool,
    // classification
    writes: u32,
    fam_by_key: BTreeMap<Bytes, BTreeSet<&'static str>>,
    crossed: bool,
    kinds: BTreeSet<String>,
    transitions: BTreeSet<(String, String)>,
    trace: VecDeque<String>,
}

impl<'a, 'c, S: Sut> Checker<'a, 'c, S> {
    fn new(sut: S, epoch: i64, t0: i64, ctx: &'a mut CaseCtx<'c>) -> Self {
        Checker {
            sut,
            model: Model::new(epoch + t0),
            now: epoch + t0,
            epoch,
            ctx,
            stale: false,
            writes: 0,
            fam_by_key: BTreeMap::new(),
            crossed: false,
            kinds: BTreeSet::new(),
            transitions: BTreeSet::new(),
            trace: VecDeque::new(),
        }
    }

    fn note(&mut self, line: String) {
        if self.trace.len() >= 12 {
            self.trace.pop_front();
        }
        self.trace.push_back(line);
    }

    fn fail(&self, what: String) -> String {
        let mut s = format!(
            "{} mode, start epoch {} ms, t={} ms (virtual {}): {}\n  last steps:\n",
            if self.sut.mode() == Mode::Exec { "executor" } else { "sharded" },
            self.epoch,
            self.now,
            self.now - self.epoch,
            what
        );
        for l in &self.trace {
            s.push_str("    ");
            s.push_str(l);
            s.push('\n');
        }
        s
    }

    /// known-finding gate: tolerated -> Ok(true); otherwise an Err carrying the id
    fn gate(&mut self, id: &'static str, what: &str) -> Result<(), String> {
        if self.ctx.tolerate(id) {
            Ok(())
        } else {
            Err(self.fail(format!("[{}] {}", id, what)))
        }
    }

    fn classify(&mut self, argv: &Argv, got: &Reply) {
        let name = gen::cmd_name(argv);
        let fam = gen::family(&name);
        self.ctx.label(&format!("fam:{}", fam));
        let mut kind = name.clone();
        for a in &argv[1..] {
            let u = String::from_utf8_lossy(a).to_ascii_uppercase();
            if OPTION_WORDS.contains(&u.as_str()) {
                kind.push(' ');
                kind.push_str(&u);
            }
        }
        if got.is_error() {
            kind.push_str(if got.error_code().as_deref() == Some("WRONGTYPE") { " !wrongtype" } else { " !err" });
            self.ctx.label(if got.error_code().as_deref() == Some("WRONGTYPE") { "reply:wrongtype" } else { "reply:error" });
        } else if is_write(&name) {
            self.writes += 1;
        }
        self.kinds.insert(kind);
        if argv.len() > 1 && !matches!(name.as_str(), "KEYS" | "SCAN") {
            self.fam_by_key.entry(argv[1].clone()).or_default().insert(fam);
        }
    }

    fn apply_resync(&mut self, r: Resync) -> Result<(), String> {
        match r {
            Resync::Nothing => {}
            Resync::Adopt(keys) => {
                let o = observe(&mut self.sut, self.now as u64, &keys);
                for k in keys {
                    self.adopt(&k, o.dump.get(&k))?;
                }
            }
            Resync::DeleteBoth(keys) => {
                for k in keys {
                    self.delete_both(&k);
                }
            }
            Resync::ModelStr(k, v) => {
                let d = self.model.get(&k).and_then(|e| e.deadline);
                self.model.put(&k, Val::Str(v), d);
            }
            Resync::ModelField(k, f, v) => {
                if let Some(Entry { val: Val::Hash(h), .. }) = self.model.db.get_mut(&k) {
                    h.insert(f, v);
                }
            }
            Resync::ModelRemove(k) => self.model.remove(&k),
        }
        Ok(())
    }

    fn delete_both(&mut self, k: &[u8]) {
        let _ = self.sut.exec(&vec![b"DEL".to_vec(), k.to_vec()], self.now as u64);
        self.model.remove(k);
    }

    /// Make the model equal to what the implementation shows for one key.
    fn adopt(&mut self, k: &[u8], kd: Option<&KeyDump>) -> Result<(), String> {
        let kd = match kd {
            None => {
                self.model.remove(k);
                return Ok(());
            }
            Some(kd) => kd,
        };
        let items = |r: &Reply| -> Option<Vec<Bytes>> {
            r.as_array()?.iter().map(|x| x.as_bulk().map(|b| b.to_vec())).collect()
        };
        let val = match kd.ty.as_str() {
            "string" => kd.value.as_bulk().map(|b| Val::Str(b.to_vec())),
            "list" => items(&kd.value).map(|v| Val::List(v.into_iter().collect())),
            "set" => items(&kd.value).map(|v| Val::Set(v.into_iter().collect())),
            "hash" => items(&kd.value).and_then(|v| {
                if v.len() % 2 != 0 {
                    return None;
                }
                Some(Val::Hash(v.chunks(2).map(|c| (c[0].clone(), c[1].clone())).collect()))
            }),
            "zset" => items(&kd.value).and_then(|v| {
                if v.len() % 2 != 0 {
                    return None;
                }
                let mut z = BTreeMap::new();
                for c in v.chunks(2) {
                    z.insert(c[0].clone(), model::parse_score_text(&c[1])?);
                }
                Some(Val::ZSet(z))
            }),
            _ => None,
        };
        let empty = matches!(&kd.value, Reply::Array(a) if a.is_empty()) && kd.ty != "string";
        match val {
            Some(v) if !empty && kd.pttl != 0 && kd.pttl >= -1 => {
                let d = if kd.pttl < 0 { None } else { Some(self.now + kd.pttl) };
                self.model.put(k, v, d);
            }
            _ => self.delete_both(k), // unrepresentable in the model: remove on both sides
        }
        Ok(())
    }

    // ---------------------------------------------------------------- matchers (replies)

    fn match_reply_finding(&self, pre: &Model, argv: &Argv, exp: &Expect, got: &Reply) -> Option<(&'static str, Resync)> {
        let name = gen::cmd_name(argv);
        let rule = match exp {
            Expect::Err { rule, .. } => *rule,
            _ => "",
        };
        let key = argv.get(1).cloned().unwrap_or_default();
        match name.as_str() {
            "TTL" => {
                if let (Expect::Exact(Reply::Int(a)), Reply::Int(b), Some(Entry { deadline: Some(d), .. })) = (exp, got, pre.get(&key)) {
                    let ms = d - self.now;
                    if *b == (ms + 999) / 1000 && *b == *a + 1 {
                        return Some((KF_TTL_ROUND, Resync::Nothing));
                    }
                }
            }
            "INCR" | "DECR" | "INCRBY" | "DECRBY" if rule == "not-integer" => {
                let delta = match name.as_str() {
                    "INCR" => Some(1),
                    "DECR" => Some(-1),
                    "INCRBY" => model::string2ll(&argv[2]),
                    _ => model::string2ll(&argv[2]).and_then(|d| d.checked_neg()),
                };
                if let (Some(delta), Some(Entry { val: Val::Str(s), .. }), Reply::Int(g)) = (delta, pre.get(&key), got) {
                    if model::string2ll(s).is_none() && rust_int(s).and_then(|v| v.checked_add(delta)) == Some(*g) {
                        return Some((KF_INT_NONCANON, Resync::ModelStr(key, g.to_string().into_bytes())));
                    }
                }
                // the same acceptance, ending in the overflow error instead of the not-an-integer error
                if let (Some(delta), Some(Entry { val: Val::Str(s), .. })) = (delta, pre.get(&key)) {
                    if model::string2ll(s).is_none()
                        && rust_int(s).map_or(false, |v| v.checked_add(delta).is_none())
                        && got.error_text().as_deref() == Some("ERR increment or decrement would overflow")
                    {
                        return Some((KF_INT_NONCANON, Resync::Nothing));
                    }
                }
            }
            "HINCRBY" if rule == "hash-not-integer" => {
                if let (Some(d), Some(Entry { val: Val::Hash(h), .. }), Reply::Int(g)) = (model::string2ll(&argv[3]), pre.get(&key), got) {
                    if let Some(s) = h.get(&argv[2]) {
                        if model::string2ll(s).is_none() && rust_int(s).and_then(|v| v.checked_add(d)) == Some(*g) {
                            return Some((KF_INT_NONCANON, Resync::ModelField(key, argv[2].clone(), g.to_string().into_bytes())));
                        }
                    }
                }
                if let (Some(d), Some(Entry { val: Val::Hash(h), .. })) = (model::string2ll(&argv[3]), pre.get(&key)) {
                    if let Some(s) = h.get(&argv[2]) {
                        if model::string2ll(s).is_none()
                            && rust_int(s).map_or(false, |v| v.checked_add(d).is_none())
                            && got.error_text().as_deref() == Some("ERR increment or decrement would overflow")
                        {
                            return Some((KF_INT_NONCANON, Resync::Nothing));
                        }
                    }
                }
            }
            "EXPIRE" | "PEXPIRE" => {
                if argv.len() > 3 && model::string2ll(&argv[2]).map_or(false, |n| n <= 0) {
                    if let (Expect::Exact(Reply::Int(0)), Reply::Int(1)) = (exp, got) {
                        return Some((KF_EXPIRE_FLAGS, Resync::ModelRemove(key)));
                    }
                }
            }
            "SETRANGE" => {
                if argv.len() == 4 && argv[3].is_empty() {
                    if let (Some(off), Some(Entry { val: Val::Str(s), .. }), Expect::Exact(Reply::Int(l)), Reply::Int(g)) =
                        (model::string2ll(&argv[2]), pre.get(&key), exp, got)
                    {
                        if *l == s.len() as i64 && off > *l && *g == off {
                            let mut padded = s.clone();
                            padded.resize(off as usize, 0);
                            return Some((KF_SETRANGE_EMPTY, Resync::ModelStr(key, padded)));
                        }
                    }
                    // same on a missing key: a string of `off` zero bytes is created
                    if let (Some(off), None, Expect::Exact(Reply::Int(0)), Reply::Int(g)) = (model::string2ll(&argv[2]), pre.get(&key), exp, got) {
                        if off > 0 && *g == off {
                            return Some((KF_SETRANGE_EMPTY, Resync::ModelStr(key, vec![0u8; off as usize])));
                        }
                    }
                }
            }
            "ZADD" if rule == "zadd-flags-incompatible" => {
                if matches!(got, Reply::Int(_)) {
                    return Some((KF_ZADD_FLAGS, Resync::Adopt(vec![key])));
                }
            }
            "GETEX" if rule == "expire-nonpositive" => {
                // GETEX EXAT|PXAT n <= 0: the key is deleted and its value returned
                let abs = argv.len() == 4 && (argv[2].eq_ignore_ascii_case(b"EXAT") || argv[2].eq_ignore_ascii_case(b"PXAT"));
                if let (true, Some(Entry { val: Val::Str(v), .. }), Reply::Bulk(g)) = (abs, pre.get(&key), got) {
                    if v == g {
                        return Some((KF_EXPIRE_OVERFLOW, Resync::DeleteBoth(vec![key])));
                    }
                }
            }
            "SET" | "SETEX" | "PSETEX" | "GETEX" | "EXPIREAT" if rule == "expire-overflow" => {
                if !got.is_error() {
                    return Some((KF_EXPIRE_OVERFLOW, Resync::DeleteBoth(vec![key])));
                }
            }
            "GETRANGE" => {
                if let (Some(st), Some(en), Some(Entry { val: Val::Str(v), .. }), Expect::Exact(Reply::Bulk(e)), Reply::Bulk(g)) =
                    (model::string2ll(&argv[2]), model::string2ll(&argv[3]), pre.get(&key), exp, got)
                {
                    if st < 0 && en < 0 && st > en && e.is_empty() && !v.is_empty() && g[..] == v[..1] {
                        return Some((KF_GETRANGE_NEG, Resync::Nothing));
                    }
                }
            }
            "ZRANK" => {
                // a member whose score is infinite is never found by SkipList::rank
                if let (Some(Entry { val: Val::ZSet(z), .. }), Expect::Exact(Reply::Int(_)), Reply::Nil) = (pre.get(&key), exp, got) {
                    if z.get(&argv[2]).map_or(false, |s| s.is_infinite()) {
                        return Some((KF_ZSET_EPS, Resync::Nothing));
                    }
                }
            }
            "ZCOUNT" | "ZRANGEBYSCORE" if rule == "nan-bound" => {
                if !got.is_error() {
                    return Some((KF_NAN_BOUND, Resync::Nothing));
                }
            }
            _ => {}
        }
        None
    }

    // ---------------------------------------------------------------- matchers (state)

    fn match_state_finding(&self, pre: &Model, argv: &Argv, exp: &Expect, d: &Diff, o: &Observed) -> Option<(&'static str, Resync)> {
        let name = gen::cmd_name(argv);
        let kd = o.dump.get(&d.key);
        match name.as_str() {
            "GETSET" | "MSET" => {
                let named = if name == "GETSET" { argv[1] == d.key } else { argv[1..].chunks(2).any(|kv| kv[0] == d.key) };
                if named && d.kind == DiffKind::Ttl {
                    if let (Some(Entry { deadline: Some(dl), .. }), Some(Entry { deadline: None, .. }), Some(kd)) =
                        (pre.get(&d.key), self.model.get(&d.key), kd)
                    {
                        if kd.pttl == dl - self.now {
                            let id = if name == "GETSET" { KF_GETSET_TTL } else { KF_MSET_TTL };
                            return Some((id, Resync::Adopt(vec![d.key.clone()])));
                        }
                    }
                }
            }
            "ZADD" => {
                let has_xx = argv[2..].iter().take_while(|a| OPTION_WORDS.contains(&String::from_utf8_lossy(a).to_ascii_uppercase().as_str())).any(|a| a.eq_ignore_ascii_case(b"XX"));
                if argv[1] == d.key && d.kind == DiffKind::Value {
                    let named: Vec<Bytes> = argv[2..].iter().cloned().collect();
                    if let Some(r) = self.match_inf_ghost(pre, &d.key, &named, kd) {
                        return Some(r);
                    }
                }
                if has_xx && argv[1] == d.key && d.kind == DiffKind::Extra && pre.get(&d.key).is_none() {
                    if let Some(kd) = kd {
                        if kd.ty == "zset" && kd.value == Reply::Array(vec![]) {
                            return Some((KF_ZADD_XX_EMPTY, Resync::DeleteBoth(vec![d.key.clone()])));
                        }
                    }
                }
            }
            "ZREM" if argv[1] == d.key && d.kind == DiffKind::Value => {
                if let Some(r) = self.match_inf_ghost(pre, &d.key, &argv[2..].to_vec(), kd) {
                    return Some(r);
                }
            }
            "RPOPLPUSH" | "LMOVE" => {
                if matches!(exp, Expect::Err { rule: "lmove-dst-wrongtype", .. }) && argv[1] == d.key {
                    if let Some(Entry { val: Val::List(l), .. }) = pre.get(&d.key) {
                        let from_left = name == "LMOVE" && argv[3].eq_ignore_ascii_case(b"LEFT");
                        let mut rest = l.clone();
                        if from_left {
                            rest.pop_front();
                        } else {
                            rest.pop_back();
                        }
                        let want = Reply::Array(rest.iter().map(|x| Reply::Bulk(x.clone())).collect());
                        let matches = match kd {
                            None => rest.is_empty(),
                            Some(kd) => kd.ty == "list" && kd.value == want,
                        };
                        if matches {
                            return Some((KF_LMOVE_DST, Resync::Adopt(vec![d.key.clone()])));
                        }
                    }
                }
            }
            _ => {}
        }
        None
    }

    /// Skip-list entries with an infinite score cannot be removed (`(inf - inf).abs() < EPSILON`
    /// is false): after ZADD re-scores or ZREM removes such a member, the old (member, +-inf)
    /// entry is still listed by ZRANGE although the model no longer has it.
    fn match_inf_ghost(&self, pre: &Model, key: &[u8], named: &[Bytes], kd: Option<&KeyDump>) -> Option<(&'static str, Resync)> {
        let empty = BTreeMap::new();
        let z = match pre.get(key) {
            Some(Entry { val: Val::ZSet(z), .. }) => z,
            None => &empty,
            _ => return None,
        };
        let flat = kd?.value.as_array()?;
        let now_z = match self.model.get(key) {
            Some(Entry { val: Val::ZSet(z), .. }) => Some(z),
            _ => None,
        };
        // infinite scores a named member had before the step or is given by the step itself
        // (`ZADD k -inf m 0 m`: named = the argv tail, a score token precedes its member)
        let mut had: Vec<(Bytes, f64)> = Vec::new();
        for (i, m) in named.iter().enumerate() {
            if let Some(s) = z.get(m) {
                had.push((m.clone(), *s));
            }
            if i > 0 {
                if let Some(s) = model::parse_score_text(&named[i - 1]) {
                    had.push((m.clone(), s));
                }
            }
        }
        for (m, s) in had {
            if s.is_infinite() && now_z.and_then(|z| z.get(&m)) != Some(&s) {
                let text: &[u8] = if s > 0.0 { b"inf" } else { b"-inf" };
                let ghost = flat.chunks(2).any(|c| c.len() == 2 && c[0].as_bulk() == Some(m.as_slice()) && c[1].as_bulk() == Some(text));
                if ghost {
                    return Some((KF_ZSET_EPS, Resync::DeleteBoth(vec![key.to_vec()])));
                }
            }
        }
        None
    }

    // ---------------------------------------------------------------- steps

    /// Compare the whole visible keyspace with the model; tolerate listed findings (then verify
    /// again, strictly).
    fn check_keyspace(&mut self, pre: &Model, argv: &Argv, exp: &Expect) -> Result<(), String> {
        for round in 0..2 {
            let o = observe(&mut self.sut, self.now as u64, &self.model.keys());
            self.stale = false;
            self.model.purged.clear();
            let diffs = compare_keyspace(&self.model, &o);
            if diffs.is_empty() {
                return self_consistency(&o).map_err(|e| self.fail(format!("after {}: {}", show_argv(argv), e)));
            }
            if round == 1 {
                return Err(self.fail(format!("after {} (and re-synchronisation): {}", show_argv(argv), diffs[0].text)));
            }
            for d in &diffs {
                match self.match_state_finding(pre, argv, exp, d, &o) {
                    Some((id, r)) => {
                        self.gate(id, &format!("after {}: {}", show_argv(argv), d.text))?;
                        self.apply_resync(r)?;
                    }
                    None => {
                        // the emptiness rule gives the better message for an empty collection
                        if let Err(e) = self_consistency(&o) {
                            if d.kind == DiffKind::Extra {
                                return Err(self.fail(format!("after {}: {}", show_argv(argv), e)));
                            }
                        }
                        return Err(self.fail(format!("after {}: keyspace differs: {}", show_argv(argv), d.text)));
                    }
                }
            }
        }
        Ok(())
    }

    /// Fill in the absolute-time argument of an `AbsCmd` at the current instant.
    fn resolve_abs(&mut self, argv: &Argv, aim: &AbsAim) -> Argv {
        let (idx, seconds) = match abs_arg(argv) {
            Some(x) => x,
            None => return argv.clone(),
        };
        let (target_ms, up) = match aim {
            AbsAim::Virtual => match model::string2ll(&argv[idx]) {
                Some(v) if (0..=100_000).contains(&v) => (self.epoch + if seconds { v * 1000 } else { v }, false),
                _ => return argv.clone(), // extreme spellings stay as they are
            },
            AbsAim::Now(d, up) => (self.now + *d as i64, *up),
            AbsAim::Deadline(w, d, up) => {
                let pending = self.model.pending_deadlines();
                let base = if pending.is_empty() { self.now } else { pending[(*w as usize * pending.len()) >> 16] };
                (base.saturating_add(*d as i64), *up)
            }
        };
        let arg = if seconds { target_ms.div_euclid(1000) + up as i64 } else { target_ms };
        self.ctx.label(if seconds { "abs_time:aimed_seconds" } else { "abs_time:aimed_ms" });
        let mut out = argv.clone();
        out[idx] = arg.to_string().into_bytes();
        out
    }

    fn step_cmd(&mut self, argv: &Argv) -> Result<(), String> {
        let got = self.sut.exec(argv, self.now as u64);
        self.stale = false;
        self.note(format!("t={} {} -> {}", self.now, show_argv(argv), truncate(&got.show(), 300)));
        self.after_reply(argv, &got, false, true)
    }

    /// Judge one reply against the model (which applies the command), then — unless more
    /// replies of the same atomic batch follow — compare the whole keyspace.
    fn after_reply(&mut self, argv: &Argv, got: &Reply, fast_stale: bool, check_state: bool) -> Result<(), String> {
        self.classify(argv, got);
        let pre = self.model.clone();
        self.model.advance(self.now);
        let before_types: BTreeMap<Bytes, &'static str> = self.model.db.iter().map(|(k, e)| (k.clone(), e.val.type_name())).collect();
        let exp = self.model.apply(argv, got);
        match compare_reply(&exp, got) {
            Cmp::Ok => {}
            Cmp::Abstain => self.ctx.abstain(),
            Cmp::Mismatch(m) => {
                let hit = if fast_stale { self.match_fast_stale(&pre, argv, got) } else { self.match_reply_finding(&pre, argv, &exp, got) };
                match hit {
                    Some((id, r)) => {
                        self.gate(id, &format!("{}: {}", show_argv(argv), m))?;
                        self.apply_resync(r)?;
                    }
                    None => return Err(self.fail(format!("{}: {}", show_argv(argv), m))),
                }
            }
        }
        if let Expect::Unspecified { resync, .. } = &exp {
            if !resync.is_empty() {
                self.apply_resync(Resync::Adopt(resync.clone()))?;
            }
        }
        if let Expect::Scan(spec) = &exp {
            self.scan_walk(spec, Some((argv, got)))?;
        }
        if check_state {
            self.check_keyspace(&pre, argv, &exp)?;
        }
        for (k, e) in &self.model.db {
            let was = before_types.get(k).copied().unwrap_or("none");
            if was != e.val.type_name() {
                self.transitions.insert((was.to_string(), e.val.type_name().to_string()));
            }
        }
        for (k, t) in &before_types {
            if !self.model.db.contains_key(k) {
                self.transitions.insert((t.to_string(), "none".to_string()));
            }
        }
        Ok(())
    }

    /// Sharded mode: a fast-path GET answered from a shard whose clock is stale.
    fn match_fast_stale(&self, _pre: &Model, argv: &Argv, got: &Reply) -> Option<(&'static str, Resync)> {
        if !self.stale || gen::cmd_name(argv) != "GET" {
            return None;
        }
        match (self.model.purged.get(&argv[1]), got) {
            (Some(Entry { val: Val::Str(s), .. }), Reply::Bulk(b)) if s == b => Some((KF_FAST_STALE, Resync::Nothing)),
            (Some(Entry { val, .. }), Reply::Error(_)) if !matches!(val, Val::Str(_)) && got.error_code().as_deref() == Some("WRONGTYPE") => {
                Some((KF_FAST_STALE, Resync::Nothing))
            }
            _ => None,
        }
    }

    fn step_fast(&mut self, step: &Step) -> Result<(), String> {
        let replies = self.sut.fast(step);
        let model_cmds: Vec<Argv> = match step {
            Step::FastGet(k) | Step::PooledGet(k) => vec![vec![b"GET".to_vec(), k.clone()]],
            Step::FastSet(k, v) | Step::PooledSet(k, v) => vec![vec![b"SET".to_vec(), k.clone(), v.clone()]],
            Step::BatchGet(ks) => ks.iter().map(|k| vec![b"GET".to_vec(), k.clone()]).collect(),
            Step::BatchSet(kvs) => kvs.iter().map(|(k, v)| vec![b"SET".to_vec(), k.clone(), v.clone()]).collect(),
            _ => unreachable!(),
        };
        let label = match step {
            Step::FastGet(_) => "fast_get",
            Step::PooledGet(_) => "pooled_fast_get",
            Step::FastSet(..) => "fast_set",
            Step::PooledSet(..) => "pooled_fast_set",
            Step::BatchGet(_) => "fast_batch_get_pipeline",
            _ => "fast_batch_set_pipeline",
        };
        self.ctx.label(&format!("path:{}", label));
        if replies.len() != model_cmds.len() {
            return Err(self.fail(format!("{} returned {} replies for {} inputs", label, replies.len(), model_cmds.len())));
        }
        // the shard's clock is refreshed only by generic commands and ticks: remember whether
        // this fast operation ran on a stale clock (the keyspace dump below refreshes it)
        // (a batch is one atomic shard message: all its replies come from the same state, so the
        // keyspace is compared once, after the model has applied the whole batch)
        let last = model_cmds.len() - 1;
        for (i, (argv, got)) in model_cmds.iter().zip(replies.iter()).enumerate() {
            self.note(format!("t={} {}({}) -> {}", self.now, label, show_argv(&argv[1..].to_vec()), truncate(&got.show(), 300)));
            self.after_reply(argv, got, true, i == last)?;
        }
        Ok(())
    }

    fn step_clock(&mut self, cs: &ClockStep, tick: bool) -> Result<(), String> {
        let pending = self.model.pending_deadlines();
        let target = match cs {
            ClockStep::Zero => self.now,
            ClockStep::Ms(n) => self.now + *n as i64,
            ClockStep::Secs(n) => self.now + *n as i64 * 1000,
            ClockStep::Hours(n) => self.now + *n as i64 * 3_600_000,
            ClockStep::Aim(w, d) => {
                if pending.is_empty() {
                    self.now + 1
                } else {
                    self.ctx.label("clock:aimed_at_deadline");
                    pending[(*w as usize * pending.len()) >> 16].saturating_add(*d as i64)
                }
            }
        };
        // the harness clock stays far below the i64 range so that "now + ttl" arithmetic of
        // the model cannot overflow by itself
        let target = target.clamp(self.now, self.epoch + (1i64 << 40));
        if pending.iter().any(|d| *d > self.now && *d <= target) {
            self.crossed = true;
            self.ctx.label("clock:crossed_live_deadline");
        }
        self.now = target;
        self.model.advance(target);
        self.note(format!("t={} clock{}", self.now, if tick { " + TTL-manager tick" } else { "" }));
        if tick {
            self.ctx.label("clock:tick");
            self.sut.tick(target as u64);
            self.stale = false;
            self.model.purged.clear();
        } else {
            self.sut.set_clock(target as u64);
            if self.sut.mode() == Mode::Shard {
                // passive: nothing reaches the shard, so nothing is observed here either
                self.stale = true;
                return Ok(());
            }
        }
        let none: Argv = vec![b"(clock step)".to_vec()];
        self.check_keyspace(&self.model.clone(), &none, &Expect::Exact(Reply::Nil))
    }

    /// Full cursor walk. `first` = the generated command and its reply (cursor 0 page).
    fn scan_walk(&mut self, spec: &ScanSpec, first: Option<(&Argv, &Reply)>) -> Result<(), String> {
        let universe = match self.model.scan_universe(spec) {
            Err(exp) => {
                // other type: the first page must be the WRONGTYPE error
                return match first {
                    Some((argv, got)) => match compare_reply(&exp, got) {
                        Cmp::Mismatch(m) => Err(self.fail(format!("{}: {}", show_argv(argv), m))),
                        _ => Ok(()),
                    },
                    None => Ok(()),
                };
            }
            Ok(None) => {
                self.ctx.abstain();
                return Ok(());
            }
            Ok(Some(u)) => u,
        };
        self.ctx.label("scan:full_walk");
        let build = |cursor: &[u8]| -> Argv {
            let mut a: Argv = match spec.kind {
                ScanKind::Scan => vec![b"SCAN".to_vec()],
                ScanKind::HScan => vec![b"HSCAN".to_vec(), spec.key.clone()],
                ScanKind::ZScan => vec![b"ZSCAN".to_vec(), spec.key.clone()],
            };
            a.push(cursor.to_vec());
            if let Some(p) = &spec.pattern {
                a.push(b"MATCH".to_vec());
                a.push(p.clone());
            }
            if let Some(c) = &spec.count {
                a.push(b"COUNT".to_vec());
                a.push(c.clone());
            }
            a
        };
        let paired = !matches!(spec.kind, ScanKind::Scan);
        let mut seen: Vec<(Bytes, Option<Bytes>)> = Vec::new();
        let mut page = match first {
            Some((_, got)) => got.clone(),
            None => self.sut.exec(&build(b"0"), self.now as u64),
        };
        let mut pages = 0usize;
        let mut first_page_items = 0usize;
        loop {
            pages += 1;
            let (cursor, items) = match &page {
                Reply::Array(a) if a.len() == 2 => match (&a[0], &a[1]) {
                    (Reply::Bulk(c), Reply::Array(items)) => (c.clone(), items.clone()),
                    _ => return Err(self.fail(format!("{}: malformed page {}", show_argv(&build(b"<cursor>")), page.show()))),
                },
                _ => return Err(self.fail(format!("{}: expected [cursor, [items]], got {}", show_argv(&build(b"<cursor>")), page.show()))),
            };
            if paired && items.len() % 2 != 0 {
                return Err(self.fail(format!("{}: odd number of elements in a page of pairs", show_argv(&build(b"<cursor>")))));
            }
            if paired {
                for c in items.chunks(2) {
                    match (&c[0], &c[1]) {
                        (Reply::Bulk(f), Reply::Bulk(v)) => seen.push((f.clone(), Some(v.clone()))),
                        _ => return Err(self.fail("scan page element is not a bulk string".into())),
                    }
                }
            } else {
                for it in &items {
                    match it {
                        Reply::Bulk(k) => seen.push((k.clone(), None)),
                        _ => return Err(self.fail("scan page element is not a bulk string".into())),
                    }
                }
            }
            if pages == 1 {
                first_page_items = seen.len();
            }
            if cursor == b"0" {
                break;
            }
            if pages > 2000 {
                return Err(self.fail(format!("{}: cursor walk did not terminate within 2000 pages", show_argv(&build(b"<cursor>")))));
            }
            page = self.sut.exec(&build(&cursor), self.now as u64);
        }
        // nothing that does not exist (and values / scores right)
        let cmd = show_argv(&build(b"0"));
        for (name, extra) in &seen {
            match universe.iter().find(|(n, _)| n == name) {
                None => return Err(self.fail(format!("{}: full walk returned \"{}\" which does not exist / does not match", cmd, vcore::show(name)))),
                Some((_, ScanItem::Key)) => {}
                Some((_, ScanItem::Value(v))) => {
                    if extra.as_ref() != Some(v) {
                        let got = extra.clone().unwrap_or_default();
                        let lossy = String::from_utf8_lossy(v).into_owned().into_bytes();
                        let what = format!("{}: field \"{}\" has value \"{}\" but the walk returned \"{}\"", cmd, vcore::show(name), vcore::show(v), vcore::show(&got));
                        if std::str::from_utf8(v).is_err() && got == lossy {
                            self.gate(KF_HSCAN_LOSSY, &what)?;
                        } else {
                            return Err(self.fail(what));
                        }
                    }
                }
                Some((_, ScanItem::Score(s))) => {
                    if !extra.as_ref().map_or(false, |t| model::score_text_ok(t, *s)) {
                        return Err(self.fail(format!(
                            "{}: member \"{}\" has score {} but the walk returned \"{}\"",
                            cmd,
                            vcore::show(name),
                            s,
                            vcore::show(&extra.clone().unwrap_or_default())
                        )));
                    }
                }
            }
        }
        // everything at least once
        let missing: Vec<String> = universe.iter().filter(|(n, _)| !seen.iter().any(|(s, _)| s == n)).map(|(n, _)| vcore::show(n)).collect();
        if !missing.is_empty() {
            let what = format!("{}: full walk ({} pages) never returned {:?}", cmd, pages, missing);
            let count = spec.count.as_ref().and_then(|c| model::string2ll(c)).unwrap_or(10) as usize;
            if self.sut.mode() == Mode::Shard && matches!(spec.kind, ScanKind::Scan) && pages == 1 && first_page_items == count && universe.len() > count {
                self.gate(KF_SHARD_SCAN, &what)?;
            } else {
                return Err(self.fail(what));
            }
        }
        Ok(())
    }

    /// End of case: deadline rule for every pending deadline, then a full SCAN walk.
    fn finish(&mut self) -> Result<(), String> {
        for _ in 0..8 {
            let pending = self.model.pending_deadlines();
            let d = match pending.iter().find(|d| **d > self.now) {
                Some(d) => *d,
                None => break,
            };
            if d >= self.epoch + (1i64 << 40) {
                break;
            }
            let holders: Vec<Bytes> = self.model.db.iter().filter(|(_, e)| e.deadline == Some(d)).map(|(k, _)| k.clone()).collect();
            let none: Argv = vec![b"(deadline sweep)".to_vec()];
            if d - 1 > self.now {
                self.now = d - 1;
                self.model.advance(self.now);
                self.sut.set_clock(self.now as u64);
                self.note(format!("t={} deadline sweep: deadline-1", self.now));
                self.check_keyspace(&self.model.clone(), &none, &Expect::Exact(Reply::Nil))?;
            }
            for k in &holders {
                if !self.model.db.contains_key(k) {
                    return Err(self.fail("model error: key vanished before its deadline".into()));
                }
            }
            self.now = d;
            self.model.advance(d);
            self.sut.set_clock(d as u64);
            self.crossed = true;
            self.note(format!("t={} deadline sweep: deadline", self.now));
            self.check_keyspace(&self.model.clone(), &none, &Expect::Exact(Reply::Nil))?;
            self.ctx.label("deadline_rule:swept");
        }
        if !self.model.db.is_empty() {
            // (sharded mode: default COUNT, so that the listed SCAN finding does not end every case)
            let count = if self.sut.mode() == Mode::Exec { Some(b"3".to_vec()) } else { None };
            let spec = ScanSpec { kind: ScanKind::Scan, key: vec![], pattern: None, count };
            self.scan_walk(&spec, None)?;
        }
        Ok(())
    }

    fn conclude(&mut self) {
        let two_fam = self.fam_by_key.values().any(|f| f.len() >= 2);
        if two_fam {
            self.ctx.label("nt:key_touched_by_two_families");
        }
        if self.writes >= 1 && (two_fam || self.crossed) {
            let fp = (self.kinds.iter().cloned().collect::<Vec<_>>(), self.transitions.iter().cloned().collect::<Vec<_>>(), self.crossed);
            self.ctx.nontrivial(&fp);
        }
    }
}

fn truncate(s: &str, n: usize) -> String {
    if s.len() <= n {
        s.to_string()
    } else {
        let mut cut = n;
        while !s.is_char_boundary(cut) {
            cut -= 1;
        }
        format!("{}… ({} bytes)", &s[..cut], s.len())
    }
}

fn run_case<S: Sut>(sut: S, case: &SeqCase, ctx: &mut CaseCtx<'_>) -> Result<(), String> {
    let mode = sut.mode();
    ctx.label(if mode == Mode::Exec { "mode:executor" } else { "mode:sharded" });
    if case.steps.len() > 60 {
        ctx.label("len:61..200");
    }
    ctx.label(match case.epoch_ms {
        0 => "epoch:zero",
        e if e % 1000 == 0 => "epoch:whole_second",
        e if e < 2000 => "epoch:small_with_ms_fraction",
        _ => "epoch:with_ms_fraction",
    });
    let mut ck = Checker::new(sut, case.epoch_ms as i64, case.t0 as i64, ctx);
    for step in &case.steps {
        match step {
            Step::Cmd(argv) => {
                if argv.is_empty() {
                    continue;
                }
                ck.step_cmd(argv)?
            }
            Step::AbsCmd(argv, aim) => {
                let resolved = ck.resolve_abs(argv, aim);
                ck.step_cmd(&resolved)?
            }
            Step::Clock(cs) => ck.step_clock(cs, false)?,
            Step::Tick(cs) => ck.step_clock(cs, true)?,
            other => {
                if mode == Mode::Shard {
                    ck.step_fast(other)?
                }
            }
        }
    }
    ck.finish()?;
    ck.conclude();
    Ok(())
}

fn run_exec_case(case: &SeqCase, ctx: &mut CaseCtx<'_>) -> Result<(), String> {
    run_case(ExecSut::new(case.epoch_ms), case, ctx)
}

fn run_shard_case(case: &SeqCase, ctx: &mut CaseCtx<'_>) -> Result<(), String> {
    run_case(ShardSut::new(case.epoch_ms, case.t0 as u64), case, ctx)
}

// =====================================================================================
// probes
// =====================================================================================

fn c(parts: &[&str]) -> Step {
    Step::Cmd(parts.iter().map(|s| s.as_bytes().to_vec()).collect())
}
fn cb(parts: &[&[u8]]) -> Step {
    Step::Cmd(parts.iter().map(|s| s.to_vec()).collect())
}

fn probe_case(s: &Session, id: &'static str, shard: bool, steps: Vec<Step>) {
    let case = SeqCase { epoch_ms: 0, t0: 1000, steps };
    let shown: Vec<String> = case
        .steps
        .iter()
        .map(|st| match st {
            Step::Cmd(a) => show_argv(a),
            other => format!("{:?}", other),
        })
        .collect();
    s.probe(id, json!({"mode": if shard { "sharded" } else { "executor" }, "t0": 1000, "steps": shown}), || {
        let r = s.strict_eval(|ctx| if shard { run_shard_case(&case, ctx) } else { run_exec_case(&case, ctx) });
        match r {
            Err(m) if m.contains(&format!("[{}]", id)) => Some(first_line(&m)),
            Err(m) => Some(format!("(reproducer fails differently than recorded) {}", first_line(&m))),
            Ok(()) => None,
        }
    });
}

fn first_line(m: &str) -> String {
    m.lines().next().unwrap_or("").to_string()
}

fn probes(s: &Session) {
    probe_case(s, KF_GETSET_TTL, false, vec![c(&["SET", "k0", "a", "PX", "5000"]), c(&["GETSET", "k0", "b"])]);
    probe_case(s, KF_MSET_TTL, false, vec![c(&["SET", "k0", "a", "PX", "5000"]), c(&["MSET", "k0", "b"])]);
    probe_case(s, KF_TTL_ROUND, false, vec![c(&["SET", "k0", "a", "PX", "1400"]), c(&["TTL", "k0"])]);
    probe_case(s, KF_ZADD_XX_EMPTY, false, vec![c(&["ZADD", "k0", "XX", "1", "a"])]);
    probe_case(s, KF_INT_NONCANON, false, vec![c(&["SET", "k0", "+5"]), c(&["INCR", "k0"])]);
    probe_case(s, KF_EXPIRE_FLAGS, false, vec![c(&["SET", "k0", "a"]), c(&["EXPIRE", "k0", "-1", "XX"])]);
    probe_case(s, KF_SETRANGE_EMPTY, false, vec![c(&["SET", "k0", "ab"]), c(&["SETRANGE", "k0", "5", ""])]);
    probe_case(s, KF_ZADD_FLAGS, false, vec![c(&["ZADD", "k0", "NX", "XX", "1", "a"])]);
    probe_case(s, KF_EXPIRE_OVERFLOW, false, vec![c(&["SET", "k0", "a", "PX", "9223372036854775807"])]);
    probe_case(
        s,
        KF_LMOVE_DST,
        false,
        vec![c(&["RPUSH", "k0", "a", "b"]), c(&["SET", "k1", "x"]), c(&["RPOPLPUSH", "k0", "k1"])],
    );
    probe_case(
        s,
        KF_HSCAN_LOSSY,
        false,
        vec![cb(&[b"HSET", b"k0", b"f", &[0x00, 0xff, 0x80]]), c(&["HSCAN", "k0", "0"])],
    );
    probe_case(
        s,
        KF_NAN_BOUND,
        false,
        vec![c(&["ZADD", "k0", "1", "a"]), c(&["ZCOUNT", "k0", "nan", "5"])],
    );
    probe_case(s, KF_GETRANGE_NEG, false, vec![c(&["SET", "k0", "abc"]), c(&["GETRANGE", "k0", "-3", "-4"])]);
    probe_case(
        s,
        KF_SHARD_SCAN,
        true,
        vec![c(&["MSET", "k0", "a", "k1", "b", "k2", "c"]), c(&["SCAN", "0", "COUNT", "1"])],
    );
    probe_case(
        s,
        KF_FAST_STALE,
        true,
        vec![c(&["SET", "k0", "a", "PX", "100"]), Step::Clock(ClockStep::Ms(200)), Step::FastGet(b"k0".to_vec())],
    );

    // lossy UTF-8 names: two distinct binary keys / members collide (class excluded from the
    // main search while the finding is open)
    s.probe(
        KF_LOSSY_NAMES,
        json!({"steps": ["SET \\xff a", "SET \\xfe b", "GET \\xff", "SADD s \\x80 \\x81", "SCARD s"]}),
        || {
            let mut sut = ExecSut::new(0);
            let mut x = |parts: &[&[u8]]| sut.exec(&parts.iter().map(|p| p.to_vec()).collect(), 1000);
            x(&[b"SET", &[0xff], b"a"]);
            x(&[b"SET", &[0xfe], b"b"]);
            let g = x(&[b"GET", &[0xff]]);
            x(&[b"SADD", b"s", &[0x80], &[0x81]]);
            let card = x(&[b"SCARD", b"s"]);
            let keys = x(&[b"KEYS", b"*"]);
            if g != Reply::bulk("a") || card != Reply::Int(2) {
                Some(format!(
                    "SET \\xff a; SET \\xfe b; GET \\xff = {} (Redis: \"a\"); SADD s \\x80 \\x81; SCARD s = {} (Redis: 2); KEYS * = {}",
                    g.show(),
                    card.show(),
                    keys.sorted().show()
                ))
            } else {
                None
            }
        },
    );

    // scores closer than f64::EPSILON are treated as equal (outside the generated score pool)
    s.probe(
        KF_ZSET_EPS,
        json!({"steps": ["ZADD k0 0 a", "ZADD k0 CH 1e-17 a", "ZCOUNT k0 (0 +inf", "ZADD k1 -inf a", "ZADD k1 0 a", "ZRANGE k1 0 -1 WITHSCORES", "ZADD k2 inf a", "ZRANK k2 a"]}),
        || {
            let mut sut = ExecSut::new(0);
            let mut x = |parts: &[&str]| sut.exec(&parts.iter().map(|p| p.as_bytes().to_vec()).collect(), 1000);
            x(&["ZADD", "k0", "0", "a"]);
            let ch = x(&["ZADD", "k0", "CH", "1e-17", "a"]);
            let cnt = x(&["ZCOUNT", "k0", "(0", "+inf"]);
            x(&["ZADD", "k1", "-inf", "a"]);
            x(&["ZADD", "k1", "0", "a"]);
            let range = x(&["ZRANGE", "k1", "0", "-1", "WITHSCORES"]);
            x(&["ZADD", "k2", "inf", "a"]);
            let rank = x(&["ZRANK", "k2", "a"]);
            if ch != Reply::Int(1) || cnt != Reply::Int(1) || range != Reply::Array(vec![Reply::bulk("a"), Reply::bulk("0")]) || rank != Reply::Int(0) {
                Some(format!(
                    "ZADD k0 0 a; ZADD k0 CH 1e-17 a = {} (Redis: 1, the score changed); ZCOUNT k0 (0 +inf = {} (Redis: 1); ZADD k1 -inf a; ZADD k1 0 a; ZRANGE k1 0 -1 WITHSCORES = {} (Redis: [a, 0]); ZADD k2 inf a; ZRANK k2 a = {} (Redis: 0)",
                    ch.show(),
                    cnt.show(),
                    range.show(),
                    rank.show()
                ))
            } else {
                None
            }
        },
    );
}

// =====================================================================================
// main
// =====================================================================================

fn main() {
    let args = vcore::parse_args();
    let s = Session::new(
        "C01",
        Level::Exploration,
        "cases: sequences of 1..60 (thorough: up to 200) steps; a step is one syntactically valid data command from the shared \
         argv grammar (vcore::gen::data_command: ~75 commands, adversarial argument pools, all option combinations, key pool 4 or 10) \
         or a clock step (0, 1-2 ms, up to 3 s, aimed at a pending deadline -1/0/+1, seconds, hours; passive or as a TTL-manager tick); \
         every case has a generated server start epoch (0, whole seconds, non-zero ms fractions, 1/999/1001) and absolute-time arguments \
         (EXPIREAT, PEXPIREAT, SET/GETEX EXAT|PXAT) are aimed when the step runs: epoch+small value, now+-{0,1,999,1000,1001,..} ms, a pending deadline +- delta, or the raw grammar value; \
         sharded mode adds fast_get/fast_set/pooled_*/fast_batch_*_pipeline. After every step the reply and the whole visible keyspace \
         are compared with an independent reference model. non-trivial = the sequence has >= 1 successful write AND (some key is named \
         by commands of two different families OR a clock step crosses a live deadline); distinct by the set of (command, option words, \
         error class) kinds, the set of type transitions and the crossing flag",
        &args,
    );
    s.assume("the reference model (props/c01/src/model.rs) states Redis 7 semantics as documented in the command reference; where Redis is version dependent or undocumented the model abstains (counted as 'abstained') and adopts the implementation's answer");
    s.assume("error replies are compared by code word; exact text only for WRONGTYPE, 'no such key', 'index out of range', 'value is not an integer or out of range', 'increment or decrement would overflow', 'hash value is not an integer', 'value is not a valid float', 'min or max is not a float'");
    s.assume("float text is asserted exactly only for |v| <= 2^30 with v*16 integral; elsewhere numeric equality or abstention");
    s.assume("absolute time = start epoch + virtual clock; the start epoch is part of the case (0, whole seconds, values with a non-zero ms fraction such as 1_700_000_000_750, small 1/999/1001) and is given to the executor exactly as ShardActor::new does (set_simulation_start_epoch(ms/1000); set_simulation_start_epoch_ms(ms)); the sharded state reads it from the harness TimeSource at construction; the virtual clock starts at 1..2000 ms and never exceeds 2^40");
    s.assume("visible keyspace = KEYS * united with the model's keys, each read with TYPE, GET/LRANGE/SMEMBERS/HGETALL/ZRANGE WITHSCORES, PTTL, EXISTS, plus DBSIZE (vcore::dump)");

    probes(&s);

    let binary = !s.findings.is_open(KF_LOSSY_NAMES);
    s.note("binary_names_in_main_search", json!(binary));
    let thorough = s.thorough();
    let max_len = if thorough { 200 } else { 60 };

    s.describe_check(
        "exec_seq",
        "CommandExecutor driven as ShardActor does (set_time(t); execute(parse_zc(argv))), clock ticks partly as evict_expired_direct(t); reply + full keyspace after every step; deadline sweep and full SCAN walk at the end",
    );
    s.run_cases(
        "exec_seq",
        s.scale(9_000, 400_000),
        || seq_case(exec_step, binary, max_len, thorough),
        |case, ctx| run_exec_case(case, ctx),
    );

    // ---- deterministic grid: every absolute-time command x start epochs x offsets around now
    s.describe_check(
        "abs_time_grid",
        "enumerated: {EXPIREAT, PEXPIREAT, SET EXAT, SET PXAT, GETEX EXAT, GETEX PXAT} x 9 start epochs (0, whole seconds, non-zero ms fractions, 1/999/1001) x 10 offsets around now (+-1 ms, +-999..1001 ms, 2.5 s) x rounding up/down x both entry modes; then PTTL/PEXPIRETIME/EXPIRETIME/TTL, clock to deadline-1 and to the deadline, GET; same oracle",
    );
    let mut grid: Vec<GridCase> = Vec::new();
    for shard in [false, true] {
        for epoch_ms in [0u64, 5_000, 1_700_000_000_000, 1_700_000_000_750, 1_700_000_000_001, 1_700_000_000_999, 1, 999, 1001] {
            for sel in 0..6 {
                for d in [-1001i32, -1000, -999, -1, 0, 1, 999, 1000, 1001, 2500] {
                    for up in [false, true] {
                        let argv: Vec<&str> = match sel {
                            0 => vec!["EXPIREAT", "k0", "0"],
                            1 => vec!["PEXPIREAT", "k0", "0"],
                            2 => vec!["SET", "k0", "w", "EXAT", "0"],
                            3 => vec!["SET", "k0", "w", "PXAT", "0"],
                            4 => vec!["GETEX", "k0", "EXAT", "0"],
                            _ => vec!["GETEX", "k0", "PXAT", "0"],
                        };
                        let abs = match c(&argv) {
                            Step::Cmd(a) => Step::AbsCmd(a, AbsAim::Now(d, up)),
                            other => other,
                        };
                        let steps = vec![
                            c(&["SET", "k0", "v"]),
                            abs,
                            c(&["PTTL", "k0"]),
                            c(&["PEXPIRETIME", "k0"]),
                            c(&["EXPIRETIME", "k0"]),
                            c(&["TTL", "k0"]),
                            Step::Clock(ClockStep::Aim(0, -1)),
                            c(&["GET", "k0"]),
                            Step::Clock(ClockStep::Aim(0, 0)),
                            c(&["GET", "k0"]),
                        ];
                        grid.push(GridCase { shard, case: SeqCase { epoch_ms, t0: 1500, steps } });
                    }
                }
            }
        }
    }
    s.run_enumerated("abs_time_grid", grid.into_iter(), |g, ctx| {
        if g.shard {
            run_shard_case(&g.case, ctx)
        } else {
            run_exec_case(&g.case, ctx)
        }
    });

    s.describe_check(
        "shard_seq",
        "1-shard ShardedActorState<VerifTime>: execute(cmd) plus fast_get/fast_set/pooled_fast_get/pooled_fast_set/fast_batch_get_pipeline/fast_batch_set_pipeline as spellings of GET/SET, evict_expired_all_shards as the tick; same oracle",
    );
    s.run_cases(
        "shard_seq",
        s.scale(3_000, 100_000),
        || seq_case(shard_step, binary, max_len, thorough),
        |case, ctx| run_shard_case(case, ctx),
    );

    s.finish();
}
