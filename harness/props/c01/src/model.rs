//! Reference model of Redis 7 semantics for the supported data commands (DESIGN.md §2.2 and
//! Appendix A). Deliberately naive: ordered maps, byte strings, an explicit millisecond clock.
//!
//! Written from the Redis 7 command reference / my knowledge of the Redis 7.0 sources, without
//! looking at how the implementation under test computes anything. Every command returns an
//! *expectation*; where Redis' behaviour is version dependent, undocumented or where I am not
//! sure, the model abstains (`Expect::Unspecified`) and names the keys that must be adopted
//! from the implementation afterwards.

use std::collections::{BTreeMap, BTreeSet, VecDeque};
use vcore::resp::Reply;

pub type Bytes = Vec<u8>;

pub const WRONGTYPE: &str = "WRONGTYPE Operation against a key holding the wrong kind of value";

#[derive(Clone, Debug, PartialEq)]
pub enum Val {
    Str(Bytes),
    List(VecDeque<Bytes>),
    Set(BTreeSet<Bytes>),
    Hash(BTreeMap<Bytes, Bytes>),
    ZSet(BTreeMap<Bytes, f64>),
}

impl Val {
    pub fn type_name(&self) -> &'static str {
        match self {
            Val::Str(_) => "string",
            Val::List(_) => "list",
            Val::Set(_) => "set",
            Val::Hash(_) => "hash",
            Val::ZSet(_) => "zset",
        }
    }
    fn is_empty_collection(&self) -> bool {
        match self {
            Val::Str(_) => false,
            Val::List(l) => l.is_empty(),
            Val::Set(s) => s.is_empty(),
            Val::Hash(h) => h.is_empty(),
            Val::ZSet(z) => z.is_empty(),
        }
    }
}

#[derive(Clone, Debug, PartialEq)]
pub struct Entry {
    pub val: Val,
    /// absolute deadline in ms; the key does not exist at any instant `now >= deadline`
    pub deadline: Option<i64>,
}

#[derive(Clone, Debug)]
pub enum ScanKind {
    Scan,
    HScan,
    ZScan,
}

#[derive(Clone, Debug)]
pub struct ScanSpec {
    pub kind: ScanKind,
    pub key: Bytes,
    pub pattern: Option<Bytes>,
    pub count: Option<Bytes>,
}

#[derive(Clone, Debug)]
pub enum Expect {
    Exact(Reply),
    /// array compared as a multiset
    Unordered(Vec<Reply>),
    /// flat array of pairs compared as a multiset of pairs (HGETALL)
    Pairs(Vec<(Reply, Reply)>),
    /// error reply with this code word; text compared only when given; `rule` says which rule
    /// of the model produced it (used by the known-finding matchers, never by the comparison)
    Err {
        code: &'static str,
        text: Option<&'static str>,
        rule: &'static str,
    },
    /// some error reply (two documented errors apply and their order is not documented)
    AnyError { rule: &'static str },
    /// bulk string holding a float equal to this value
    Score(f64),
    /// ordered [member, score, member, score, ...]
    Scored(Vec<(Bytes, f64)>),
    IntOneOf(Vec<i64>),
    /// the model looked at the implementation's answer itself (SPOP, RANDOMKEY)
    Judged(Result<(), String>),
    /// SCAN family: not compared page by page; the harness performs a full walk
    Scan(ScanSpec),
    /// the model abstains; the listed keys must be adopted from the implementation
    Unspecified { resync: Vec<Bytes>, why: &'static str },
}

fn err(code: &'static str, text: Option<&'static str>, rule: &'static str) -> Expect {
    Expect::Err { code, text, rule }
}
fn wrongtype() -> Expect {
    err("WRONGTYPE", Some(WRONGTYPE), "wrongtype")
}
fn int(n: i64) -> Expect {
    Expect::Exact(Reply::Int(n))
}
fn bulk(b: &[u8]) -> Expect {
    Expect::Exact(Reply::Bulk(b.to_vec()))
}
fn nil() -> Expect {
    Expect::Exact(Reply::Nil)
}
fn ok() -> Expect {
    Expect::Exact(Reply::ok())
}
fn unspecified(why: &'static str) -> Expect {
    Expect::Unspecified { resync: vec![], why }
}
fn unspecified_key(key: &[u8], why: &'static str) -> Expect {
    Expect::Unspecified { resync: vec![key.to_vec()], why }
}
fn syntax_error() -> Expect {
    err("ERR", None, "syntax")
}
fn not_integer() -> Expect {
    err("ERR", Some("ERR value is not an integer or out of range"), "not-integer")
}
fn bulks<'a>(it: impl Iterator<Item = &'a Bytes>) -> Vec<Reply> {
    it.map(|b| Reply::Bulk(b.clone())).collect()
}

/// Redis `string2ll`: optional '-', then "0" alone or [1-9][0-9]*, must fit i64. No '+', no
/// spaces, no leading zeros, no "-0".
pub fn string2ll(b: &[u8]) -> Option<i64> {
    if b.is_empty() || b.len() > 20 {
        return None;
    }
    let (neg, digits) = if b[0] == b'-' { (true, &b[1..]) } else { (false, b) };
    if digits.is_empty() {
        return None;
    }
    if digits == b"0" {
        return if neg { None } else { Some(0) };
    }
    if !(b'1'..=b'9').contains(&digits[0]) || !digits.iter().all(|c| c.is_ascii_digit()) {
        return None;
    }
    let mut v: i128 = 0;
    for c in digits {
        v = v * 10 + (*c - b'0') as i128;
    }
    if neg {
        v = -v;
    }
    if v < i64::MIN as i128 || v > i64::MAX as i128 {
        None
    } else {
        Some(v as i64)
    }
}

/// Classification of a byte string as a float the way Redis' strtold/strtod based parsers see it.
#[derive(Clone, Copy, Debug, PartialEq)]
pub enum Fl {
    /// plain decimal notation, finite in f64
    Num(f64),
    /// inf / infinity (any sign, any case)
    Inf(bool),
    Nan,
    /// certainly rejected by Redis
    Invalid,
    /// empty, embedded NUL, hex floats, out-of-f64-range, ...: not asserted
    Unsure,
}

fn is_c_space(c: u8) -> bool {
    matches!(c, b' ' | b'\t' | b'\n' | 0x0b | 0x0c | b'\r')
}

/// `allow_leading_space`: strtod itself skips leading white space; Redis' string2ld (used for
/// string values and INCRBYFLOAT) rejects it explicitly, zslParseRange does not.
pub fn classify_float(b: &[u8], allow_leading_space: bool) -> Fl {
    if b.is_empty() || b.contains(&0) {
        return Fl::Unsure;
    }
    if is_c_space(b[0]) {
        return if allow_leading_space { Fl::Unsure } else { Fl::Invalid };
    }
    let s = match std::str::from_utf8(b) {
        Ok(s) => s,
        Err(_) => return Fl::Invalid, // strtold stops at the first non-ASCII byte -> trailing garbage
    };
    let (neg, rest) = match s.as_bytes()[0] {
        b'-' => (true, &s[1..]),
        b'+' => (false, &s[1..]),
        _ => (false, s),
    };
    let lower = rest.to_ascii_lowercase();
    if lower == "inf" || lower == "infinity" {
        return Fl::Inf(neg);
    }
    if lower == "nan" {
        return Fl::Nan;
    }
    if lower.starts_with("0x") || lower.starts_with("nan") || lower.starts_with("inf") {
        return Fl::Unsure;
    }
    // decimal grammar: digits [. digits] | . digits, optional exponent
    let bytes = rest.as_bytes();
    let mut i = 0;
    let mut int_digits = 0;
    while i < bytes.len() && bytes[i].is_ascii_digit() {
        i += 1;
        int_digits += 1;
    }
    let mut frac_digits = 0;
    if i < bytes.len() && bytes[i] == b'.' {
        i += 1;
        while i < bytes.len() && bytes[i].is_ascii_digit() {
            i += 1;
            frac_digits += 1;
        }
    }
    if int_digits + frac_digits == 0 {
        return Fl::Invalid;
    }
    if i < bytes.len() && (bytes[i] == b'e' || bytes[i] == b'E') {
        let mut j = i + 1;
        if j < bytes.len() && (bytes[j] == b'+' || bytes[j] == b'-') {
            j += 1;
        }
        let start = j;
        while j < bytes.len() && bytes[j].is_ascii_digit() {
            j += 1;
        }
        if j == start {
            // "1e" : strtod parses "1" and leaves "e" -> trailing garbage
            return Fl::Invalid;
        }
        i = j;
    }
    if i != bytes.len() {
        return Fl::Invalid;
    }
    match s.parse::<f64>() {
        Ok(v) if v.is_finite() => Fl::Num(v),
        _ => Fl::Unsure,
    }
}

/// Float domain in which text is asserted exactly: |v| <= 2^30 and v * 16 is an integer.
/// There `%.17g`, `%.17Lf` with trailing zeros removed, shortest round-trip and Rust's
/// `Display` all print the same exact decimal expansion (<= 14 significant digits).
pub fn exact_domain(v: f64) -> bool {
    v.is_finite() && v.abs() <= (1u64 << 30) as f64 && (v * 16.0).fract() == 0.0
}

pub fn exact_text(v: f64) -> String {
    format!("{}", v)
}

/// Glob matching for the supported pattern subset (`*`, `?`, `[abc]`, `[a-c]`, `[^a]`),
/// byte-wise as Redis' stringmatchlen. None = pattern outside the asserted subset.
pub fn glob_match(pat: &[u8], s: &[u8]) -> Option<bool> {
    if pat.contains(&b'\\') {
        return None;
    }
    Some(glob_rec(pat, s)?)
}

fn glob_rec(pat: &[u8], s: &[u8]) -> Option<bool> {
    if pat.is_empty() {
        return Some(s.is_empty());
    }
    match pat[0] {
        b'*' => {
            for i in 0..=s.len() {
                if glob_rec(&pat[1..], &s[i..])? {
                    return Some(true);
                }
            }
            Some(false)
        }
        b'?' => {
            if s.is_empty() {
                Some(false)
            } else {
                glob_rec(&pat[1..], &s[1..])
            }
        }
        b'[' => {
            let close = pat.iter().position(|&c| c == b']')?;
            let mut class = &pat[1..close];
            let negate = !class.is_empty() && class[0] == b'^';
            if negate {
                class = &class[1..];
            }
            if class.is_empty() {
                return None;
            }
            if s.is_empty() {
                return Some(false);
            }
            let c = s[0];
            let mut hit = false;
            let mut i = 0;
            while i < class.len() {
                if i + 2 < class.len() && class[i + 1] == b'-' {
                    let (lo, hi) = (class[i].min(class[i + 2]), class[i].max(class[i + 2]));
                    if c >= lo && c <= hi {
                        hit = true;
                    }
                    i += 3;
                } else {
                    if class[i] == b'-' {
                        return None; // dangling '-' : not asserted
                    }
                    if class[i] == c {
                        hit = true;
                    }
                    i += 1;
                }
            }
            if hit != negate {
                glob_rec(&pat[close + 1..], &s[1..])
            } else {
                Some(false)
            }
        }
        ch => {
            if !s.is_empty() && s[0] == ch {
                glob_rec(&pat[1..], &s[1..])
            } else {
                Some(false)
            }
        }
    }
}

fn upper(b: &[u8]) -> String {
    String::from_utf8_lossy(b).to_ascii_uppercase()
}

/// Redis' index normalisation for LRANGE / ZRANGE / LTRIM: inclusive (start, end) or None = empty.
fn norm_range(len: i64, start: i64, end: i64) -> Option<(usize, usize)> {
    let mut s = if start < 0 { len.saturating_add(start) } else { start };
    let mut e = if end < 0 { len.saturating_add(end) } else { end };
    if s < 0 {
        s = 0;
    }
    if s > e || s >= len {
        return None;
    }
    if e >= len {
        e = len - 1;
    }
    Some((s as usize, e as usize))
}

#[derive(Clone, Copy, Debug, PartialEq)]
enum Bound {
    Ok(f64, bool),
    Bad(&'static str),
    Unsure,
}

fn parse_bound(b: &[u8]) -> Bound {
    let (ex, rest) = if !b.is_empty() && b[0] == b'(' { (true, &b[1..]) } else { (false, b) };
    match classify_float(rest, true) {
        Fl::Num(v) => Bound::Ok(v, ex),
        Fl::Inf(neg) => Bound::Ok(if neg { f64::NEG_INFINITY } else { f64::INFINITY }, ex),
        Fl::Nan => Bound::Bad("nan-bound"),
        Fl::Invalid => Bound::Bad("bad-bound"),
        Fl::Unsure => Bound::Unsure,
    }
}

fn in_bounds(s: f64, lo: (f64, bool), hi: (f64, bool)) -> bool {
    let above = if lo.1 { s > lo.0 } else { s >= lo.0 };
    let below = if hi.1 { s < hi.0 } else { s <= hi.0 };
    above && below
}

#[derive(Clone, Debug, Default)]
pub struct Model {
    pub db: BTreeMap<Bytes, Entry>,
    pub now: i64,
    /// entries removed by clock advances since the harness last cleared this (used only by the
    /// matcher of the stale-clock fast-path finding)
    pub purged: BTreeMap<Bytes, Entry>,
}

impl Model {
    pub fn new(now: i64) -> Model {
        Model { db: BTreeMap::new(), now, purged: BTreeMap::new() }
    }

    /// Move the clock (never backwards) and drop everything whose deadline has been reached.
    pub fn advance(&mut self, now: i64) {
        if now > self.now {
            self.now = now;
        }
        let now = self.now;
        let dead: Vec<Bytes> = self
            .db
            .iter()
            .filter(|(_, e)| e.deadline.map_or(false, |d| now >= d))
            .map(|(k, _)| k.clone())
            .collect();
        for k in dead {
            if let Some(e) = self.db.remove(&k) {
                self.purged.insert(k, e);
            }
        }
    }

    pub fn pending_deadlines(&self) -> Vec<i64> {
        let mut v: Vec<i64> = self.db.values().filter_map(|e| e.deadline).collect();
        v.sort();
        v.dedup();
        v
    }

    pub fn keys(&self) -> Vec<Bytes> {
        self.db.keys().cloned().collect()
    }

    pub fn get(&self, k: &[u8]) -> Option<&Entry> {
        self.db.get(k)
    }

    pub fn remove(&mut self, k: &[u8]) {
        self.db.remove(k);
    }

    pub fn set_deadline(&mut self, k: &[u8], d: Option<i64>) {
        if let Some(e) = self.db.get_mut(k) {
            e.deadline = d;
        }
    }

    pub fn put(&mut self, k: &[u8], val: Val, deadline: Option<i64>) {
        self.db.insert(k.to_vec(), Entry { val, deadline });
    }

    fn drop_if_empty(&mut self, k: &[u8]) {
        if self.db.get(k).map_or(false, |e| e.val.is_empty_collection()) {
            self.db.remove(k);
        }
    }

    /// zset in rank order: (score, member bytes)
    pub fn zsorted(z: &BTreeMap<Bytes, f64>) -> Vec<(Bytes, f64)> {
        let mut v: Vec<(Bytes, f64)> = z.iter().map(|(m, s)| (m.clone(), *s)).collect();
        v.sort_by(|a, b| a.1.partial_cmp(&b.1).unwrap_or(std::cmp::Ordering::Equal).then_with(|| a.0.cmp(&b.0)));
        v
    }

    fn str_of(&self, k: &[u8]) -> Result<Option<&Bytes>, Expect> {
        match self.db.get(k) {
            None => Ok(None),
            Some(Entry { val: Val::Str(s), .. }) => Ok(Some(s)),
            Some(_) => Err(wrongtype()),
        }
    }

    /// Validation of an expire argument of SET/SETEX/PSETEX/GETEX (Redis
    /// getExpireMillisecondsOrReply): returns the absolute deadline.
    fn string_expire(&self, unit: &str, n: i64) -> Result<i64, Expect> {
        let seconds = unit == "EX" || unit == "EXAT";
        let relative = unit == "EX" || unit == "PX";
        if n <= 0 {
            return Err(err("ERR", None, "expire-nonpositive"));
        }
        if seconds && n > i64::MAX / 1000 {
            return Err(err("ERR", None, if unit == "EX" { "expire-overflow-ex" } else { "expire-overflow" }));
        }
        let mut ms = if seconds { n * 1000 } else { n };
        if relative {
            ms = match ms.checked_add(self.now) {
                Some(v) => v,
                None => return Err(err("ERR", None, "expire-overflow")),
            };
        }
        Ok(ms)
    }

    /// EXPIRE / PEXPIRE / EXPIREAT / PEXPIREAT (Redis expireGenericCommand).
    fn expire_generic(&mut self, key: &[u8], n: i64, seconds: bool, relative: bool, flags: &[Bytes]) -> Expect {
        let (mut nx, mut xx, mut gt, mut lt) = (false, false, false, false);
        for f in flags {
            match upper(f).as_str() {
                "NX" => nx = true,
                "XX" => xx = true,
                "GT" => gt = true,
                "LT" => lt = true,
                _ => return err("ERR", None, "expire-flag-unknown"),
            }
        }
        if nx && (xx || gt || lt) || (gt && lt) {
            return err("ERR", None, "expire-flags-incompatible");
        }
        let mut when = n;
        if seconds {
            if when > i64::MAX / 1000 || when < i64::MIN / 1000 {
                return err("ERR", None, "expire-overflow");
            }
            when *= 1000;
        }
        let basetime = if relative { self.now } else { 0 };
        if when > i64::MAX - basetime {
            return err("ERR", None, "expire-overflow");
        }
        if when < i64::MIN / 2 {
            // far-negative relative times: Redis deletes the key; not asserted (Appendix A)
            return unspecified_key(key, "expire-extreme-negative");
        }
        when += basetime;
        let cur = match self.db.get(key) {
            None => return int(0),
            Some(e) => e.deadline,
        };
        if nx && cur.is_some() {
            return int(0);
        }
        if xx && cur.is_none() {
            return int(0);
        }
        if gt && (cur.is_none() || when <= cur.unwrap()) {
            return int(0);
        }
        if lt && cur.is_some() && when >= cur.unwrap() {
            return int(0);
        }
        if when <= self.now {
            self.db.remove(key);
        } else {
            self.set_deadline(key, Some(when));
        }
        int(1)
    }

    fn incr_by(&mut self, key: &[u8], delta: i64) -> Expect {
        let cur = match self.str_of(key) {
            Err(e) => return e,
            Ok(None) => 0,
            Ok(Some(s)) => match string2ll(s) {
                Some(v) => v,
                None => return not_integer(),
            },
        };
        let new = match cur.checked_add(delta) {
            Some(v) => v,
            None => return err("ERR", Some("ERR increment or decrement would overflow"), "incr-overflow"),
        };
        let deadline = self.db.get(key).and_then(|e| e.deadline);
        self.put(key, Val::Str(new.to_string().into_bytes()), deadline);
        int(new)
    }

    fn list_push(&mut self, key: &[u8], vals: &[Bytes], left: bool) -> Expect {
        match self.db.get_mut(key) {
            None => {
                let mut l = VecDeque::new();
                for v in vals {
                    if left {
                        l.push_front(v.clone());
                    } else {
                        l.push_back(v.clone());
                    }
                }
                let n = l.len() as i64;
                self.put(key, Val::List(l), None);
                int(n)
            }
            Some(Entry { val: Val::List(l), .. }) => {
                for v in vals {
                    if left {
                        l.push_front(v.clone());
                    } else {
                        l.push_back(v.clone());
                    }
                }
                int(l.len() as i64)
            }
            Some(_) => wrongtype(),
        }
    }

    fn list_pop(&mut self, key: &[u8], left: bool) -> Expect {
        let r = match self.db.get_mut(key) {
            None => return nil(),
            Some(Entry { val: Val::List(l), .. }) => {
                if left {
                    l.pop_front()
                } else {
                    l.pop_back()
                }
            }
            Some(_) => return wrongtype(),
        };
        self.drop_if_empty(key);
        match r {
            Some(v) => bulk(&v),
            None => nil(),
        }
    }

    fn lmove(&mut self, src: &[u8], dst: &[u8], from_left: bool, to_left: bool) -> Expect {
        match self.db.get(src) {
            None => return nil(),
            Some(Entry { val: Val::List(_), .. }) => {}
            Some(_) => return wrongtype(),
        }
        match self.db.get(dst) {
            None | Some(Entry { val: Val::List(_), .. }) => {}
            Some(_) => return err("WRONGTYPE", Some(WRONGTYPE), "lmove-dst-wrongtype"),
        }
        let v = match self.db.get_mut(src) {
            Some(Entry { val: Val::List(l), .. }) => {
                if from_left {
                    l.pop_front()
                } else {
                    l.pop_back()
                }
            }
            _ => None,
        };
        let v = match v {
            Some(v) => v,
            None => return nil(),
        };
        self.drop_if_empty(src);
        match self.db.get_mut(dst) {
            Some(Entry { val: Val::List(l), .. }) => {
                if to_left {
                    l.push_front(v.clone());
                } else {
                    l.push_back(v.clone());
                }
            }
            _ => {
                let mut l = VecDeque::new();
                l.push_back(v.clone());
                self.put(dst, Val::List(l), None);
            }
        }
        bulk(&v)
    }

    /// Apply one command at the current instant. `got` is the implementation's reply; it is
    /// consulted only for commands whose answer Redis leaves open (SPOP, RANDOMKEY).
    pub fn apply(&mut self, argv: &[Bytes], got: &Reply) -> Expect {
        self.advance(self.now);
        if argv.is_empty() {
            return unspecified("empty-argv");
        }
        let name = upper(&argv[0]);
        let a = argv;
        let n = a.len();
        macro_rules! need {
            ($cond:expr) => {
                if !($cond) {
                    return unspecified("arity-outside-grammar");
                }
            };
        }
        macro_rules! int_arg {
            ($b:expr) => {
                match string2ll($b) {
                    Some(v) => v,
                    None => return unspecified("integer-argument-spelling"),
                }
            };
        }
        match name.as_str() {
            // ------------------------------------------------------------ strings
            "GET" => {
                need!(n == 2);
                match self.str_of(&a[1]) {
                    Err(e) => e,
                    Ok(None) => nil(),
                    Ok(Some(s)) => bulk(s),
                }
            }
            "SET" => {
                need!(n >= 3);
                let (mut nx, mut xx, mut get, mut keepttl) = (false, false, false, false);
                let mut exp: Option<(String, Bytes)> = None;
                let mut syntax = false;
                let mut i = 3;
                while i < n {
                    match upper(&a[i]).as_str() {
                        "NX" => nx = true,
                        "XX" => xx = true,
                        "GET" => get = true,
                        "KEEPTTL" => {
                            if exp.is_some() {
                                syntax = true;
                            }
                            keepttl = true;
                        }
                        o @ ("EX" | "PX" | "EXAT" | "PXAT") => {
                            if exp.is_some() || keepttl || i + 1 >= n {
                                syntax = true;
                            }
                            if i + 1 < n {
                                exp = Some((o.to_string(), a[i + 1].clone()));
                            }
                            i += 1;
                        }
                        _ => syntax = true,
                    }
                    i += 1;
                }
                if syntax || (nx && xx) {
                    return syntax_error();
                }
                let key = &a[1];
                let deadline = match &exp {
                    None => None,
                    Some((unit, arg)) => {
                        let v = match string2ll(arg) {
                            Some(v) => v,
                            None => return unspecified("integer-argument-spelling"),
                        };
                        match self.string_expire(unit, v) {
                            Ok(d) => Some(d),
                            Err(e) => {
                                // a WRONGTYPE (GET option) can apply too; which of the two errors
                                // wins is not documented
                                return if get && self.str_of(key).is_err() {
                                    Expect::AnyError { rule: "expire-argument+wrongtype" }
                                } else {
                                    e
                                };
                            }
                        }
                    }
                };
                let old = if get {
                    match self.str_of(key) {
                        Err(e) => return e,
                        Ok(o) => Some(o.cloned()),
                    }
                } else {
                    None
                };
                let found = self.db.contains_key(key.as_slice());
                let reply = |old: &Option<Option<Bytes>>| match old {
                    Some(Some(v)) => bulk(v),
                    Some(None) => nil(),
                    None => ok(),
                };
                if (nx && found) || (xx && !found) {
                    return match &old {
                        Some(_) => reply(&old),
                        None => nil(),
                    };
                }
                let new_deadline = if deadline.is_some() {
                    deadline
                } else if keepttl {
                    self.db.get(key.as_slice()).and_then(|e| e.deadline)
                } else {
                    None
                };
                if new_deadline.map_or(false, |d| d <= self.now) {
                    self.db.remove(key.as_slice());
                } else {
                    self.put(key, Val::Str(a[2].clone()), new_deadline);
                }
                reply(&old)
            }
            "SETNX" => {
                need!(n == 3);
                if self.db.contains_key(a[1].as_slice()) {
                    int(0)
                } else {
                    self.put(&a[1], Val::Str(a[2].clone()), None);
                    int(1)
                }
            }
            "SETEX" | "PSETEX" => {
                need!(n == 4);
                let v = int_arg!(&a[2]);
                let unit = if name == "SETEX" { "EX" } else { "PX" };
                match self.string_expire(unit, v) {
                    Err(e) => e,
                    Ok(d) => {
                        self.put(&a[1], Val::Str(a[3].clone()), Some(d));
                        ok()
                    }
                }
            }
            "APPEND" => {
                need!(n == 3);
                match self.db.get_mut(a[1].as_slice()) {
                    None => {
                        self.put(&a[1], Val::Str(a[2].clone()), None);
                        int(a[2].len() as i64)
                    }
                    Some(Entry { val: Val::Str(s), .. }) => {
                        s.extend_from_slice(&a[2]);
                        int(s.len() as i64)
                    }
                    Some(_) => wrongtype(),
                }
            }
            "GETSET" => {
                need!(n == 3);
                let old = match self.str_of(&a[1]) {
                    Err(e) => return e,
                    Ok(o) => o.cloned(),
                };
                // setKey() without KEEPTTL: the previous time to live is discarded
                self.put(&a[1], Val::Str(a[2].clone()), None);
                match old {
                    Some(v) => bulk(&v),
                    None => nil(),
                }
            }
            "STRLEN" => {
                need!(n == 2);
                match self.str_of(&a[1]) {
                    Err(e) => e,
                    Ok(None) => int(0),
                    Ok(Some(s)) => int(s.len() as i64),
                }
            }
            "MGET" => {
                need!(n >= 2);
                Expect::Exact(Reply::Array(
                    a[1..]
                        .iter()
                        .map(|k| match self.db.get(k.as_slice()) {
                            Some(Entry { val: Val::Str(s), .. }) => Reply::Bulk(s.clone()),
                            _ => Reply::Nil,
                        })
                        .collect(),
                ))
            }
            "MSET" => {
                need!(n >= 3 && n % 2 == 1);
                for kv in a[1..].chunks(2) {
                    self.put(&kv[0], Val::Str(kv[1].clone()), None);
                }
                ok()
            }
            "MSETNX" => {
                need!(n >= 3 && n % 2 == 1);
                if a[1..].chunks(2).any(|kv| self.db.contains_key(kv[0].as_slice())) {
                    return int(0);
                }
                for kv in a[1..].chunks(2) {
                    self.put(&kv[0], Val::Str(kv[1].clone()), None);
                }
                int(1)
            }
            "GETRANGE" => {
                need!(n == 4);
                let (start, end) = (int_arg!(&a[2]), int_arg!(&a[3]));
                let s = match self.str_of(&a[1]) {
                    Err(e) => return e,
                    Ok(None) => return bulk(b""),
                    Ok(Some(s)) => s,
                };
                let len = s.len() as i64;
                if start < 0 && end < 0 && start > end {
                    return bulk(b"");
                }
                let mut st = if start < 0 { len.saturating_add(start) } else { start };
                let mut en = if end < 0 { len.saturating_add(end) } else { end };
                if st < 0 {
                    st = 0;
                }
                if en < 0 {
                    en = 0;
                }
                if en >= len {
                    en = len - 1;
                }
                if st > en || len == 0 {
                    bulk(b"")
                } else {
                    bulk(&s[st as usize..=en as usize])
                }
            }
            "SETRANGE" => {
                need!(n == 4);
                let off = int_arg!(&a[2]);
                if off < 0 {
                    return err("ERR", None, "setrange-negative-offset");
                }
                let val = &a[3];
                let cur = match self.str_of(&a[1]) {
                    Err(e) => return e,
                    Ok(o) => o.cloned(),
                };
                if val.is_empty() {
                    // "setting nothing": the current length, nothing created, nothing padded
                    return int(cur.map_or(0, |s| s.len() as i64));
                }
                if off as u128 + val.len() as u128 > 512 * 1024 * 1024 {
                    return err("ERR", None, "string-too-long");
                }
                let mut s = cur.unwrap_or_default();
                let need_len = off as usize + val.len();
                if s.len() < need_len {
                    s.resize(need_len, 0);
                }
                s[off as usize..need_len].copy_from_slice(val);
                let len = s.len() as i64;
                let deadline = self.db.get(a[1].as_slice()).and_then(|e| e.deadline);
                self.put(&a[1], Val::Str(s), deadline);
                int(len)
            }
            "GETEX" => {
                need!(n >= 2);
                let mut opt: Option<(String, Option<Bytes>)> = None;
                let mut i = 2;
                let mut syntax = false;
                while i < n {
                    match upper(&a[i]).as_str() {
                        o @ ("EX" | "PX" | "EXAT" | "PXAT") => {
                            if opt.is_some() || i + 1 >= n {
                                syntax = true;
                            } else {
                                opt = Some((o.to_string(), Some(a[i + 1].clone())));
                            }
                            i += 1;
                        }
                        "PERSIST" => {
                            if opt.is_some() {
                                syntax = true;
                            }
                            opt = Some(("PERSIST".into(), None));
                        }
                        _ => syntax = true,
                    }
                    i += 1;
                }
                if syntax {
                    return syntax_error();
                }
                let v = match self.str_of(&a[1]) {
                    Err(e) => return e,
                    Ok(None) => return nil(),
                    Ok(Some(s)) => s.clone(),
                };
                match opt {
                    None => {}
                    Some((o, None)) if o == "PERSIST" => self.set_deadline(&a[1], None),
                    Some((unit, Some(arg))) => {
                        let t = match string2ll(&arg) {
                            Some(t) => t,
                            None => return unspecified("integer-argument-spelling"),
                        };
                        match self.string_expire(&unit, t) {
                            Err(e) => return e,
                            Ok(d) => {
                                if d <= self.now {
                                    self.db.remove(a[1].as_slice());
                                } else {
                                    self.set_deadline(&a[1], Some(d));
                                }
                            }
                        }
                    }
                    _ => {}
                }
                bulk(&v)
            }
            "GETDEL" => {
                need!(n == 2);
                match self.str_of(&a[1]) {
                    Err(e) => e,
                    Ok(None) => nil(),
                    Ok(Some(s)) => {
                        let s = s.clone();
                        self.db.remove(a[1].as_slice());
                        bulk(&s)
                    }
                }
            }
            "SETBIT" => {
                need!(n == 4);
                let off = int_arg!(&a[2]);
                let bit = int_arg!(&a[3]);
                let bad_arg = off < 0 || off >= (1i64 << 32) || !(bit == 0 || bit == 1);
                let cur = self.str_of(&a[1]);
                if bad_arg {
                    return if cur.is_err() {
                        Expect::AnyError { rule: "bit-argument+wrongtype" }
                    } else {
                        err("ERR", None, "bit-argument")
                    };
                }
                let mut s = match cur {
                    Err(e) => return e,
                    Ok(o) => o.cloned().unwrap_or_default(),
                };
                let byte = (off / 8) as usize;
                if s.len() < byte + 1 {
                    s.resize(byte + 1, 0);
                }
                let mask = 0x80u8 >> (off % 8);
                let old = (s[byte] & mask != 0) as i64;
                if bit == 1 {
                    s[byte] |= mask;
                } else {
                    s[byte] &= !mask;
                }
                let deadline = self.db.get(a[1].as_slice()).and_then(|e| e.deadline);
                self.put(&a[1], Val::Str(s), deadline);
                int(old)
            }
            "GETBIT" => {
                need!(n == 3);
                let off = int_arg!(&a[2]);
                let cur = self.str_of(&a[1]);
                if off < 0 || off >= (1i64 << 32) {
                    return if cur.is_err() {
                        Expect::AnyError { rule: "bit-argument+wrongtype" }
                    } else {
                        err("ERR", None, "bit-argument")
                    };
                }
                match cur {
                    Err(e) => e,
                    Ok(None) => int(0),
                    Ok(Some(s)) => {
                        let byte = (off / 8) as usize;
                        if byte >= s.len() {
                            int(0)
                        } else {
                            int((s[byte] & (0x80u8 >> (off % 8)) != 0) as i64)
                        }
                    }
                }
            }
            "INCR" => {
                need!(n == 2);
                self.incr_by(&a[1], 1)
            }
            "DECR" => {
                need!(n == 2);
                self.incr_by(&a[1], -1)
            }
            "INCRBY" => {
                need!(n == 3);
                let d = int_arg!(&a[2]);
                self.incr_by(&a[1], d)
            }
            "DECRBY" => {
                need!(n == 3);
                let d = int_arg!(&a[2]);
                if d == i64::MIN {
                    return if self.str_of(&a[1]).is_err() {
                        Expect::AnyError { rule: "decrby-min+wrongtype" }
                    } else {
                        err("ERR", None, "decrby-min")
                    };
                }
                self.incr_by(&a[1], -d)
            }
            "INCRBYFLOAT" => {
                need!(n == 3);
                let key = &a[1];
                let cur = match self.str_of(key) {
                    Err(_) => {
                        return match classify_float(&a[2], false) {
                            Fl::Num(_) => wrongtype(),
                            _ => Expect::AnyError { rule: "float-argument+wrongtype" },
                        }
                    }
                    Ok(o) => o.cloned(),
                };
                let base = match &cur {
                    None => Fl::Num(0.0),
                    Some(s) => classify_float(s, false),
                };
                let incr = classify_float(&a[2], false);
                match (base, incr) {
                    (Fl::Invalid, Fl::Num(_)) => err("ERR", Some("ERR value is not a valid float"), "not-float"),
                    // two errors apply (value and increment): an ERR, which text is not asserted
                    (Fl::Invalid, _) => err("ERR", None, "not-float"),
                    // a stored "nan": an error for certain, which of the two texts is not asserted
                    (Fl::Nan, _) => err("ERR", None, "not-float-nan"),
                    (Fl::Unsure, _) | (_, Fl::Unsure) => unspecified_key(key, "float-outside-asserted-domain"),
                    (_, Fl::Invalid) | (_, Fl::Nan) => err("ERR", None, "float-argument"),
                    (Fl::Inf(_), _) | (_, Fl::Inf(_)) => err("ERR", None, "float-nan-or-infinity"),
                    (Fl::Num(x), Fl::Num(y)) => {
                        let sum = x + y;
                        if !(exact_domain(x) && exact_domain(y) && exact_domain(sum)) {
                            return unspecified_key(key, "float-outside-asserted-domain");
                        }
                        if sum == 0.0 && (x.is_sign_negative() || y.is_sign_negative()) {
                            // sign of a zero result: not asserted
                            return unspecified_key(key, "float-signed-zero");
                        }
                        let text = exact_text(sum).into_bytes();
                        let deadline = self.db.get(key.as_slice()).and_then(|e| e.deadline);
                        self.put(key, Val::Str(text.clone()), deadline);
                        bulk(&text)
                    }
                }
            }
            // ------------------------------------------------------------ keys
            "DEL" | "UNLINK" => {
                need!(n >= 2);
                let mut c = 0;
                for k in &a[1..] {
                    if self.db.remove(k.as_slice()).is_some() {
                        c += 1;
                    }
                }
                int(c)
            }
            "EXISTS" => {
                need!(n >= 2);
                int(a[1..].iter().filter(|k| self.db.contains_key(k.as_slice())).count() as i64)
            }
            "TYPE" => {
                need!(n == 2);
                let t = self.db.get(a[1].as_slice()).map_or("none", |e| e.val.type_name());
                Expect::Exact(Reply::Simple(t.as_bytes().to_vec()))
            }
            "DBSIZE" => int(self.db.len() as i64),
            "FLUSHDB" | "FLUSHALL" => {
                need!(n == 1);
                self.db.clear();
                ok()
            }
            "KEYS" => {
                need!(n == 2);
                let mut out = Vec::new();
                for k in self.db.keys() {
                    match glob_match(&a[1], k) {
                        None => return unspecified("glob-outside-asserted-subset"),
                        Some(true) => out.push(Reply::Bulk(k.clone())),
                        Some(false) => {}
                    }
                }
                Expect::Unordered(out)
            }
            "RANDOMKEY" => {
                need!(n == 1);
                Expect::Judged(match got {
                    Reply::Nil if self.db.is_empty() => Ok(()),
                    Reply::Bulk(k) if self.db.contains_key(k.as_slice()) => Ok(()),
                    other => Err(format!(
                        "RANDOMKEY must answer nil iff the keyspace is empty, else an existing key; model has {} keys, got {}",
                        self.db.len(),
                        other.show()
                    )),
                })
            }
            "RENAME" | "RENAMENX" => {
                need!(n == 3);
                let nxv = name == "RENAMENX";
                let (src, dst) = (&a[1], &a[2]);
                if !self.db.contains_key(src.as_slice()) {
                    return err("ERR", Some("ERR no such key"), "no-such-key");
                }
                if src == dst {
                    return if nxv { int(0) } else { ok() };
                }
                if nxv && self.db.contains_key(dst.as_slice()) {
                    return int(0);
                }
                let e = self.db.remove(src.as_slice()).unwrap();
                self.db.insert(dst.clone(), e);
                if nxv {
                    int(1)
                } else {
                    ok()
                }
            }
            "EXPIRE" | "PEXPIRE" => {
                need!(n >= 3);
                let v = int_arg!(&a[2]);
                self.expire_generic(&a[1], v, name == "EXPIRE", true, &a[3..])
            }
            "EXPIREAT" | "PEXPIREAT" => {
                need!(n == 3);
                let v = int_arg!(&a[2]);
                self.expire_generic(&a[1], v, name == "EXPIREAT", false, &[])
            }
            "TTL" | "PTTL" => {
                need!(n == 2);
                match self.db.get(a[1].as_slice()) {
                    None => int(-2),
                    Some(Entry { deadline: None, .. }) => int(-1),
                    Some(Entry { deadline: Some(d), .. }) => {
                        let ms = (*d - self.now).max(0);
                        if name == "PTTL" {
                            int(ms)
                        } else if ms > i64::MAX - 1000 {
                            // Redis' own (ttl+500)/1000 overflows here: not asserted
                            unspecified("ttl-rounding-overflow")
                        } else {
                            int((ms + 500) / 1000)
                        }
                    }
                }
            }
            "EXPIRETIME" | "PEXPIRETIME" => {
                need!(n == 2);
                match self.db.get(a[1].as_slice()) {
                    None => int(-2),
                    Some(Entry { deadline: None, .. }) => int(-1),
                    Some(Entry { deadline: Some(d), .. }) => {
                        if name == "PEXPIRETIME" {
                            int(*d)
                        } else {
                            // seconds: floor or round-to-nearest of ms/1000, both accepted
                            let mut v = vec![*d / 1000, d.saturating_add(500) / 1000];
                            v.dedup();
                            Expect::IntOneOf(v)
                        }
                    }
                }
            }
            "PERSIST" => {
                need!(n == 2);
                match self.db.get_mut(a[1].as_slice()) {
                    Some(e) if e.deadline.is_some() => {
                        e.deadline = None;
                        int(1)
                    }
                    _ => int(0),
                }
            }
            // ------------------------------------------------------------ lists
            "LPUSH" | "RPUSH" => {
                need!(n >= 3);
                self.list_push(&a[1], &a[2..], name == "LPUSH")
            }
            "LPOP" | "RPOP" => {
                need!(n == 2);
                self.list_pop(&a[1], name == "LPOP")
            }
            "LLEN" => {
                need!(n == 2);
                match self.db.get(a[1].as_slice()) {
                    None => int(0),
                    Some(Entry { val: Val::List(l), .. }) => int(l.len() as i64),
                    Some(_) => wrongtype(),
                }
            }
            "LINDEX" => {
                need!(n == 3);
                let idx = int_arg!(&a[2]);
                match self.db.get(a[1].as_slice()) {
                    None => nil(),
                    Some(Entry { val: Val::List(l), .. }) => {
                        let len = l.len() as i64;
                        let i = if idx < 0 { len.saturating_add(idx) } else { idx };
                        if i < 0 || i >= len {
                            nil()
                        } else {
                            bulk(&l[i as usize])
                        }
                    }
                    Some(_) => wrongtype(),
                }
            }
            "LRANGE" => {
                need!(n == 4);
                let (s, e) = (int_arg!(&a[2]), int_arg!(&a[3]));
                match self.db.get(a[1].as_slice()) {
                    None => Expect::Exact(Reply::Array(vec![])),
                    Some(Entry { val: Val::List(l), .. }) => match norm_range(l.len() as i64, s, e) {
                        None => Expect::Exact(Reply::Array(vec![])),
                        Some((s, e)) => Expect::Exact(Reply::Array(bulks(l.iter().skip(s).take(e - s + 1)))),
                    },
                    Some(_) => wrongtype(),
                }
            }
            "LSET" => {
                need!(n == 4);
                let idx = int_arg!(&a[2]);
                match self.db.get_mut(a[1].as_slice()) {
                    None => err("ERR", Some("ERR no such key"), "no-such-key"),
                    Some(Entry { val: Val::List(l), .. }) => {
                        let len = l.len() as i64;
                        let i = if idx < 0 { len.saturating_add(idx) } else { idx };
                        if i < 0 || i >= len {
                            err("ERR", Some("ERR index out of range"), "index-out-of-range")
                        } else {
                            l[i as usize] = a[3].clone();
                            ok()
                        }
                    }
                    Some(_) => wrongtype(),
                }
            }
            "LTRIM" => {
                need!(n == 4);
                let (s, e) = (int_arg!(&a[2]), int_arg!(&a[3]));
                match self.db.get_mut(a[1].as_slice()) {
                    None => ok(),
                    Some(Entry { val: Val::List(l), .. }) => {
                        match norm_range(l.len() as i64, s, e) {
                            None => l.clear(),
                            Some((s, e)) => {
                                let kept: VecDeque<Bytes> = l.iter().skip(s).take(e - s + 1).cloned().collect();
                                *l = kept;
                            }
                        }
                        self.drop_if_empty(&a[1]);
                        ok()
                    }
                    Some(_) => wrongtype(),
                }
            }
            "RPOPLPUSH" => {
                need!(n == 3);
                self.lmove(&a[1], &a[2], false, true)
            }
            "LMOVE" => {
                need!(n == 5);
                let f = upper(&a[3]);
                let t = upper(&a[4]);
                if !(f == "LEFT" || f == "RIGHT") || !(t == "LEFT" || t == "RIGHT") {
                    return syntax_error();
                }
                self.lmove(&a[1], &a[2], f == "LEFT", t == "LEFT")
            }
            // ------------------------------------------------------------ sets
            "SADD" => {
                need!(n >= 3);
                match self.db.get_mut(a[1].as_slice()) {
                    None => {
                        let s: BTreeSet<Bytes> = a[2..].iter().cloned().collect();
                        let c = s.len() as i64;
                        self.put(&a[1], Val::Set(s), None);
                        int(c)
                    }
                    Some(Entry { val: Val::Set(s), .. }) => {
                        let mut c = 0;
                        for m in &a[2..] {
                            if s.insert(m.clone()) {
                                c += 1;
                            }
                        }
                        int(c)
                    }
                    Some(_) => wrongtype(),
                }
            }
            "SREM" => {
                need!(n >= 3);
                let c = match self.db.get_mut(a[1].as_slice()) {
                    None => return int(0),
                    Some(Entry { val: Val::Set(s), .. }) => a[2..].iter().filter(|m| s.remove(m.as_slice())).count(),
                    Some(_) => return wrongtype(),
                };
                self.drop_if_empty(&a[1]);
                int(c as i64)
            }
            "SMEMBERS" => {
                need!(n == 2);
                match self.db.get(a[1].as_slice()) {
                    None => Expect::Unordered(vec![]),
                    Some(Entry { val: Val::Set(s), .. }) => Expect::Unordered(bulks(s.iter())),
                    Some(_) => wrongtype(),
                }
            }
            "SISMEMBER" => {
                need!(n == 3);
                match self.db.get(a[1].as_slice()) {
                    None => int(0),
                    Some(Entry { val: Val::Set(s), .. }) => int(s.contains(a[2].as_slice()) as i64),
                    Some(_) => wrongtype(),
                }
            }
            "SCARD" => {
                need!(n == 2);
                match self.db.get(a[1].as_slice()) {
                    None => int(0),
                    Some(Entry { val: Val::Set(s), .. }) => int(s.len() as i64),
                    Some(_) => wrongtype(),
                }
            }
            "SPOP" => {
                need!(n == 2 || n == 3);
                let count = if n == 3 {
                    match string2ll(&a[2]) {
                        Some(c) if c >= 0 => Some(c as usize),
                        Some(_) => return err("ERR", None, "spop-negative-count"),
                        None => return unspecified("integer-argument-spelling"),
                    }
                } else {
                    None
                };
                let set = match self.db.get_mut(a[1].as_slice()) {
                    None => {
                        return match count {
                            None => nil(),
                            Some(_) => Expect::Exact(Reply::Array(vec![])),
                        }
                    }
                    Some(Entry { val: Val::Set(s), .. }) => s,
                    Some(_) => return wrongtype(),
                };
                let verdict = match (count, got) {
                    (None, Reply::Bulk(m)) => {
                        if set.remove(m.as_slice()) {
                            Ok(())
                        } else {
                            Err(format!("SPOP returned \"{}\" which is not a member of the set", vcore::show(m)))
                        }
                    }
                    (Some(c), Reply::Array(items)) => {
                        let want = c.min(set.len());
                        let mut seen = BTreeSet::new();
                        let mut res = Ok(());
                        if items.len() != want {
                            res = Err(format!("SPOP count {}: expected {} elements of a set of {}, got {}", c, want, set.len(), items.len()));
                        }
                        for it in items {
                            match it {
                                Reply::Bulk(m) if set.contains(m.as_slice()) && seen.insert(m.clone()) => {}
                                other => {
                                    if res.is_ok() {
                                        res = Err(format!("SPOP returned {} which is not a (distinct) member of the set", other.show()));
                                    }
                                }
                            }
                        }
                        if res.is_ok() {
                            for m in &seen {
                                set.remove(m.as_slice());
                            }
                        }
                        res
                    }
                    (None, other) => Err(format!("SPOP on a non-empty set must return a member, got {}", other.show())),
                    (Some(_), other) => Err(format!("SPOP with count must return an array, got {}", other.show())),
                };
                self.drop_if_empty(&a[1]);
                Expect::Judged(verdict)
            }
            // ------------------------------------------------------------ hashes
            "HSET" => {
                need!(n >= 4 && n % 2 == 0);
                let apply = |h: &mut BTreeMap<Bytes, Bytes>| {
                    let mut c = 0;
                    for fv in a[2..].chunks(2) {
                        if h.insert(fv[0].clone(), fv[1].clone()).is_none() {
                            c += 1;
                        }
                    }
                    c
                };
                match self.db.get_mut(a[1].as_slice()) {
                    None => {
                        let mut h = BTreeMap::new();
                        let c = apply(&mut h);
                        self.put(&a[1], Val::Hash(h), None);
                        int(c)
                    }
                    Some(Entry { val: Val::Hash(h), .. }) => int(apply(h)),
                    Some(_) => wrongtype(),
                }
            }
            "HGET" => {
                need!(n == 3);
                match self.db.get(a[1].as_slice()) {
                    None => nil(),
                    Some(Entry { val: Val::Hash(h), .. }) => h.get(a[2].as_slice()).map_or(nil(), |v| bulk(v)),
                    Some(_) => wrongtype(),
                }
            }
            "HDEL" => {
                need!(n >= 3);
                let c = match self.db.get_mut(a[1].as_slice()) {
                    None => return int(0),
                    Some(Entry { val: Val::Hash(h), .. }) => a[2..].iter().filter(|f| h.remove(f.as_slice()).is_some()).count(),
                    Some(_) => return wrongtype(),
                };
                self.drop_if_empty(&a[1]);
                int(c as i64)
            }
            "HGETALL" => {
                need!(n == 2);
                match self.db.get(a[1].as_slice()) {
                    None => Expect::Pairs(vec![]),
                    Some(Entry { val: Val::Hash(h), .. }) => {
                        Expect::Pairs(h.iter().map(|(f, v)| (Reply::Bulk(f.clone()), Reply::Bulk(v.clone()))).collect())
                    }
                    Some(_) => wrongtype(),
                }
            }
            "HKEYS" | "HVALS" => {
                need!(n == 2);
                match self.db.get(a[1].as_slice()) {
                    None => Expect::Unordered(vec![]),
                    Some(Entry { val: Val::Hash(h), .. }) => {
                        if name == "HKEYS" {
                            Expect::Unordered(bulks(h.keys()))
                        } else {
                            Expect::Unordered(bulks(h.values()))
                        }
                    }
                    Some(_) => wrongtype(),
                }
            }
            "HLEN" => {
                need!(n == 2);
                match self.db.get(a[1].as_slice()) {
                    None => int(0),
                    Some(Entry { val: Val::Hash(h), .. }) => int(h.len() as i64),
                    Some(_) => wrongtype(),
                }
            }
            "HEXISTS" => {
                need!(n == 3);
                match self.db.get(a[1].as_slice()) {
                    None => int(0),
                    Some(Entry { val: Val::Hash(h), .. }) => int(h.contains_key(a[2].as_slice()) as i64),
                    Some(_) => wrongtype(),
                }
            }
            "HINCRBY" => {
                need!(n == 4);
                let d = int_arg!(&a[3]);
                let cur = match self.db.get(a[1].as_slice()) {
                    None => 0,
                    Some(Entry { val: Val::Hash(h), .. }) => match h.get(a[2].as_slice()) {
                        None => 0,
                        Some(v) => match string2ll(v) {
                            Some(x) => x,
                            None => return err("ERR", Some("ERR hash value is not an integer"), "hash-not-integer"),
                        },
                    },
                    Some(_) => return wrongtype(),
                };
                let new = match cur.checked_add(d) {
                    Some(v) => v,
                    None => return err("ERR", Some("ERR increment or decrement would overflow"), "incr-overflow"),
                };
                match self.db.get_mut(a[1].as_slice()) {
                    Some(Entry { val: Val::Hash(h), .. }) => {
                        h.insert(a[2].clone(), new.to_string().into_bytes());
                    }
                    _ => {
                        let mut h = BTreeMap::new();
                        h.insert(a[2].clone(), new.to_string().into_bytes());
                        self.put(&a[1], Val::Hash(h), None);
                    }
                }
                int(new)
            }
            // ------------------------------------------------------------ sorted sets
            "ZADD" => {
                need!(n >= 4);
                let (mut nx, mut xx, mut gt, mut lt, mut ch) = (false, false, false, false, false);
                let mut i = 2;
                while i < n {
                    match upper(&a[i]).as_str() {
                        "NX" => nx = true,
                        "XX" => xx = true,
                        "GT" => gt = true,
                        "LT" => lt = true,
                        "CH" => ch = true,
                        "INCR" => return unspecified_key(&a[1], "zadd-incr-not-modelled"),
                        _ => break,
                    }
                    i += 1;
                }
                need!(i < n && (n - i) % 2 == 0);
                let wrong = !matches!(self.db.get(a[1].as_slice()), None | Some(Entry { val: Val::ZSet(_), .. }));
                if (nx && xx) || (gt && nx) || (lt && nx) || (gt && lt) {
                    return if wrong {
                        Expect::AnyError { rule: "zadd-flags+wrongtype" }
                    } else {
                        err("ERR", None, "zadd-flags-incompatible")
                    };
                }
                let mut pairs: Vec<(f64, Bytes)> = Vec::new();
                for sm in a[i..].chunks(2) {
                    let s = match classify_float(&sm[0], true) {
                        Fl::Num(v) => v,
                        Fl::Inf(neg) => {
                            if neg {
                                f64::NEG_INFINITY
                            } else {
                                f64::INFINITY
                            }
                        }
                        Fl::Nan | Fl::Invalid => {
                            return if wrong {
                                Expect::AnyError { rule: "zadd-score+wrongtype" }
                            } else {
                                err("ERR", Some("ERR value is not a valid float"), "not-float")
                            }
                        }
                        Fl::Unsure => return unspecified_key(&a[1], "float-outside-asserted-domain"),
                    };
                    pairs.push((s, sm[1].clone()));
                }
                if wrong {
                    return wrongtype();
                }
                if !self.db.contains_key(a[1].as_slice()) {
                    if xx {
                        return int(0); // XX never creates the key
                    }
                    self.put(&a[1], Val::ZSet(BTreeMap::new()), None);
                }
                let (mut added, mut updated) = (0, 0);
                if let Some(Entry { val: Val::ZSet(z), .. }) = self.db.get_mut(a[1].as_slice()) {
                    for (s, m) in pairs {
                        match z.get(&m).copied() {
                            Some(cur) => {
                                if nx {
                                    continue;
                                }
                                if (lt && s >= cur) || (gt && s <= cur) {
                                    continue;
                                }
                                if s != cur {
                                    z.insert(m, s);
                                    updated += 1;
                                }
                            }
                            None => {
                                if xx {
                                    continue;
                                }
                                z.insert(m, s);
                                added += 1;
                            }
                        }
                    }
                }
                self.drop_if_empty(&a[1]);
                int(if ch { added + updated } else { added })
            }
            "ZREM" => {
                need!(n >= 3);
                let c = match self.db.get_mut(a[1].as_slice()) {
                    None => return int(0),
                    Some(Entry { val: Val::ZSet(z), .. }) => a[2..].iter().filter(|m| z.remove(m.as_slice()).is_some()).count(),
                    Some(_) => return wrongtype(),
                };
                self.drop_if_empty(&a[1]);
                int(c as i64)
            }
            "ZCARD" => {
                need!(n == 2);
                match self.db.get(a[1].as_slice()) {
                    None => int(0),
                    Some(Entry { val: Val::ZSet(z), .. }) => int(z.len() as i64),
                    Some(_) => wrongtype(),
                }
            }
            "ZSCORE" => {
                need!(n == 3);
                match self.db.get(a[1].as_slice()) {
                    None => nil(),
                    Some(Entry { val: Val::ZSet(z), .. }) => z.get(a[2].as_slice()).map_or(nil(), |s| Expect::Score(*s)),
                    Some(_) => wrongtype(),
                }
            }
            "ZRANK" => {
                need!(n == 3);
                match self.db.get(a[1].as_slice()) {
                    None => nil(),
                    Some(Entry { val: Val::ZSet(z), .. }) => {
                        match Model::zsorted(z).iter().position(|(m, _)| m == &a[2]) {
                            Some(p) => int(p as i64),
                            None => nil(),
                        }
                    }
                    Some(_) => wrongtype(),
                }
            }
            "ZRANGE" | "ZREVRANGE" => {
                need!(n == 4 || n == 5);
                let (s, e) = (int_arg!(&a[2]), int_arg!(&a[3]));
                let ws = if n == 5 {
                    if upper(&a[4]) != "WITHSCORES" {
                        return unspecified("zrange-option-not-modelled");
                    }
                    true
                } else {
                    false
                };
                let mut all = match self.db.get(a[1].as_slice()) {
                    None => vec![],
                    Some(Entry { val: Val::ZSet(z), .. }) => Model::zsorted(z),
                    Some(_) => return wrongtype(),
                };
                if name == "ZREVRANGE" {
                    all.reverse();
                }
                let sel: Vec<(Bytes, f64)> = match norm_range(all.len() as i64, s, e) {
                    None => vec![],
                    Some((s, e)) => all[s..=e].to_vec(),
                };
                if ws {
                    Expect::Scored(sel)
                } else {
                    Expect::Exact(Reply::Array(sel.into_iter().map(|(m, _)| Reply::Bulk(m)).collect()))
                }
            }
            "ZCOUNT" | "ZRANGEBYSCORE" => {
                need!(n >= 4);
                let mut ws = false;
                let mut limit: Option<(i64, i64)> = None;
                if name == "ZCOUNT" {
                    need!(n == 4);
                } else {
                    let mut i = 4;
                    while i < n {
                        match upper(&a[i]).as_str() {
                            "WITHSCORES" => ws = true,
                            "LIMIT" => {
                                need!(i + 2 < n);
                                limit = Some((int_arg!(&a[i + 1]), int_arg!(&a[i + 2])));
                                i += 2;
                            }
                            _ => return syntax_error(),
                        }
                        i += 1;
                    }
                }
                let (lo, hi) = (parse_bound(&a[2]), parse_bound(&a[3]));
                let entry = self.db.get(a[1].as_slice());
                let usable = matches!(entry, Some(Entry { val: Val::ZSet(_), .. }));
                let (lo, hi) = match (lo, hi) {
                    (Bound::Ok(l, le), Bound::Ok(h, he)) => ((l, le), (h, he)),
                    (Bound::Unsure, _) | (_, Bound::Unsure) => return unspecified("score-bound-outside-asserted-domain"),
                    (Bound::Bad(r), _) | (_, Bound::Bad(r)) => {
                        // Redis parses the range before it looks the key up; that order is not
                        // documented, so only a usable sorted set makes the error certain here
                        return if usable {
                            err("ERR", Some("ERR min or max is not a float"), r)
                        } else {
                            unspecified("score-bound-error-vs-key-lookup-order")
                        };
                    }
                };
                let z = match entry {
                    None => {
                        return if name == "ZCOUNT" { int(0) } else { Expect::Exact(Reply::Array(vec![])) };
                    }
                    Some(Entry { val: Val::ZSet(z), .. }) => z,
                    Some(_) => return wrongtype(),
                };
                let mut sel: Vec<(Bytes, f64)> = Model::zsorted(z).into_iter().filter(|(_, s)| in_bounds(*s, lo, hi)).collect();
                if name == "ZCOUNT" {
                    return int(sel.len() as i64);
                }
                if let Some((off, cnt)) = limit {
                    if off < 0 {
                        return unspecified("zrangebyscore-negative-offset");
                    }
                    let off = (off as usize).min(sel.len());
                    sel = sel.split_off(off);
                    if cnt >= 0 {
                        sel.truncate(cnt as usize);
                    }
                }
                if ws {
                    Expect::Scored(sel)
                } else {
                    Expect::Exact(Reply::Array(sel.into_iter().map(|(m, _)| Reply::Bulk(m)).collect()))
                }
            }
            // ------------------------------------------------------------ scan family
            "SCAN" | "HSCAN" | "ZSCAN" => {
                let (kind, key, mut i) = match name.as_str() {
                    "SCAN" => {
                        need!(n >= 2);
                        (ScanKind::Scan, vec![], 2)
                    }
                    "HSCAN" => {
                        need!(n >= 3);
                        (ScanKind::HScan, a[1].clone(), 3)
                    }
                    _ => {
                        need!(n >= 3);
                        (ScanKind::ZScan, a[1].clone(), 3)
                    }
                };
                let (mut pattern, mut count) = (None, None);
                while i < n {
                    need!(i + 1 < n);
                    match upper(&a[i]).as_str() {
                        "MATCH" => pattern = Some(a[i + 1].clone()),
                        "COUNT" => count = Some(a[i + 1].clone()),
                        _ => return unspecified("scan-option-not-modelled"),
                    }
                    i += 2;
                }
                Expect::Scan(ScanSpec { kind, key, pattern, count })
            }
            _ => unspecified("command-not-modelled"),
        }
    }

    /// What a full SCAN-family walk must return (as a set): keys, (field, value) or (member, score).
    /// Err(WRONGTYPE expectation) when the key has another type; None when the pattern is outside
    /// the asserted subset.
    pub fn scan_universe(&self, spec: &ScanSpec) -> Result<Option<Vec<(Bytes, ScanItem)>>, Expect> {
        let matches = |name: &[u8]| -> Option<bool> {
            match &spec.pattern {
                None => Some(true),
                Some(p) => glob_match(p, name),
            }
        };
        let mut out = Vec::new();
        match spec.kind {
            ScanKind::Scan => {
                for k in self.db.keys() {
                    match matches(k) {
                        None => return Ok(None),
                        Some(true) => out.push((k.clone(), ScanItem::Key)),
                        Some(false) => {}
                    }
                }
            }
            ScanKind::HScan => match self.db.get(spec.key.as_slice()) {
                None => {}
                Some(Entry { val: Val::Hash(h), .. }) => {
                    for (f, v) in h {
                        match matches(f) {
                            None => return Ok(None),
                            Some(true) => out.push((f.clone(), ScanItem::Value(v.clone()))),
                            Some(false) => {}
                        }
                    }
                }
                Some(_) => return Err(wrongtype()),
            },
            ScanKind::ZScan => match self.db.get(spec.key.as_slice()) {
                None => {}
                Some(Entry { val: Val::ZSet(z), .. }) => {
                    for (m, s) in z {
                        match matches(m) {
                            None => return Ok(None),
                            Some(true) => out.push((m.clone(), ScanItem::Score(*s))),
                            Some(false) => {}
                        }
                    }
                }
                Some(_) => return Err(wrongtype()),
            },
        }
        Ok(Some(out))
    }
}

#[derive(Clone, Debug, PartialEq)]
pub enum ScanItem {
    Key,
    Value(Bytes),
    Score(f64),
}

/// Parse score text the way a client would (used to compare numerically).
pub fn parse_score_text(b: &[u8]) -> Option<f64> {
    match classify_float(b, false) {
        Fl::Num(v) => Some(v),
        Fl::Inf(neg) => Some(if neg { f64::NEG_INFINITY } else { f64::INFINITY }),
        _ => {
            // exponent forms such as 1e+30 are covered by Num; anything else is not a score
            None
        }
    }
}

/// Does `text` denote `v` acceptably? Exact text inside the asserted domain, numeric equality
/// outside it (both `%.17g` and shortest round-trip forms parse back to the same double).
pub fn score_text_ok(text: &[u8], v: f64) -> bool {
    match parse_score_text(text) {
        None => false,
        Some(p) => {
            if p != v {
                return false;
            }
            if exact_domain(v) && !(v == 0.0) {
                text == exact_text(v).as_bytes()
            } else if v == 0.0 {
                text == b"0" || text == b"-0"
            } else {
                true
            }
        }
    }
}
