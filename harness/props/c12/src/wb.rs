//! Second subject of C12: `WriteBuffer` (shared `Arc<WriteBuffer>`, `push(&self)` /
//! `flush(&self)`), including pushes that arrive WHILE a flush is suspended in its store call.
//!
//! `WriteBuffer::flush` makes exactly one store call (the segment put). Over the gated
//! TraceObjectStore the flush future is polled once (it stops in front of the put), 0..3
//! generated `push()` calls run on the shared buffer, then the future is polled again and the
//! held put succeeds, fails cleanly, or fails after a half-written object. Per workload every
//! placement is enumerated: no failure, each flush failing (both kinds), thorough: pairs.
//!
//! Oracle (the last sentence of the property): after a failed flush `pending_count()` accounts
//! for the failed batch AND for what was pushed meanwhile; after a successful flush the object
//! under the returned key holds exactly the batch taken, and what was pushed meanwhile is
//! pending; after a closing flush every accepted update is in some successfully written
//! segment, read back from the store.
//!
//! `StreamingPersistence::push` / `flush` take `&mut self`: the borrow checker forbids a push
//! while a flush future exists, so there is no such interleaving to examine for it.

use crate::model::*;
use crate::store::*;
use redis_sim::replication::state::ReplicationDelta;
use redis_sim::streaming::{SegmentReader, WriteBuffer, WriteBufferConfig};
use serde::{Deserialize, Serialize};
use std::sync::Arc;
use std::task::Poll;
use std::time::Duration;
use vcore::CaseCtx;

#[derive(Clone, Debug, Serialize, Deserialize)]
pub enum WbOp {
    Push(DeltaSpec),
    /// flush; `during` are pushed while the flush is suspended in front of its put
    Flush { during: Vec<DeltaSpec> },
    /// two overlapping flushes on the shared buffer (a background tick racing an explicit or
    /// shutdown-path flush): flush A takes its batch and stops in front of its put, `between`
    /// are pushed, flush B takes them and stops in front of ITS put, `during_b` are pushed, B's
    /// put completes first, then A's
    Overlap { between: Vec<DeltaSpec>, during_b: Vec<DeltaSpec> },
}

#[derive(Clone, Debug, Serialize, Deserialize)]
pub struct WbCase {
    pub ops: Vec<WbOp>,
}

fn config() -> WriteBufferConfig {
    WriteBufferConfig {
        flush_interval: Duration::from_secs(3600),
        max_size_bytes: 1 << 20,
        max_deltas: 100_000,
        backpressure_threshold_bytes: 1 << 24,
        compression_enabled: false,
    }
}

fn id(d: &ReplicationDelta) -> String {
    format!("{}|{}", d.key, peer(&d.value))
}

struct Outcome {
    /// number of store calls (= flushes that reached their put)
    calls: usize,
    overlapped_failures: usize,
    /// Overlap steps executed
    overlapping: usize,
}

fn run(case: &[WbOp], faults: &[(usize, Fault)]) -> Result<Outcome, String> {
    let store = TraceObjectStore::new();
    store.set_faults(faults);
    store.set_gated(true);
    let wb = Arc::new(WriteBuffer::new(Arc::new(store.clone()), "wb".to_string(), config()));
    // model
    let mut pending: Vec<ReplicationDelta> = Vec::new();
    let mut accepted: Vec<ReplicationDelta> = Vec::new();
    let mut written: Vec<(String, Vec<ReplicationDelta>)> = Vec::new();
    let mut overlapped_failures = 0;
    let mut overlapping = 0usize;

    let push = |wb: &WriteBuffer<TraceObjectStore>,
                    s: &DeltaSpec,
                    pending: &mut Vec<ReplicationDelta>,
                    accepted: &mut Vec<ReplicationDelta>|
     -> Result<(), String> {
        let d = s.build();
        wb.push(d.clone()).map_err(|e| format!("push refused: {}", e))?;
        pending.push(d.clone());
        accepted.push(d);
        Ok(())
    };

    let mut flush = |during: &[DeltaSpec],
                     pending: &mut Vec<ReplicationDelta>,
                     accepted: &mut Vec<ReplicationDelta>,
                     written: &mut Vec<(String, Vec<ReplicationDelta>)>,
                     step: usize|
     -> Result<(), String> {
        let batch: Vec<ReplicationDelta> = std::mem::take(pending);
        let mut fut = Box::pin(wb.flush());
        let mut pushed_during = 0usize;
        let result = match poll_once(fut.as_mut()) {
            Poll::Ready(r) => r, // empty buffer: no store call
            Poll::Pending => {
                // the flush holds the batch and waits for the store: producers keep pushing
                for s in during {
                    push(&wb, s, pending, accepted)?;
                    pushed_during += 1;
                }
                match poll_once(fut.as_mut()) {
                    Poll::Ready(r) => r,
                    Poll::Pending => return Err(format!("step {}: flush() suspended a second time", step)),
                }
            }
        };
        drop(fut);
        let observed = wb.pending_count();
        match result {
            Ok(Some(key)) => {
                if batch.is_empty() {
                    return Err(format!("step {}: flush() wrote {} from an empty buffer", step, key));
                }
                written.push((key, batch));
                if observed != pending.len() {
                    return Err(format!(
                        "step {}: flush() succeeded; {} updates were pushed while it was in flight but pending_count() = {}",
                        step, pushed_during, observed
                    ));
                }
            }
            Ok(None) => {
                if !batch.is_empty() {
                    return Err(format!("step {}: flush() returned Ok(None) with {} updates buffered", step, batch.len()));
                }
                // nothing was in flight: the `during` pushes simply happen afterwards
                for s in during {
                    push(&wb, s, pending, accepted)?;
                }
            }
            Err(e) => {
                // nothing was persisted: the batch and everything pushed meanwhile must still
                // be accounted for
                let expected = batch.len() + pending.len();
                if pushed_during > 0 {
                    overlapped_failures += 1;
                }
                if observed != expected {
                    return Err(format!(
                        "step {}: flush() failed ({}) with {} updates in the failed batch and {} pushed while it was in flight, but pending_count() = {} (expected {}): accepted updates are neither persisted nor pending",
                        step, e, batch.len(), pushed_during, observed, expected
                    ));
                }
                let mut all = batch;
                all.append(pending);
                *pending = all;
            }
        }
        let stats = wb.stats();
        if stats.buffered_deltas != wb.pending_count() {
            return Err(format!(
                "step {}: stats().buffered_deltas = {} but pending_count() = {}",
                step,
                stats.buffered_deltas,
                wb.pending_count()
            ));
        }
        Ok(())
    };

    for (i, op) in case.iter().enumerate() {
        match op {
            WbOp::Push(s) => push(&wb, s, &mut pending, &mut accepted)?,
            WbOp::Flush { during } => flush(during, &mut pending, &mut accepted, &mut written, i)?,
            WbOp::Overlap { between, during_b } => {
                let batch_a: Vec<ReplicationDelta> = std::mem::take(&mut pending);
                let mut fut_a = Box::pin(wb.flush());
                let first = poll_once(fut_a.as_mut());
                let res_a = match first {
                    Poll::Ready(r) => Some(r), // empty buffer: A made no store call
                    Poll::Pending => None,
                };
                for s in between {
                    push(&wb, s, &mut pending, &mut accepted)?;
                }
                let batch_b: Vec<ReplicationDelta> = std::mem::take(&mut pending);
                let mut fut_b = Box::pin(wb.flush());
                let res_b = match poll_once(fut_b.as_mut()) {
                    Poll::Ready(r) => r,
                    Poll::Pending => {
                        for s in during_b {
                            push(&wb, s, &mut pending, &mut accepted)?;
                        }
                        match poll_once(fut_b.as_mut()) {
                            Poll::Ready(r) => r,
                            Poll::Pending => return Err(format!("step {}: the second flush() suspended a second time", i)),
                        }
                    }
                };
                drop(fut_b);
                let res_a = match res_a {
                    Some(r) => r,
                    None => match poll_once(fut_a.as_mut()) {
                        Poll::Ready(r) => r,
                        Poll::Pending => return Err(format!("step {}: the first flush() suspended a second time", i)),
                    },
                };
                drop(fut_a);
                // B's outcome is known first, then A's: a failed batch goes back in front of
                // what is pending at that moment
                for (res, batch, who) in [(res_b, batch_b, "second"), (res_a, batch_a, "first")] {
                    match res {
                        Ok(Some(key)) => {
                            if batch.is_empty() {
                                return Err(format!("step {}: the {} of two overlapping flushes wrote {} from an empty buffer", i, who, key));
                            }
                            written.push((key, batch));
                        }
                        Ok(None) => {
                            if !batch.is_empty() {
                                return Err(format!("step {}: the {} of two overlapping flushes returned Ok(None) with {} updates taken", i, who, batch.len()));
                            }
                        }
                        Err(_) => {
                            let mut all = batch;
                            all.append(&mut pending);
                            pending = all;
                        }
                    }
                }
                if wb.pending_count() != pending.len() {
                    return Err(format!(
                        "step {}: after two overlapping flushes pending_count() = {} but {} accepted updates are neither in a successfully written segment nor taken by a flush in flight",
                        i, wb.pending_count(), pending.len()
                    ));
                }
                overlapping += 1;
            }
        }
    }
    // closing flushes: transient failures are over after faults.len() attempts
    for k in 0..=faults.len() {
        if pending.is_empty() {
            break;
        }
        flush(&[], &mut pending, &mut accepted, &mut written, case.len() + k)?;
    }
    if !pending.is_empty() {
        return Err(format!("{} updates still unflushed after the closing flushes", pending.len()));
    }
    // read everything back
    let img = store.image();
    let mut persisted: std::collections::BTreeMap<String, usize> = Default::default();
    for (key, batch) in &written {
        let data = img
            .get(key)
            .ok_or_else(|| format!("flush() returned key {} but no such object exists", key))?;
        let ds = SegmentReader::open(data)
            .and_then(|r| {
                r.validate()?;
                r.read_all()
            })
            .map_err(|e| format!("segment {} written by a successful flush() is unreadable: {}", key, e))?;
        let got: Vec<String> = ds.iter().map(id).collect();
        let want: Vec<String> = batch.iter().map(id).collect();
        if got != want {
            return Err(format!(
                "segment {} holds {} updates, the batch taken by that flush() had {} (contents differ)",
                key,
                got.len(),
                want.len()
            ));
        }
        for g in got {
            *persisted.entry(g).or_default() += 1;
        }
    }
    for d in &accepted {
        if !persisted.contains_key(&id(d)) {
            return Err(format!(
                "accepted update {} is in no segment written by a successful flush() and the buffer is empty: silently discarded\n    store calls:\n{}",
                show_delta(d),
                store.calls().iter().map(|c| format!("      {}\n", c.short())).collect::<String>()
            ));
        }
    }
    Ok(Outcome {
        calls: store.call_count(),
        overlapped_failures,
        overlapping,
    })
}

pub fn check(case: &WbCase, ctx: &mut CaseCtx<'_>) -> Result<(), String> {
    let mut ops = case.ops.clone();
    uniquify(
        ops.iter_mut().flat_map(|o| -> Box<dyn Iterator<Item = &mut DeltaSpec>> {
            match o {
                WbOp::Push(s) => Box::new(std::iter::once(s)),
                WbOp::Flush { during } => Box::new(during.iter_mut()),
                WbOp::Overlap { between, during_b } => Box::new(between.iter_mut().chain(during_b.iter_mut())),
            }
        }),
        false,
    );
    let base = run(&ops, &[]).map_err(|e| format!("no failure injected: {}", e))?;
    let n = base.calls;
    let mut evals = 1u64;
    let mut overlapped = 0usize;
    let kinds = [Fault::Fail, Fault::PartialThenFail(500), Fault::EffectThenFail];
    for i in 0..n {
        for f in kinds {
            let o = run(&ops, &[(i, f)]).map_err(|e| format!("put #{} failing ({:?}): {}", i, f, e))?;
            overlapped += o.overlapped_failures;
            evals += 1;
            if ctx.tier() == vcore::Tier::Thorough && f == Fault::Fail {
                for j in (i + 1)..o.calls {
                    let o2 = run(&ops, &[(i, f), (j, Fault::Fail)])
                        .map_err(|e| format!("puts #{} and #{} failing: {}", i, j, e))?;
                    overlapped += o2.overlapped_failures;
                    evals += 1;
                }
            }
        }
    }
    ctx.add_evaluations(evals);
    if base.overlapping > 0 {
        ctx.label("two_overlapping_flushes");
    }
    if overlapped > 0 {
        // NT: some flush failed while updates had been pushed during its store call
        ctx.nontrivial(&serde_json::to_string(&ops).unwrap_or_default());
        ctx.label("push_during_failing_flush");
    }
    Ok(())
}
