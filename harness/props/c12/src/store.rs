//! TraceObjectStore — harness-owned `ObjectStore` (DESIGN.md §2.4).
//!
//! * in-memory objects, one global call counter (every trait method is one call);
//! * a full-store snapshot at every call boundary (`image_after(i)`), plus the payload of every
//!   put, so the image a crash leaves *inside* put `i` (a prefix of the payload stored under the
//!   key; rename / delete are atomic) can be reconstructed: `image_inside_put(i, prefix_len)`;
//! * scripted transient failures: call `i` fails with an error, for a put possibly after having
//!   stored a prefix of the payload (`Fault::PartialThenFail`), or after having taken full
//!   effect (`Fault::EffectThenFail`); a get may return damaged bytes once
//!   (`CorruptGet` / `TruncateGet`); faults can also be addressed as "the n-th call made by
//!   task t" (`set_task_faults`) when the global index depends on a schedule;
//! * optional gate: when `set_gated(true)`, every call first suspends once (returns `Pending`)
//!   and is performed when its task is polled again. A driver that polls two tasks by hand
//!   therefore executes exactly one store call per poll (DESIGN.md §2.5, used by C13).
//!
//! No randomness, no wall clock: `created_at_ms` of an object is the index of the call that
//! stored it. A put that returns Ok has stored all its bytes (fault model of C12).
//!
//! Shared by C12 and C13 (`#[path = "../../c12/src/store.rs"] mod store;`).
#![allow(dead_code)]

use redis_sim::streaming::{ListResult, ObjectMeta, ObjectStore};
use serde::{Deserialize, Serialize};
use std::collections::BTreeMap;
use std::future::Future;
use std::io::{Error as IoError, ErrorKind, Result as IoResult};
use std::pin::Pin;
use std::sync::atomic::{AtomicU8, Ordering};
use std::sync::{Arc, Mutex};
use std::task::{Context, Poll};

/// A store image: key -> bytes (payloads are shared, snapshots are cheap).
pub type Image = BTreeMap<String, Arc<Vec<u8>>>;

#[derive(Clone, Copy, Debug, PartialEq, Eq, Hash, Serialize, Deserialize)]
pub enum OpKind {
    Put,
    Get,
    Exists,
    Delete,
    List,
    Rename,
    Head,
}

/// Scripted failure of one call (by global call index).
#[derive(Clone, Copy, Debug, PartialEq, Eq, Hash, Serialize, Deserialize)]
pub enum Fault {
    /// the call returns an error and has no effect
    Fail,
    /// put only: the first `permille`/1000 of the payload is stored under the key, then the
    /// call returns an error (for other operations this behaves like `Fail`)
    PartialThenFail(u16),
    /// get only: the call returns Ok with one byte flipped (`^ 0xFF`, as the in-tree
    /// SimulatedObjectStore corrupts) at offset `permille`/1000 of the object; the stored object
    /// stays intact. Other operations are not affected.
    CorruptGet(u16),
    /// get only: the call returns Ok with only the first `permille`/1000 of the object; the
    /// stored object stays intact. Other operations are not affected.
    TruncateGet(u16),
    /// The operation TAKES EFFECT and still reports an error (a timeout after the commit).
    /// put: the whole object is stored; delete: the object is gone; rename: the destination
    /// holds the object and the source is still there (copy landed, delete of the source
    /// failed — how the in-tree S3 store implements rename). Read operations: like `Fail`.
    EffectThenFail,
}

#[derive(Clone, Debug)]
pub struct CallRecord {
    pub idx: usize,
    pub op: OpKind,
    pub key: String,
    /// rename target
    pub key2: Option<String>,
    /// put payload
    pub data: Option<Arc<Vec<u8>>>,
    pub ok: bool,
    /// the error was scripted (otherwise a failed call is the store's genuine answer, e.g.
    /// NotFound)
    pub injected: bool,
    /// the scripted fault that applied to this call
    pub fault: Option<Fault>,
    /// whatever `set_task` said when the call was performed (step scheduler)
    pub task: u8,
}

impl CallRecord {
    pub fn short(&self) -> String {
        let k = self.key.rsplit('/').next().unwrap_or(&self.key);
        let effect = if self.fault == Some(Fault::EffectThenFail) && !self.ok {
            " — the operation took effect"
        } else {
            ""
        };
        format!(
            "#{} t{} {:?} {}{}{}{}",
            self.idx,
            self.task,
            self.op,
            k,
            match &self.data {
                Some(d) => format!(" ({}B)", d.len()),
                None => String::new(),
            },
            if self.ok && self.injected && self.op == OpKind::Get {
                " (returned corrupted/truncated bytes: injected)"
            } else if self.ok {
                ""
            } else if self.injected {
                " FAILED (injected)"
            } else {
                " -> error (not found)"
            },
            effect
        )
    }
}

struct Inner {
    initial: Image,
    objects: Image,
    created: BTreeMap<String, u64>,
    calls: Vec<CallRecord>,
    snapshots: Vec<Image>,
    faults: BTreeMap<usize, Fault>,
    task_faults: BTreeMap<(u8, usize), Fault>,
    task_calls: BTreeMap<u8, usize>,
    gated: bool,
    task: u8,
}

#[derive(Clone)]
pub struct TraceObjectStore {
    inner: Arc<Mutex<Inner>>,
    /// index into ERROR_KINDS of the kind injected failures carry (outside the mutex: read
    /// while the inner lock is held)
    err_kind: Arc<AtomicU8>,
}

/// Suspends exactly once (wakes itself so that an ordinary executor would also make progress).
struct YieldOnce(bool);
impl Future for YieldOnce {
    type Output = ();
    fn poll(mut self: Pin<&mut Self>, cx: &mut Context<'_>) -> Poll<()> {
        if self.0 {
            Poll::Ready(())
        } else {
            self.0 = true;
            cx.waker().wake_by_ref();
            Poll::Pending
        }
    }
}

/// Does this scripted fault make a non-get operation fail?
fn fails(f: Option<Fault>) -> bool {
    matches!(f, Some(Fault::Fail) | Some(Fault::PartialThenFail(_)) | Some(Fault::EffectThenFail))
}

/// The `ErrorKind`s an injected failure may carry (`set_error_kind(code)`, code = index).
/// `NotFound` is deliberately absent: for this API it is not a transient failure but an ANSWER
/// ("the object does not exist") that `load_or_create` and `compact()` are documented to act
/// on; a store that gives it for an existing object is lying, not failing. Truthful NotFound
/// answers (a rename whose source another writer has moved away) arise in the interleaving tier.
pub const ERROR_KINDS: &[(ErrorKind, &str)] = &[
    (ErrorKind::Other, "other"),
    (ErrorKind::TimedOut, "timed_out"),
    (ErrorKind::Interrupted, "interrupted"),
    (ErrorKind::ConnectionReset, "connection_reset"),
    (ErrorKind::PermissionDenied, "permission_denied"),
    (ErrorKind::UnexpectedEof, "unexpected_eof"),
    (ErrorKind::WouldBlock, "would_block"),
    (ErrorKind::AlreadyExists, "already_exists"),
    (ErrorKind::InvalidData, "invalid_data"),
];

pub fn error_kind(code: u8) -> (ErrorKind, &'static str) {
    ERROR_KINDS[(code as usize).min(ERROR_KINDS.len() - 1)]
}

impl Default for TraceObjectStore {
    fn default() -> Self {
        Self::new()
    }
}

impl TraceObjectStore {
    pub fn new() -> Self {
        Self::from_image(Image::new())
    }

    pub fn from_image(img: Image) -> Self {
        TraceObjectStore {
            inner: Arc::new(Mutex::new(Inner {
                initial: img.clone(),
                created: img.keys().map(|k| (k.clone(), 0)).collect(),
                objects: img,
                calls: Vec::new(),
                snapshots: Vec::new(),
                faults: BTreeMap::new(),
                task_faults: BTreeMap::new(),
                task_calls: BTreeMap::new(),
                gated: false,
                task: 0,
            })),
            err_kind: Arc::new(AtomicU8::new(0)),
        }
    }

    /// `ErrorKind` of every injected failure from now on (index into `ERROR_KINDS`; default
    /// `Other`, as the in-tree SimulatedObjectStore injects)
    pub fn set_error_kind(&self, code: u8) {
        self.err_kind.store(code, Ordering::Relaxed);
    }

    fn injected(&self, op: &str, idx: usize) -> IoError {
        let (kind, name) = error_kind(self.err_kind.load(Ordering::Relaxed));
        IoError::new(kind, format!("injected {} failure ({}) at call {}", op, name, idx))
    }

    fn lock(&self) -> std::sync::MutexGuard<'_, Inner> {
        self.inner.lock().unwrap_or_else(|p| p.into_inner())
    }

    pub fn set_faults(&self, faults: &[(usize, Fault)]) {
        self.lock().faults = faults.iter().cloned().collect();
    }
    /// fault on the n-th (0-based) call made while `set_task(t)` is in force
    pub fn set_task_faults(&self, faults: &[((u8, usize), Fault)]) {
        self.lock().task_faults = faults.iter().cloned().collect();
    }
    pub fn set_gated(&self, on: bool) {
        self.lock().gated = on;
    }
    pub fn set_task(&self, t: u8) {
        self.lock().task = t;
    }
    pub fn call_count(&self) -> usize {
        self.lock().calls.len()
    }
    pub fn calls(&self) -> Vec<CallRecord> {
        self.lock().calls.clone()
    }
    /// current image
    pub fn image(&self) -> Image {
        self.lock().objects.clone()
    }
    /// image after call `i` has been performed
    pub fn image_after(&self, i: usize) -> Image {
        self.lock().snapshots[i].clone()
    }
    /// image before call `i`
    pub fn image_before(&self, i: usize) -> Image {
        let g = self.lock();
        if i == 0 {
            g.initial.clone()
        } else {
            g.snapshots[i - 1].clone()
        }
    }
    /// image left by a process that dies inside put `i` after `prefix` bytes reached the store
    pub fn image_inside_put(&self, i: usize, prefix: usize) -> Option<Image> {
        let g = self.lock();
        let c = g.calls.get(i)?;
        if c.op != OpKind::Put {
            return None;
        }
        let data = c.data.as_ref()?;
        let mut img = if i == 0 {
            g.initial.clone()
        } else {
            g.snapshots[i - 1].clone()
        };
        img.insert(c.key.clone(), Arc::new(data[..prefix.min(data.len())].to_vec()));
        Some(img)
    }

    /// Count the call, decide its scripted fate. Returns (index, fault).
    fn begin(&self, op: OpKind, key: &str, key2: Option<&str>, data: Option<&[u8]>) -> (usize, Option<Fault>) {
        let mut g = self.lock();
        let idx = g.calls.len();
        let task = g.task;
        g.calls.push(CallRecord {
            idx,
            op,
            key: key.to_string(),
            key2: key2.map(|s| s.to_string()),
            data: data.map(|d| Arc::new(d.to_vec())),
            ok: true,
            injected: false,
            fault: None,
            task,
        });
        let nth = {
            let c = g.task_calls.entry(task).or_default();
            let n = *c;
            *c += 1;
            n
        };
        let f = g
            .faults
            .get(&idx)
            .cloned()
            .or_else(|| g.task_faults.get(&(task, nth)).cloned());
        g.calls[idx].injected = (op == OpKind::Get && f.is_some()) || fails(f);
        if g.calls[idx].injected {
            g.calls[idx].fault = f;
        }
        (idx, f)
    }

    fn end(&self, idx: usize, ok: bool) {
        let mut g = self.lock();
        g.calls[idx].ok = ok;
        let snap = g.objects.clone();
        g.snapshots.push(snap);
        debug_assert_eq!(g.snapshots.len(), idx + 1);
    }

    async fn gate(&self) {
        let gated = self.lock().gated;
        if gated {
            YieldOnce(false).await;
        }
    }
}

impl ObjectStore for TraceObjectStore {
    fn put<'a>(
        &'a self,
        key: &'a str,
        data: &'a [u8],
    ) -> Pin<Box<dyn Future<Output = IoResult<()>> + Send + 'a>> {
        Box::pin(async move {
            self.gate().await;
            let (idx, fault) = self.begin(OpKind::Put, key, None, Some(data));
            let r = match fault {
                Some(Fault::Fail) => Err(self.injected("put", idx)),
                Some(Fault::CorruptGet(_)) | Some(Fault::TruncateGet(_)) => {
                    let mut g = self.lock();
                    let payload = g.calls[idx].data.clone().expect("put payload recorded");
                    g.objects.insert(key.to_string(), payload);
                    g.created.insert(key.to_string(), idx as u64);
                    Ok(())
                }
                Some(Fault::EffectThenFail) => {
                    let mut g = self.lock();
                    let payload = g.calls[idx].data.clone().expect("put payload recorded");
                    g.objects.insert(key.to_string(), payload);
                    g.created.insert(key.to_string(), idx as u64);
                    Err(self.injected("put (after the object was stored)", idx))
                }
                Some(Fault::PartialThenFail(pm)) => {
                    let n = (data.len() * pm.min(1000) as usize) / 1000;
                    let mut g = self.lock();
                    g.objects.insert(key.to_string(), Arc::new(data[..n].to_vec()));
                    g.created.insert(key.to_string(), idx as u64);
                    Err(self.injected("put (after a partial write)", idx))
                }
                None => {
                    let mut g = self.lock();
                    let payload = g.calls[idx].data.clone().expect("put payload recorded");
                    g.objects.insert(key.to_string(), payload);
                    g.created.insert(key.to_string(), idx as u64);
                    Ok(())
                }
            };
            self.end(idx, r.is_ok());
            r
        })
    }

    fn get<'a>(
        &'a self,
        key: &'a str,
    ) -> Pin<Box<dyn Future<Output = IoResult<Vec<u8>>> + Send + 'a>> {
        Box::pin(async move {
            self.gate().await;
            let (idx, fault) = self.begin(OpKind::Get, key, None, None);
            let stored = self.lock().objects.get(key).cloned();
            let r = match (fault, stored) {
                (Some(Fault::CorruptGet(pm)), Some(d)) => {
                    let mut v = d.as_ref().clone();
                    if !v.is_empty() {
                        let at = ((v.len() * pm.min(999) as usize) / 1000).min(v.len() - 1);
                        v[at] ^= 0xFF;
                    }
                    Ok(v)
                }
                (Some(Fault::TruncateGet(pm)), Some(d)) => {
                    let n = (d.len() * pm.min(999) as usize) / 1000;
                    Ok(d[..n].to_vec())
                }
                (Some(Fault::Fail), _) | (Some(Fault::PartialThenFail(_)), _) | (Some(Fault::EffectThenFail), _) => {
                    Err(self.injected("get", idx))
                }
                (_, Some(d)) => Ok(d.as_ref().clone()),
                (_, None) => Err(IoError::new(ErrorKind::NotFound, format!("Key not found: {}", key))),
            };
            self.end(idx, r.is_ok());
            r
        })
    }

    fn exists<'a>(
        &'a self,
        key: &'a str,
    ) -> Pin<Box<dyn Future<Output = IoResult<bool>> + Send + 'a>> {
        Box::pin(async move {
            self.gate().await;
            let (idx, fault) = self.begin(OpKind::Exists, key, None, None);
            let r = if fails(fault) {
                Err(self.injected("exists", idx))
            } else {
                Ok(self.lock().objects.contains_key(key))
            };
            self.end(idx, r.is_ok());
            r
        })
    }

    fn delete<'a>(
        &'a self,
        key: &'a str,
    ) -> Pin<Box<dyn Future<Output = IoResult<()>> + Send + 'a>> {
        Box::pin(async move {
            self.gate().await;
            let (idx, fault) = self.begin(OpKind::Delete, key, None, None);
            let r = if fault == Some(Fault::EffectThenFail) {
                let mut g = self.lock();
                g.objects.remove(key);
                g.created.remove(key);
                Err(self.injected("delete (after the object was removed)", idx))
            } else if fails(fault) {
                Err(self.injected("delete", idx))
            } else {
                let mut g = self.lock();
                g.objects.remove(key);
                g.created.remove(key);
                Ok(())
            };
            self.end(idx, r.is_ok());
            r
        })
    }

    fn list<'a>(
        &'a self,
        prefix: &'a str,
        _continuation_token: Option<&'a str>,
    ) -> Pin<Box<dyn Future<Output = IoResult<ListResult>> + Send + 'a>> {
        Box::pin(async move {
            self.gate().await;
            let (idx, fault) = self.begin(OpKind::List, prefix, None, None);
            let r = if fails(fault) {
                Err(self.injected("list", idx))
            } else {
                let g = self.lock();
                let objects = g
                    .objects
                    .iter()
                    .filter(|(k, _)| k.starts_with(prefix))
                    .map(|(k, v)| ObjectMeta {
                        key: k.clone(),
                        size_bytes: v.len() as u64,
                        created_at_ms: g.created.get(k).cloned().unwrap_or(0),
                        etag: None,
                    })
                    .collect();
                Ok(ListResult {
                    objects,
                    continuation_token: None,
                })
            };
            self.end(idx, r.is_ok());
            r
        })
    }

    fn rename<'a>(
        &'a self,
        from: &'a str,
        to: &'a str,
    ) -> Pin<Box<dyn Future<Output = IoResult<()>> + Send + 'a>> {
        Box::pin(async move {
            self.gate().await;
            let (idx, fault) = self.begin(OpKind::Rename, from, Some(to), None);
            let r = if fault == Some(Fault::EffectThenFail) {
                let mut g = self.lock();
                match g.objects.get(from).cloned() {
                    Some(obj) => {
                        // copy landed, delete of the source failed
                        g.objects.insert(to.to_string(), obj);
                        g.created.insert(to.to_string(), idx as u64);
                        Err(self.injected("rename (after the destination was written)", idx))
                    }
                    None => Err(IoError::new(
                        ErrorKind::NotFound,
                        format!("Source key not found: {}", from),
                    )),
                }
            } else if fails(fault) {
                Err(self.injected("rename", idx))
            } else {
                let mut g = self.lock();
                match g.objects.remove(from) {
                    Some(obj) => {
                        g.objects.insert(to.to_string(), obj);
                        g.created.remove(from);
                        g.created.insert(to.to_string(), idx as u64);
                        Ok(())
                    }
                    None => Err(IoError::new(
                        ErrorKind::NotFound,
                        format!("Source key not found: {}", from),
                    )),
                }
            };
            self.end(idx, r.is_ok());
            r
        })
    }

    fn head<'a>(
        &'a self,
        key: &'a str,
    ) -> Pin<Box<dyn Future<Output = IoResult<ObjectMeta>> + Send + 'a>> {
        Box::pin(async move {
            self.gate().await;
            let (idx, fault) = self.begin(OpKind::Head, key, None, None);
            let r = if fails(fault) {
                Err(self.injected("head", idx))
            } else {
                let g = self.lock();
                match g.objects.get(key) {
                    Some(obj) => Ok(ObjectMeta {
                        key: key.to_string(),
                        size_bytes: obj.len() as u64,
                        created_at_ms: g.created.get(key).cloned().unwrap_or(0),
                        etag: None,
                    }),
                    None => Err(IoError::new(ErrorKind::NotFound, format!("Key not found: {}", key))),
                }
            };
            self.end(idx, r.is_ok());
            r
        })
    }
}

// ---------------------------------------------------------------------------------------
// driving futures without a runtime
// ---------------------------------------------------------------------------------------

/// Run a future whose only suspension points are this store's gates (none when the gate is
/// off) to completion on the current thread. Nothing under test here needs timers or tokio.
pub fn run_now<F: Future>(fut: F) -> F::Output {
    futures::executor::block_on(fut)
}

/// Poll a pinned future once with a no-op waker.
pub fn poll_once<F: Future + ?Sized>(fut: Pin<&mut F>) -> Poll<F::Output> {
    let w = futures::task::noop_waker();
    let mut cx = Context::from_waker(&w);
    fut.poll(&mut cx)
}
