//! `large_values`: the size classes the generated workloads never reach. One update whose
//! encoding is larger than a threshold a reader, a decoder or a batching layer might have
//! (64 KiB, 1 MiB, 4 MiB, 16 MiB; thorough: 64 MiB) — a long string, or a hash with tens of
//! thousands of fields (a state-based hash delta carries the whole hash) — between two small
//! updates, through the production writers: three confirmed flushes, recovery after each, then
//! compaction passes with recovery after each. Oracle as everywhere in C12: every flush that
//! returned Ok is a confirmed update; recovery must succeed and return exactly the merge of the
//! confirmed updates, before and after compaction. A push or flush that REFUSES the large
//! update with an error is a clean rejection (counted), not a violation.

use crate::model::*;
use crate::store::*;
use redis_sim::redis::SDS;
use redis_sim::replication::lattice::{LamportClock, LwwRegister, ReplicaId};
use redis_sim::replication::state::{CrdtValue, ReplicatedValue, ReplicationDelta};
use redis_sim::streaming::{
    CompactionConfig, Compactor, ManifestManager, SimulatedClock, StreamingPersistence, WriteBufferConfig,
};
use serde::{Deserialize, Serialize};
use std::collections::HashMap;
use std::sync::Arc;
use std::time::Duration;
use vcore::time::VerifTime;
use vcore::CaseCtx;

#[derive(Clone, Debug, Hash, Serialize, Deserialize)]
pub struct BigCase {
    /// payload bytes of the large update (string length, or total bytes of the hash's values)
    pub bytes: u64,
    /// false = one string value; true = a hash with `bytes / 48` fields of 48-byte values
    pub hash: bool,
    /// position of the large update among the three flushed segments (0, 1, 2)
    pub pos: u8,
}

pub fn cases(thorough: bool) -> Vec<BigCase> {
    let mut sizes: Vec<u64> = vec![(64 << 10) + 1, (1 << 20) + 1, (4 << 20) + 1, (16 << 20) + 1];
    if thorough {
        sizes.push((64 << 20) + 1);
    }
    let mut v = Vec::new();
    for &bytes in &sizes {
        for hash in [false, true] {
            for pos in 0..3u8 {
                // the hash form is slow to build and compare: one position for the two largest classes
                if hash && bytes > (4 << 20) + 1 && pos != 1 {
                    continue;
                }
                v.push(BigCase { bytes, hash, pos });
            }
        }
    }
    v
}

fn clock(time: u64, replica: u64) -> LamportClock {
    LamportClock { time, replica_id: ReplicaId::new(replica) }
}

fn small(key: &str, val: &str, time: u64) -> ReplicationDelta {
    let c = clock(time, 1);
    ReplicationDelta::new(key.to_string(), ReplicatedValue::with_value(SDS::from_str(val), c), c.replica_id)
}

fn large(case: &BigCase, time: u64) -> ReplicationDelta {
    let c = clock(time, 2);
    if case.hash {
        let n = (case.bytes / 48).max(2) as usize;
        let mut m: HashMap<String, LwwRegister<SDS>> = HashMap::with_capacity(n);
        for i in 0..n {
            let v = format!("{:0>48}", i);
            m.insert(format!("field:{}", i), LwwRegister::with_value(SDS::from_str(&v), c));
        }
        let mut v = ReplicatedValue::with_crdt(CrdtValue::Hash(m), c.replica_id);
        v.timestamp = c;
        ReplicationDelta::new("big:hash".to_string(), v, c.replica_id)
    } else {
        let mut bytes = vec![b'x'; case.bytes as usize];
        // not one repeated byte everywhere: position-dependent content shows a truncated or shifted read
        for (i, b) in bytes.iter_mut().enumerate().step_by(4093) {
            *b = b'a' + (i % 23) as u8;
        }
        ReplicationDelta::new("big:string".to_string(), ReplicatedValue::with_value(SDS::new(bytes), c), c.replica_id)
    }
}

/// cheap structural equality (no JSON projection of megabytes)
fn same_value(a: &ReplicatedValue, b: &ReplicatedValue) -> bool {
    if a.timestamp != b.timestamp || a.expiry_ms != b.expiry_ms || a.is_hash() != b.is_hash() {
        return false;
    }
    match (a.get_hash(), b.get_hash()) {
        (Some(x), Some(y)) => {
            x.len() == y.len()
                && x.iter().all(|(f, r)| match y.get(f) {
                    Some(s) => {
                        r.tombstone == s.tombstone
                            && r.timestamp == s.timestamp
                            && r.value.as_ref().map(|v| v.as_bytes()) == s.value.as_ref().map(|v| v.as_bytes())
                    }
                    None => false,
                })
        }
        (None, None) => a.get().map(|v| v.as_bytes()) == b.get().map(|v| v.as_bytes()) && a.is_tombstone() == b.is_tombstone(),
        _ => false,
    }
}

fn compare(stage: &str, want: &State, got: &State) -> Result<(), String> {
    for (k, w) in want {
        match got.get(k) {
            None => return Err(format!("{}: confirmed key {:?} is missing from what recovery returns", stage, k)),
            Some(g) if !same_value(w, g) => {
                return Err(format!(
                    "{}: key {:?} recovered with another value (want {} payload bytes / {} fields stamped {:?}, got {} / {} stamped {:?})",
                    stage,
                    k,
                    w.get().map(|v| v.as_bytes().len()).unwrap_or(0),
                    w.get_hash().map(|h| h.len()).unwrap_or(0),
                    w.timestamp,
                    g.get().map(|v| v.as_bytes().len()).unwrap_or(0),
                    g.get_hash().map(|h| h.len()).unwrap_or(0),
                    g.timestamp
                ))
            }
            _ => {}
        }
    }
    if let Some(k) = got.keys().find(|k| !want.contains_key(*k)) {
        return Err(format!("{}: recovery returns key {:?} that was never written", stage, k));
    }
    Ok(())
}

fn recover_state(stage: &str, store: &TraceObjectStore) -> Result<State, String> {
    match recover_image(&store.image()) {
        Ok(r) => Ok(r.state),
        Err(e) => Err(format!("{}: the store does not recover although every flush so far returned Ok: {:?}", stage, e)),
    }
}

pub fn check(case: &BigCase, ctx: &mut CaseCtx<'_>) -> Result<(), String> {
    let store = TraceObjectStore::new();
    let arc = Arc::new(store.clone());
    let cfg = WriteBufferConfig {
        flush_interval: Duration::from_secs(3600),
        max_size_bytes: 1 << 31,
        max_deltas: 1_000_000,
        backpressure_threshold_bytes: 1 << 31,
        compression_enabled: false,
    };
    let mut p: StreamingPersistence<TraceObjectStore, SimulatedClock> = run_now(StreamingPersistence::with_clock(
        arc.clone(),
        PREFIX.to_string(),
        REPLICA,
        cfg,
        SimulatedClock::new(0),
    ))
    .map_err(|e| format!("open: {}", e))?;

    let mut plan: Vec<ReplicationDelta> = vec![small("k:a", "v1", 1), small("k:b", "v2", 3), small("k:a", "v3", 5)];
    plan[case.pos as usize % 3] = large(case, 2 + 2 * (case.pos as u64 % 3));
    ctx.label(&format!("large:{}:{}", if case.hash { "hash" } else { "string" }, case.bytes));

    let mut confirmed: Vec<ReplicationDelta> = Vec::new();
    for (i, d) in plan.iter().enumerate() {
        if let Err(e) = p.push(d.clone()) {
            ctx.label("large:push_refused");
            let _ = e;
            continue;
        }
        match run_now(p.flush()) {
            Ok(_) => confirmed.push(d.clone()),
            Err(_) => {
                ctx.label("large:flush_refused");
                // a failed flush confirms nothing; what it left pending may or may not come
                // back with a later flush — keep the oracle exact by stopping here
                break;
            }
        }
        let want = fold(None, &confirmed);
        let got = recover_state(&format!("after flush #{}", i + 1), &store)?;
        compare(&format!("after flush #{}", i + 1), &want, &got)?;
    }
    if confirmed.len() < 3 {
        return Ok(());
    }
    ctx.nontrivial(case);
    let want = fold(None, &confirmed);
    for pass in 1..=3 {
        let mm = ManifestManager::new(store.clone(), PREFIX);
        let mut c = Compactor::with_time_source(
            arc.clone(),
            PREFIX.to_string(),
            mm,
            CompactionConfig {
                target_segment_size: 1 << 30,
                max_segments: 2,
                min_segments_to_compact: 2,
                max_segments_per_compaction: 2,
                tombstone_ttl: Duration::from_secs(86_400),
                compression_enabled: false,
            },
            VerifTime::new(0),
        );
        let r = run_now(c.compact());
        if r.is_ok() {
            ctx.label("large:compacted");
        }
        let got = recover_state(&format!("after compaction pass {} ({})", pass, if r.is_ok() { "Ok" } else { "not run / error" }), &store)?;
        compare(&format!("after compaction pass {}", pass), &want, &got)?;
    }
    Ok(())
}
