//! C12 with the two writers that exist in production running CONCURRENTLY.
//!
//! `integration.rs::start_workers` runs the persistence actor (owner of `StreamingPersistence`,
//! it flushes) and the compaction worker (a `Compactor` with its own `ManifestManager` — same
//! `manifest.json.tmp` key) as separate tasks on one prefix. "At every instant at which the
//! process may die during flush or compaction" therefore includes the instants at which a flush
//! is between two of its store calls while the compactor performs some of its own.
//!
//! Per case: a generated sequential history (the `workloads` generator, run fault-free) builds
//! the store; then one `flush()` of a generated batch and one `Compactor::compact()` run as two
//! hand-polled futures over the gated `TraceObjectStore` (one store call per poll), and EVERY
//! interleaving of their store calls is enumerated depth-first; a closing sequential flush
//! retries a failed flush as the worker's next tick would. In every schedule, every call
//! boundary is a crash position (`check_image`, the same oracle as the sequential tier:
//! recover() Ok, the manifest names only valid objects, every update of every flush that had
//! returned Ok is recovered), and after a failed flush `pending_count()` must account for the
//! batch. The store is truthful here (no injected fault): the only errors are the store's
//! genuine answers, e.g. `NotFound` for a rename whose source the other writer has just
//! renamed away.
//!
//! KF-C13-04 (open, C13, design level): flush and compaction update the manifest by
//! unsynchronised read-modify-write. A discrepancy is attributed to it ONLY if
//!   (1) no operation carried on after one of its own put/rename calls had failed (a flush that
//!       returns Ok although its rename failed is not KF-C13-04: there, every call succeeds), and
//!   (2) at or before the crash position a manifest was published that was built from a
//!       snapshot older than another writer's publication (or a writer renamed the other
//!       writer's temp object into place), or both writers put different objects under one
//!       segment key (same id allocated from overlapping snapshots).
//! Everything else is a violation.

use crate::model::*;
use crate::store::*;
use crate::{check_image, comp_config, open, prepare, run, trace_text, CompactEv, FlushEv, Op, RunOut, Workload};
use redis_sim::replication::state::ReplicationDelta;
use redis_sim::streaming::{CompactionError, Compactor, ManifestManager};
use serde::{Deserialize, Serialize};
use std::collections::{BTreeMap, BTreeSet};
use std::sync::Arc;
use std::task::Poll;
use vcore::time::VerifTime;
use vcore::CaseCtx;

#[derive(Clone, Debug, Serialize, Deserialize)]
pub struct InterCase {
    /// sequential history that builds the store the concurrent phase starts from (run
    /// fault-free, closed by a flush), and the configuration
    pub w: Workload,
    /// accepted into the buffer before the concurrent flush
    pub batch: Vec<DeltaSpec>,
    /// None = every interleaving; Some(word) = that one (true = the compactor performs its next
    /// store call, false = the flush; ignored where only one of them is still running)
    #[serde(default)]
    pub schedule: Option<Vec<bool>>,
}

const TASK_COMPACT: u8 = 1;
const TASK_FLUSH: u8 = 2;

struct InterRun {
    r: RunOut,
    word: Vec<bool>,
    both: Vec<bool>,
    /// store calls made before the two tasks start (the open of the persistence)
    base_calls: usize,
    compact_res: Result<(), String>,
    compact_merged: bool,
    compact_nothing: bool,
    /// the closing flush failed (attributable to KF-C13-04 under the narrow rule)
    run_error: Option<String>,
    /// pending accounting after a failed flush (the property's last sentence; never attributed
    /// to KF-C13-04)
    pending_error: Option<String>,
}

fn run_schedule(
    img: &Image,
    w: &Workload,
    pre_confirmed: &[ReplicationDelta],
    pre_compaction: bool,
    batch: &[ReplicationDelta],
    mut choose: impl FnMut(usize) -> bool,
) -> Result<InterRun, String> {
    let store = TraceObjectStore::from_image(img.clone());
    let arc = Arc::new(store.clone());
    let mut p = open(&arc, w)?;
    let mut out = RunOut {
        store: store.clone(),
        pre_compaction,
        labels: BTreeSet::new(),
        pre_confirmed: pre_confirmed.to_vec(),
        op_first_call: Vec::new(),
        deltas: Vec::new(),
        flushes: Vec::new(),
        compacts: Vec::new(),
        anomalies: Vec::new(),
        unflushed_at_end: 0,
    };
    let mut pending: Vec<usize> = Vec::new();
    for d in batch {
        // a refused push (backpressure) is not accepted: nothing is claimed for it
        if p.push(d.clone()).is_ok() {
            out.deltas.push(d.clone());
            pending.push(out.deltas.len() - 1);
        }
    }
    let mm = ManifestManager::new(store.clone(), PREFIX);
    let mut c = Compactor::with_time_source(
        arc.clone(),
        PREFIX.to_string(),
        mm,
        comp_config(w),
        VerifTime::new(w.clock.now()),
    );
    let base_calls = store.call_count();
    let mut word = Vec::new();
    let mut both = Vec::new();
    store.set_gated(true);
    let (res_c, res_f, ret_c, ret_f) = {
        let mut fa = Box::pin(c.compact());
        let mut fb = Box::pin(p.flush());
        let mut ra = None;
        let mut rb = None;
        // each task runs up to its first store call and is suspended in front of it
        store.set_task(TASK_COMPACT);
        if let Poll::Ready(r) = poll_once(fa.as_mut()) {
            ra = Some((r, store.call_count()));
        }
        store.set_task(TASK_FLUSH);
        if let Poll::Ready(r) = poll_once(fb.as_mut()) {
            rb = Some((r, store.call_count()));
        }
        loop {
            let (ea, eb) = (ra.is_none(), rb.is_none());
            if !ea && !eb {
                break;
            }
            let pick_c = if ea && eb { choose(word.len()) } else { ea };
            both.push(ea && eb);
            word.push(pick_c);
            // one poll = the pending store call is performed and the task runs to its next one
            if pick_c {
                store.set_task(TASK_COMPACT);
                if let Poll::Ready(r) = poll_once(fa.as_mut()) {
                    ra = Some((r, store.call_count()));
                }
            } else {
                store.set_task(TASK_FLUSH);
                if let Poll::Ready(r) = poll_once(fb.as_mut()) {
                    rb = Some((r, store.call_count()));
                }
            }
            if word.len() > 10_000 {
                store.set_gated(false);
                return Err("step scheduler: a task does not terminate".into());
            }
        }
        let (ra, ca) = ra.expect("done");
        let (rb, cb) = rb.expect("done");
        (ra, rb, ca, cb)
    };
    store.set_gated(false);
    let calls = store.calls();
    let first_of = |t: u8, default: usize| calls.iter().find(|c| c.idx >= base_calls && c.task == t).map(|c| c.idx).unwrap_or(default);
    out.compacts.push(CompactEv {
        first_call: first_of(TASK_COMPACT, ret_c),
        calls_at_return: ret_c,
        ok: res_c.is_ok(),
    });
    let (compact_merged, compact_nothing) = match &res_c {
        Ok(r) => (r.segment_created.is_some(), false),
        Err(CompactionError::NothingToCompact) => (false, true),
        Err(_) => (false, false),
    };
    let compact_res = res_c.map(|_| ()).map_err(|e| e.to_string());

    let mut run_error = None;
    let mut pending_error = None;
    let expected = pending.len();
    let attempted = pending.clone();
    let first_call = first_of(TASK_FLUSH, ret_f);
    match res_f {
        Ok(res) => {
            if res.deltas_flushed != expected {
                out.anomalies.push(format!(
                    "the concurrent flush returned Ok with deltas_flushed = {} but {} accepted updates were pending",
                    res.deltas_flushed, expected
                ));
            }
            out.flushes.push(FlushEv {
                op_idx: 0,
                batch: std::mem::take(&mut pending),
                ok: true,
                err: String::new(),
                attempted,
                first_call,
                calls_at_return: ret_f,
                expected_pending: expected,
                observed_pending: p.pending_count(),
                seg_key: res.segment.map(|s| s.key),
            });
        }
        Err(e) => {
            let observed = p.pending_count();
            out.flushes.push(FlushEv {
                op_idx: 0,
                batch: Vec::new(),
                ok: false,
                err: e.to_string(),
                attempted,
                first_call,
                calls_at_return: ret_f,
                expected_pending: expected,
                observed_pending: observed,
                seg_key: None,
            });
            if observed != expected {
                // the property's last sentence; no finding is open for it
                pending_error = Some(format!(
                    "the concurrent flush failed ({}) and pending_count() went from {} to {}: accepted updates are neither persisted nor pending",
                    e, expected, observed
                ));
                pending.clear();
            }
        }
    }
    // the worker's next tick: a failed flush is retried, now without a concurrent compaction
    store.set_task(TASK_FLUSH);
    if !pending.is_empty() {
        let first_call = store.call_count();
        let attempted = pending.clone();
        let expected = pending.len();
        match run_now(p.flush()) {
            Ok(res) => {
                if res.deltas_flushed != expected {
                    out.anomalies.push(format!(
                        "the closing flush returned Ok with deltas_flushed = {} but {} accepted updates were pending",
                        res.deltas_flushed, expected
                    ));
                }
                out.flushes.push(FlushEv {
                    op_idx: 1,
                    batch: std::mem::take(&mut pending),
                    ok: true,
                    err: String::new(),
                    attempted,
                    first_call,
                    calls_at_return: store.call_count(),
                    expected_pending: expected,
                    observed_pending: p.pending_count(),
                    seg_key: res.segment.map(|s| s.key),
                });
            }
            Err(e) => {
                run_error = Some(format!(
                    "the closing flush (sequential, no compaction running, no failure injected) failed: {}",
                    e
                ));
            }
        }
    }
    store.set_task(0);
    out.unflushed_at_end = pending.len();
    Ok(InterRun {
        r: out,
        word,
        both,
        base_calls,
        compact_res,
        compact_merged,
        compact_nothing,
        run_error,
        pending_error,
    })
}

fn word_text(w: &[bool]) -> String {
    w.iter().map(|&a| if a { 'C' } else { 'F' }).collect()
}

/// Is a discrepancy observed with `calls_done` store calls complete attributable to KF-C13-04?
/// Ok(why) / Err(why not).
fn kf_c13_04_explains(run: &InterRun, calls_done: usize, img: &Image) -> Result<String, String> {
    let calls = run.r.store.calls();
    let end = calls_done.min(calls.len());
    let phase = &calls[run.base_calls.min(end)..end];
    let who = |t: u8| if t == TASK_COMPACT { "compact()" } else { "flush()" };

    // (1) an operation that carried on after one of its own put/rename calls had failed is a
    //     different matter: under KF-C13-04 every call of both writers succeeds or the
    //     operation that was refused gives up
    //     (gets are exempt: a missing manifest / segment is an answer the code may act on;
    //     deletes are best effort by design)
    let op_of = |c: &CallRecord| -> (u8, usize) {
        // operation = (task, which flush): the closing flush is a new operation
        let n = run
            .r
            .flushes
            .iter()
            .filter(|f| c.task == TASK_FLUSH && f.calls_at_return <= c.idx)
            .count();
        (c.task, n)
    };
    for c in phase {
        if c.ok || !matches!(c.op, OpKind::Put | OpKind::Rename) {
            continue;
        }
        let op = op_of(c);
        if let Some(later) = phase.iter().find(|d| d.idx > c.idx && op_of(d) == op) {
            return Err(format!(
                "{} went on (call {}) after its own call {} had failed",
                who(c.task),
                later.short(),
                c.short()
            ));
        }
        // a flush that made no further call but REPORTED SUCCESS: that changes nothing on the
        // store, it only claims the batch is durable — so it matters iff this image can be
        // recovered and lacks an update of exactly that flush (when the image is unrecoverable
        // for KF-C13-04's reasons, the claim cannot be judged on it; another schedule shows it)
        if c.task != TASK_FLUSH {
            continue;
        }
        let claimed = run
            .r
            .flushes
            .iter()
            .find(|f| f.ok && f.first_call <= c.idx && c.idx < f.calls_at_return && f.calls_at_return <= calls_done);
        if let (Some(f), Ok(rec)) = (claimed, recover_image(img)) {
            if let Some(&di) = f.batch.iter().find(|&&di| !contains(&rec.state, &run.r.deltas[di])) {
                return Err(format!(
                    "flush() returned Ok although its own call {} had failed, and its update {} is not recovered (under KF-C13-04 every store call of the flush succeeds and a LATER manifest write erases its segment; here the flush never published its manifest and said Ok)",
                    c.short(),
                    show_delta(&run.r.deltas[di])
                ));
            }
        }
    }

    // (2) a lost update on the manifest, or one segment key written by both writers
    let manifest_key = format!("{}/manifest.json", PREFIX);
    let temp_key = format!("{}/manifest.json.tmp", PREFIX);
    let mut last_load: BTreeMap<u8, usize> = BTreeMap::new();
    let mut temp_author: Option<(u8, usize)> = None;
    // (index of the rename, author of the published content)
    let mut published: Vec<(usize, u8)> = Vec::new();
    let mut segment_writer: BTreeMap<&str, u8> = BTreeMap::new();
    for c in phase {
        match c.op {
            OpKind::Get if c.key == manifest_key => {
                last_load.insert(c.task, c.idx);
            }
            OpKind::Put if c.ok && c.key == temp_key => {
                temp_author = Some((c.task, last_load.get(&c.task).cloned().unwrap_or(0)));
            }
            OpKind::Put if c.ok && c.key.contains("/segments/") => {
                if let Some(t) = segment_writer.insert(c.key.as_str(), c.task) {
                    if t != c.task {
                        return Ok(format!(
                            "both writers put an object under {} (same id allocated from overlapping manifest snapshots; second put: call #{})",
                            c.key, c.idx
                        ));
                    }
                }
            }
            OpKind::Rename if c.ok && c.key == temp_key => {
                if let Some((author, loaded_at)) = temp_author.take() {
                    if author != c.task {
                        return Ok(format!(
                            "call #{}: {} renamed into place the temp manifest written by {} (shared temp key)",
                            c.idx,
                            who(c.task),
                            who(author)
                        ));
                    }
                    if let Some((at, other)) = published.iter().find(|(at, other)| *other != author && loaded_at < *at) {
                        return Ok(format!(
                            "call #{}: {} published a manifest built from the snapshot it loaded at call #{}, older than the manifest {} published at call #{}",
                            c.idx,
                            who(author),
                            loaded_at,
                            who(*other),
                            at
                        ));
                    }
                    published.push((c.idx, author));
                }
            }
            _ => {}
        }
    }
    Err("no manifest was published from a stale snapshot, no temp manifest was renamed by the other writer and no segment key was written by both".into())
}

struct Totals {
    schedules: u64,
    images: u64,
    interleaved: bool,
    tolerated: u64,
    flush_rename_not_found: bool,
    compact_rename_not_found: bool,
    flush_failed_then_retried: bool,
    compaction_between_temp_put_and_rename: bool,
}

/// All oracles on one schedule; crash positions before `from_call` were examined on the
/// previous schedule (identical prefix).
fn check_schedule(run: &InterRun, w: &Workload, from_call: usize, t: &mut Totals, ctx: &mut CaseCtx<'_>) -> Result<(), String> {
    let calls = run.r.store.calls();
    let describe = |run: &InterRun| {
        format!(
            "    schedule {} (C = one store call of compact(), F = one of flush(); then the closing flush)\n    compact() -> {}\n    flush()   -> {}\n    store calls (t1 = compactor, t2 = persistence owner):\n{}",
            word_text(&run.word),
            match &run.compact_res {
                Ok(()) => "Ok".to_string(),
                Err(e) => format!("Err({})", e),
            },
            run.r
                .flushes
                .iter()
                .map(|f| if f.ok { "Ok".to_string() } else { format!("Err({})", f.err) })
                .collect::<Vec<_>>()
                .join(", then closing flush -> "),
            trace_text(&run.r)
        )
    };
    let attribute = |ctx: &mut CaseCtx<'_>, t: &mut Totals, calls_done: usize, img: &Image, msg: String| -> Result<(), String> {
        match kf_c13_04_explains(run, calls_done, img) {
            Ok(_) if ctx.tolerate("KF-C13-04") => {
                t.tolerated += 1;
                Ok(())
            }
            Ok(why) => Err(format!("{}\n    (this is KF-C13-04's pattern — {} — but the finding is not listed open)\n{}", msg, why, describe(run))),
            Err(why_not) => {
                // the reason goes right after the first line (the run output shows only the
                // head of a message); check_image's own call list is dropped, describe() has it
                let head = msg.split("\n    store calls:").next().unwrap_or(&msg);
                let (first, rest) = head.split_once('\n').unwrap_or((head, ""));
                Err(format!(
                    "{}\n    not attributable to KF-C13-04 (unsynchronised manifest read-modify-write): {}\n{}\n{}",
                    first,
                    why_not,
                    rest,
                    describe(run)
                ))
            }
        }
    };
    if let Some(a) = run.r.anomalies.first() {
        return Err(format!("{}\n{}", a, describe(run)));
    }
    if let Some(e) = &run.pending_error {
        return Err(format!("{}\n{}", e, describe(run)));
    }
    if let Some(e) = &run.run_error {
        attribute(ctx, t, calls.len(), &run.r.store.image(), e.clone())?;
    }
    if run.r.unflushed_at_end != 0 && run.run_error.is_none() {
        return Err(format!("{} accepted updates are still unflushed at the end\n{}", run.r.unflushed_at_end, describe(run)));
    }
    // evidence: which truthful errors and which windows this schedule produced
    let temp_key = format!("{}/manifest.json.tmp", PREFIX);
    for c in &calls[run.base_calls..] {
        if c.op == OpKind::Rename && !c.ok {
            if c.task == TASK_FLUSH {
                t.flush_rename_not_found = true;
            } else {
                t.compact_rename_not_found = true;
            }
        }
    }
    if run.r.flushes.len() == 2 {
        t.flush_failed_then_retried = true;
    }
    {
        // a publication by the compactor between the flush's temp put and its rename
        let f_put = calls.iter().find(|c| c.idx >= run.base_calls && c.task == TASK_FLUSH && c.op == OpKind::Put && c.key == temp_key);
        let f_ren = calls.iter().find(|c| c.idx >= run.base_calls && c.task == TASK_FLUSH && c.op == OpKind::Rename);
        if let (Some(a), Some(b)) = (f_put, f_ren) {
            if calls.iter().any(|c| c.task == TASK_COMPACT && c.op == OpKind::Rename && a.idx < c.idx && c.idx < b.idx) {
                t.compaction_between_temp_put_and_rename = true;
            }
        }
    }
    if run.both.iter().filter(|b| **b).count() > 0 {
        t.interleaved = true;
    }
    for i in from_call..calls.len() {
        let what = format!("after call {}", calls[i].short());
        let img = run.r.store.image_after(i);
        if let Err(e) = check_image(&run.r, w, &[], &img, i + 1, &what, ctx) {
            attribute(ctx, t, i + 1, &img, e)?;
        }
        t.images += 1;
    }
    Ok(())
}

pub fn check_inter(case: &InterCase, ctx: &mut CaseCtx<'_>) -> Result<(), String> {
    let w = &case.w;
    // stamps of the concurrent batch must not collide with the history's; a compaction is part
    // of every case (for the KF-C13-01 restriction of `prepare`)
    let mut all = w.clone();
    all.ops.extend(case.batch.iter().cloned().map(Op::Push));
    all.ops.push(Op::Compact);
    let (mut ops, restricted) = prepare(&all, ctx.finding_open("KF-C13-01"));
    if restricted {
        ctx.tolerate("KF-C13-01");
    }
    ops.pop();
    let history: Vec<Op> = ops[..ops.len() - case.batch.len()].to_vec();
    let batch: Vec<ReplicationDelta> = ops[ops.len() - case.batch.len()..]
        .iter()
        .filter_map(|o| match o {
            Op::Push(s) => Some(s.build()),
            _ => None,
        })
        .collect();
    if batch.is_empty() {
        return Ok(());
    }
    // the history, sequential and fault-free (its own crash positions are `workloads`' business)
    let base = run(&history, w, &[]);
    if let Some(a) = base.anomalies.first() {
        return Err(format!("sequential history: {}\n{}", a, trace_text(&base)));
    }
    if let Some(f) = base.flushes.iter().find(|f| !f.ok) {
        return Err(format!("sequential history, no failure injected: flush at op #{} failed: {}\n{}", f.op_idx, f.err, trace_text(&base)));
    }
    if base.unflushed_at_end != 0 {
        return Err(format!("sequential history: {} updates unflushed at the end", base.unflushed_at_end));
    }
    let pre_confirmed: Vec<ReplicationDelta> = base
        .flushes
        .iter()
        .flat_map(|f| f.batch.iter().map(|&d| base.deltas[d].clone()))
        .collect();
    let pre_compaction = !base.compacts.is_empty();
    let img = base.store.image();

    let mut t = Totals {
        schedules: 0,
        images: 0,
        interleaved: false,
        tolerated: 0,
        flush_rename_not_found: false,
        compact_rename_not_found: false,
        flush_failed_then_retried: false,
        compaction_between_temp_put_and_rename: false,
    };
    let mut merged = false;
    let mut nothing = false;
    let mut serial_sig = None;
    match &case.schedule {
        Some(word) => {
            let out = run_schedule(&img, w, &pre_confirmed, pre_compaction, &batch, |step| word.get(step).cloned().unwrap_or(true))?;
            t.schedules += 1;
            merged |= out.compact_merged;
            nothing |= out.compact_nothing;
            check_schedule(&out, w, 0, &mut t, ctx)?;
        }
        None => {
            let mut prefix: Vec<bool> = Vec::new();
            let mut from_step: Option<usize> = None;
            loop {
                let out = run_schedule(&img, w, &pre_confirmed, pre_compaction, &batch, |step| prefix.get(step).cloned().unwrap_or(true))?;
                t.schedules += 1;
                merged |= out.compact_merged;
                nothing |= out.compact_nothing;
                if serial_sig.is_none() {
                    let sig: Vec<(OpKind, String)> = out
                        .r
                        .store
                        .calls()
                        .iter()
                        .map(|c| (c.op, c.key.rsplit('/').next().unwrap_or("").to_string()))
                        .collect();
                    serial_sig = Some(sig);
                }
                let from_call = from_step.map(|s| out.base_calls + s).unwrap_or(0);
                check_schedule(&out, w, from_call, &mut t, ctx)?;
                // depth-first: flip the last free choice that took the compactor
                match (0..out.word.len()).rev().find(|&s| out.both[s] && out.word[s]) {
                    Some(s) => {
                        prefix = out.word[..s].to_vec();
                        prefix.push(false);
                        from_step = Some(s);
                    }
                    None => break,
                }
                if t.schedules > 200_000 {
                    return Err("more than 200000 interleavings: case too large for enumeration".into());
                }
            }
            ctx.label("inter:all_interleavings");
        }
    }
    ctx.add_evaluations(t.schedules + t.images);
    if merged {
        ctx.label("inter:compaction_merged");
    } else if nothing {
        ctx.label("inter:compaction_nothing_to_compact");
    } else {
        ctx.label("inter:compaction_other_outcome");
    }
    if t.flush_rename_not_found {
        ctx.label("inter:flush_rename_answered_not_found");
    }
    if t.compact_rename_not_found {
        ctx.label("inter:compact_rename_answered_not_found");
    }
    if t.flush_failed_then_retried {
        ctx.label("inter:failed_flush_retried_by_closing_flush");
    }
    if t.compaction_between_temp_put_and_rename {
        ctx.label("inter:compactor_published_between_flush_temp_put_and_rename");
    }
    if t.tolerated > 0 {
        ctx.label("inter:some_image_attributed_to_KF-C13-04");
    }
    if pre_compaction {
        ctx.label("inter:history_has_compaction");
    }
    if t.interleaved && t.compaction_between_temp_put_and_rename {
        // NT: the compaction got as far as publishing a manifest, and some schedule places that
        // publication between the flush's temp put and its rename (then every other placement
        // of the compactor's calls among the flush's is enumerated too)
        ctx.nontrivial(&(serial_sig, batch.len()));
    }
    Ok(())
}
